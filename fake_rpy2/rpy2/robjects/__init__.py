import numpy as np
from . import numpy2ri, pandas2ri, packages  # noqa: F401


class _Conversion:
    @staticmethod
    def py2rpy(x):
        # pandas.DataFrame -> 2-D float array (what R would receive)
        return np.asarray(x, dtype=float)


conversion = _Conversion()


def r(_code):
    return None
