import numpy as np


class PackageNotInstalledError(Exception):
    pass


class _Fit:
    variable_importance = None

    def __init__(self, X, Y, params):
        self.X, self.Y, self.params = np.array(X, dtype=float), np.array(Y, dtype=float), dict(params)


class _Base:
    @staticmethod
    def as_matrix(x):
        return np.asarray(x)


#: log of (kind, shapes) for every backend call; harnesses may inspect/clear it
CALLS = []


class _Drf:
    @staticmethod
    def drf(X, Y, **params):
        X = np.asarray(X, dtype=float)
        Y = np.asarray(Y, dtype=float)
        if X.ndim == 1:
            X = X.reshape(-1, 1)
        if Y.ndim == 1:
            Y = Y.reshape(-1, 1)
        CALLS.append(('fit', X.copy(), Y.copy(), dict(params)))
        return _Fit(X, Y, params)

    @staticmethod
    def predict_drf(fit, newdata):
        D = np.asarray(newdata, dtype=float)
        if D.ndim == 1:
            D = D.reshape(-1, fit.X.shape[1])
        CALLS.append(('predict', fit, D.copy()))
        # Gaussian-kernel weights on the training rows: deterministic in (fit, row)
        d2 = ((D[:, None, :] - fit.X[None, :, :]) ** 2).sum(axis=2)
        w = np.exp(-d2) + 1e-12
        w = w / w.sum(axis=1, keepdims=True)
        return [w, fit.Y]

    @staticmethod
    def print_drf(fit):
        print(fit)

    @staticmethod
    def variableImportance(fit):
        return np.ones(fit.X.shape[1])


def importr(name):
    if name == 'base':
        return _Base()
    if name == 'drf':
        return _Drf()
    raise PackageNotInstalledError(name)
