def activate():
    pass
