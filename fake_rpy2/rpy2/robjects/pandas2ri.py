def activate():
    pass
