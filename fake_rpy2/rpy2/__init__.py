"""Deterministic stand-in for the rpy2 interface used by /repo/drf/code.py (C19).

No R is involved: ``importr('drf')`` returns a pure-numpy backend whose
``predict_drf`` yields kernel weights that are a deterministic function of the
fitted training data and of each new row.  Put the parent directory on
``sys.path`` *before* importing ``sempler.semi``; nothing in /repo is changed.
"""
