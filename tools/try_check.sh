#!/bin/sh
# usage: tools/try_check.sh <seeded id> <property>...   -- registered quick check(s) against a seeded change in a scratch worktree (VK_REPO)
ID="$1"; shift
WT=$(mktemp -d /tmp/tc_XXXXXX); rmdir $WT
git -C /repo worktree add --detach $WT HEAD -q
( cd $WT && git apply /verif/seeded/$ID/patch.diff ) || echo "patch failed"
for P in "$@"; do
  VK_REPO=$WT ./check $P --tier quick > /tmp/tc_$ID_$P.log 2>&1; echo "== $ID $P exit=$?"
  grep -E "^(VIOLATION|KNOWN|UNDECIDED|DEGRADED|CHECKER|OK|VIOLATED|OPEN)" /tmp/tc_$ID_$P.log | cut -c1-400 | head -8
done
git -C /repo worktree remove --force $WT
