#!/bin/sh
# run every quick check on the unchanged tree; prints exit code, time and the status line
cd "$(dirname "$0")/.."
for p in C01 C02 C03 C04 C05 C06 C07 C08 C09 C10 C11 C12 C13 C14 C15 C16 C17 C18 C19 C20; do
  s=$(date +%s); ./check $p --tier ${1:-quick} > /tmp/q_$p.log 2>&1; rc=$?; e=$(date +%s)
  echo "$p exit=$rc $((e-s))s $(grep -E '^(OK|VIOLATED|UNDECIDED|CHECKER)' /tmp/q_$p.log | tail -1 | cut -c1-150)"
  grep -E '^(VIOLATION|KNOWN|DEGRADED|OPEN|UNDECIDED|NOTE)' /tmp/q_$p.log | cut -c1-300 | head -5
done
