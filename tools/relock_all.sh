#!/bin/sh
# regenerate obligations.lock.json on the unchanged tree (developer action; the lock is committed, never written by a check)
cd "$(dirname "$0")/.."
for p in ${@:-C02 C03 C05 C06 C07 C08 C09 C10 C11 C12 C13 C14 C15 C16 C17 C18 C19 C20 C04 C01}; do
  ./check $p --relock 2>&1 | grep -E "relocked|NOT DISCHARGED|DEAD PATH|DEGRADED|Error|error" | cut -c1-260
done
