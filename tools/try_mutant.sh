#!/bin/sh
# usage: tools/try_mutant.sh <seeded dir or patch file> <property id>...   (applies to /repo, runs the quick checks, always reverts)
P="$1"; shift
[ -d "$P" ] && P="$P/patch.diff"; P="$(realpath "$P")"
cd /verif
git -C /repo apply "$P" || { echo "patch does not apply"; exit 9; }
trap 'git -C /repo checkout -- . ; git -C /repo status --short | head -3' EXIT
for id in "$@"; do
  ./check $id --tier quick > /tmp/mut_$id.log 2>&1; rc=$?
  echo "== $id exit=$rc"; grep -E "^(VIOLATION|KNOWN|UNDECIDED|DEGRADED|CHECKER|OK|VIOLATED)" /tmp/mut_$id.log | cut -c1-300
done
