#!/bin/sh
# re-check the Lean lemma file (lean 4.33 + Mathlib from /opt/veriftools/mathlib4); prints LEMMAS-OK on success
cd /opt/veriftools/mathlib4 && lake env lean /verif/lemmas/Lemmas.lean && echo LEMMAS-OK
