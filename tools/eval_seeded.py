"""Run the registered quick checks against every seeded change (each applied to its own scratch worktree, VK_REPO=<worktree>;
/repo itself is not touched).  Writes seeded/RESULTS.json and prints a table.  python3-vt tools/eval_seeded.py [ids...]"""
import json, os, subprocess, sys, tempfile, shutil, time
from concurrent.futures import ThreadPoolExecutor
HERE = os.path.dirname(os.path.dirname(os.path.abspath(__file__)))
SEEDED = os.path.join(HERE, 'seeded')
EXTRA = {'C03_1': ['C03', 'C02'], 'C03_2': ['C03', 'C01'], 'C04_2': ['C04', 'C02'], 'C14_1': ['C14'], 'C14_2': ['C14'], 'C20_2': ['C20', 'C14'],
         'C07_2': ['C07', 'C16'], 'C10_1': ['C10', 'C09'], 'C13_1': ['C13'], 'C13_2': ['C13', 'C04']}


def sh(cmd, cwd, timeout=3600, env=None):
    p = subprocess.run(cmd, shell=True, cwd=cwd, capture_output=True, text=True, timeout=timeout, env=env)
    return p.returncode, p.stdout + p.stderr


def one(mid):
    d = os.path.join(SEEDED, mid)
    meta = json.load(open(os.path.join(d, 'meta.json')))
    props = EXTRA.get(mid, [meta['property']])
    wt = tempfile.mkdtemp(prefix='ev_' + mid + '_', dir='/tmp'); os.rmdir(wt)
    res = {'id': mid, 'property': meta['property'], 'checks': {}}
    try:
        sh('git -C /repo worktree add --detach %s HEAD -q' % wt, '/')
        rc, o = sh('git apply %s' % os.path.join(d, 'patch.diff'), wt)
        if rc != 0:
            res['error'] = 'patch does not apply: ' + o[-200:]
            return res
        for pid in props:
            t = time.time()
            try:
                rc, o = sh('./check %s --tier quick' % pid, HERE, timeout=2400, env=dict(os.environ, VK_REPO=wt))
            except subprocess.TimeoutExpired:
                rc, o = 124, 'CHECKER-TIMEOUT the quick check did not finish within 40 minutes on this change'
            lines = [l for l in o.splitlines() if l.startswith(('VIOLATION', 'DEGRADED', 'UNDECIDED', 'CHECKER', 'OK ', 'VIOLATED', 'KNOWN'))]
            res['checks'][pid] = {'exit': rc, 'wall_s': round(time.time() - t, 1),
                                  'violations': [l[:900] for l in lines if l.startswith('VIOLATION')][:6],
                                  'degraded': [l[:160] for l in lines if l.startswith('DEGRADED')][:4],
                                  'status': [l for l in lines if l.startswith(('OK ', 'VIOLATED', 'UNDECIDED', 'CHECKER'))][-1:] }
    finally:
        sh('git -C /repo worktree remove --force %s' % wt, '/')
        shutil.rmtree(wt, ignore_errors=True)
    res['caught'] = any(c['exit'] == 1 for c in res['checks'].values())
    print(mid, 'CAUGHT' if res['caught'] else 'missed', {k: v['exit'] for k, v in res['checks'].items()}, flush=True)
    return res


if __name__ == '__main__':
    ids = sys.argv[1:] or sorted(x for x in os.listdir(SEEDED) if os.path.isdir(os.path.join(SEEDED, x)) and os.path.exists(os.path.join(SEEDED, x, 'patch.diff')))
    with ThreadPoolExecutor(int(os.environ.get('JOBS', '3'))) as ex:
        out = list(ex.map(one, ids))
    path = os.path.join(SEEDED, 'RESULTS.json')
    old = {}
    if os.path.exists(path):
        old = {r['id']: r for r in json.load(open(path))}
    for r in out:
        old[r['id']] = r
    json.dump([old[k] for k in sorted(old)], open(path, 'w'), indent=1)
    print('caught %d / %d' % (sum(1 for r in old.values() if r.get('caught')), len(old)))
