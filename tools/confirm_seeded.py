"""Confirm every seeded change independently: in a scratch worktree the demo passes on the clean tree, fails with the patch,
and the pinned test suite still passes with the patch.  Writes seeded/<id>/confirm.json.  Run: python3 tools/confirm_seeded.py [ids...]"""
import json, os, subprocess, sys, tempfile, shutil
from concurrent.futures import ThreadPoolExecutor
HERE = os.path.dirname(os.path.dirname(os.path.abspath(__file__)))
SEEDED = os.path.join(HERE, 'seeded')


def sh(cmd, cwd, timeout=1800, env=None):
    p = subprocess.run(cmd, shell=True, cwd=cwd, capture_output=True, text=True, timeout=timeout, env=env)
    return p.returncode, (p.stdout + p.stderr)[-1500:]


def one(mid):
    d = os.path.join(SEEDED, mid)
    wt = tempfile.mkdtemp(prefix='wt_' + mid + '_', dir='/tmp')
    os.rmdir(wt)
    out = {'id': mid}
    try:
        sh('git -C /repo worktree add --detach %s HEAD -q' % wt, '/')
        os.makedirs(os.path.join(wt, 'out', 'x'))
        shutil.copy(os.path.join(d, 'demo.py'), os.path.join(wt, 'out', 'x', 'demo.py'))
        env = dict(os.environ, PYTHONPATH=wt + os.pathsep + os.path.join(HERE, 'fake_rpy2'))
        demo = "/venv/bin/python out/x/demo.py"
        src = open(os.path.join(d, 'demo.py')).read().replace('/tmp/wt/fake_rpy2', os.path.join(HERE, 'fake_rpy2')).replace('/tmp/wt3/fake_rpy2', os.path.join(HERE, 'fake_rpy2'))
        import re
        src = re.sub(r'/tmp/wt4/C\d\d[ab]', wt, re.sub(r'/tmp/wt3/C\d\d', wt, src))      # round-3 demos name their author's scratch worktree
        open(os.path.join(wt, 'out', 'x', 'demo.py'), 'w').write(src)
        rc0, o0 = sh(demo, wt, env=env)
        out['demo_clean_rc'] = rc0
        rc, o = sh('git apply %s' % os.path.join(d, 'patch.diff'), wt)
        out['applies'] = rc == 0
        rc1, o1 = sh(demo, wt, env=env)
        out['demo_patched_rc'] = rc1
        out['demo_patched_tail'] = o1[-300:]
        rc2, o2 = sh('/venv/bin/python -m pytest -q -p no:cacheprovider --timeout=900 --continue-on-collection-errors 2>&1 | tail -3', wt, env=dict(os.environ))
        out['suite_tail'] = o2.strip().splitlines()[-1] if o2.strip() else ''
        out['suite_104_passed'] = '104 passed' in o2
        out['confirmed'] = bool(out['applies'] and rc0 == 0 and rc1 != 0 and out['suite_104_passed'])
    except Exception as e:
        out['error'] = repr(e)
        out['confirmed'] = False
    finally:
        sh('git -C /repo worktree remove --force %s' % wt, '/')
        shutil.rmtree(wt, ignore_errors=True)
    json.dump(out, open(os.path.join(d, 'confirm.json'), 'w'), indent=1)
    print(mid, out.get('confirmed'), out.get('demo_clean_rc'), out.get('demo_patched_rc'), out.get('suite_tail'))
    return out


if __name__ == '__main__':
    ids = sys.argv[1:] or sorted(x for x in os.listdir(SEEDED) if os.path.isdir(os.path.join(SEEDED, x)))
    with ThreadPoolExecutor(6) as ex:
        list(ex.map(one, ids))
