#!/bin/sh
# usage: tools/try_harness.sh <seeded id> <python module> [tier]   -- runs one bounded harness against a seeded change in a scratch worktree
ID="$1"; MOD="$2"; TIER="${3:-quick}"
WT=$(mktemp -d /tmp/th_XXXXXX); rmdir $WT
git -C /repo worktree add --detach $WT HEAD -q
( cd $WT && git apply /verif/seeded/$ID/patch.diff ) || echo "patch failed"
( cd $WT && PYTHONPATH=$WT:/verif/fake_rpy2:/verif /venv/bin/python -m $MOD $TIER 0 | tail -1 | python3 -c "
import json,sys
d=json.loads(sys.stdin.read())
print('evals',d.get('evaluations'),'wall',d.get('wall_s'),'witnesses',len(d.get('witnesses',[])))
for w in d.get('witnesses',[])[:3]: print('  ',w.get('function'),'|',w.get('clause'),'|',str(w.get('observed'))[:200])
" )
git -C /repo worktree remove --force $WT
