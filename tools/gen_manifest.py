"""Regenerate MANIFEST.json from vk/props.py (python3-vt tools/gen_manifest.py)."""
import json, os, sys
HERE = os.path.dirname(os.path.dirname(os.path.abspath(__file__)))
sys.path.insert(0, HERE)
from vk import props
allp = [json.loads(l) for l in open(os.path.join(HERE, 'properties.jsonl'))]
checks, na = [], []
for p in allp:
    pid = p['id']
    P = props.PROPS.get(pid)
    if P is None or P.get('disabled'):
        na.append({'property_id': pid, 'reason': props.NOT_YET.get(pid, 'check not built yet (work in progress; see DESIGN.md §7 build order)')})
        continue
    checks.append({
        'property_id': pid,
        'quick_cmd': './check %s --tier quick' % pid,
        'thorough_cmd': './check %s --tier thorough' % pid,
        'evidence_file': 'evidence/%s.json' % pid,
        'replay_cmd_template': './check %s --replay {path}' % pid,
        'engine': 'vk',
        'level_claimed': {'category': P['level'], 'text': P['claim'], 'design_ref': P['design']},
        'level_note': P['note'],
        'technique': P['technique'],
    })
m = {
    'version': 1,
    'setup_cmd': 'sh ./setup.sh',
    'hooks': {'guard': 'SEMPLER_VERIF', 'enable': 'no hooks: contracts are sidecar files under /verif/contracts, /repo is read as text (ast) and imported unmodified for replay',
              'baseline_off_cmd': 'cd /repo && /venv/bin/python -m pytest -ra -q -p no:cacheprovider --timeout=900 --continue-on-collection-errors',
              'source_commits': [], 'add_only': True},
    'engines': [{'name': 'vk', 'path': 'vk/', 'serves_properties': [c['property_id'] for c in checks],
                 'kind_free_text': 'contract-based deductive verification: AST->VC generator over the real source (sidecar contracts, loop invariants), z3/cvc5 back ends; same contract text evaluated natively as bounded stand-in and for counterexample replay'}],
    'checks': checks,
    'not_applicable': na,
    'notes': 'fix: commits in /repo repair genuine defects found (see known_findings.json, DESIGN.md §6). Exit codes: 0 held, 1 violation, 2 undecided, 3 checker error.',
}
json.dump(m, open(os.path.join(HERE, 'MANIFEST.json'), 'w'), indent=1)
print('checks:', [c['property_id'] for c in checks], 'not_applicable:', len(na))
