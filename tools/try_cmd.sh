#!/bin/sh
# usage: tools/try_cmd.sh <seeded id> <args to /venv/bin/python ...>   -- runs a native command against a seeded change in a scratch worktree
ID="$1"; shift
WT=$(mktemp -d /tmp/th_XXXXXX); rmdir $WT
git -C /repo worktree add --detach $WT HEAD -q
( cd $WT && git apply /verif/seeded/$ID/patch.diff ) || echo "patch failed"
( cd $WT && PYTHONPATH=$WT:/verif/fake_rpy2:/verif /venv/bin/python "$@" 2>&1 | tail -2 | cut -c1-900 )
git -C /repo worktree remove --force $WT
