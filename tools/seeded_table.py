"""Markdown table for DESIGN.md A.6 from seeded/RESULTS.json (+ meta.json): which check catches which seeded change, and by what.
python3 tools/seeded_table.py > /tmp/table.md"""
import json, os, re
HERE = os.path.dirname(os.path.dirname(os.path.abspath(__file__)))
S = os.path.join(HERE, 'seeded')
res = json.load(open(os.path.join(S, 'RESULTS.json')))


def how(v):
    """classify one VIOLATION line: a named deductive obligation of a real function (P), or the bounded stand-in (B: the contract
    evaluated concretely on the real function, or a vkb harness)"""
    m = re.search(r'obligation=(\S+)', v)
    ob = m.group(1) if m else ''
    fn = ob.split('/')[0].split('@')[0].split('.')[-1]
    if ob.endswith('/bounded'):
        return 'B:' + fn
    return 'P:' + fn + '/' + ob.split('/', 1)[1].split('#')[0] if '/' in ob else 'P:' + fn


rows = []
for r in sorted(res, key=lambda r: (re.sub(r'^(R\d_|REVERT_)', '', r['id']), r['id'])):
    d = os.path.join(S, r['id'])
    try:
        meta = json.load(open(os.path.join(d, 'meta.json')))
    except Exception:
        meta = {}
    what = (meta.get('summary') or meta.get('what') or '').replace('|', '/').replace('\n', ' ')
    what = what[:150] + ('…' if len(what) > 150 else '')
    caught = [pid for pid, c in r.get('checks', {}).items() if c['exit'] == 1]
    kinds = []
    for pid, c in r.get('checks', {}).items():
        for v in c.get('violations', []):
            k = how(v)
            if k not in kinds:
                kinds.append(k)
    deg = sorted({x.split('function=')[1].split(' ')[0].split('.')[-1] for c in r.get('checks', {}).values() for x in c.get('degraded', []) if 'function=' in x})
    rows.append('| %s | %s | %s | %s | %s |' % (r['id'], what, ', '.join(caught) or '**missed**', '; '.join(kinds[:4]) or '-', ', '.join(deg) or '-'))
print('| change | what it does (sub-agent\'s summary) | caught by (quick check, exit 1) | deciding obligation(s): P = deductive obligation of the real function, B = bounded (contract evaluated concretely / harness) | functions degraded to B by the change |')
print('|---|---|---|---|---|')
print('\n'.join(rows))
n = len(res); c = sum(1 for r in res if r.get('caught'))
print('\n%d of %d seeded changes caught; %d by at least one deductive obligation.' % (c, n, sum(1 for row in rows if '| P:' in row or '; P:' in row or ' P:' in row)))
