from z3 import *
import time
def check(name, hyps, goal, to=20000):
    s = Solver(); s.set('timeout', to); s.add(*hyps); s.add(Not(goal))
    t=time.time(); r=s.check(); print(name, r, '%.2fs'%(time.time()-t)); return r
p,K,i,mx,c,c2,sz=Ints('p K i mx c c2 sz')
# invariant: c = card(remaining) >= mx*(K-i); choice pre: sz <= c ; after: c2 = c - sz
hy=[p>=1,K>=0,mx>=0,0<=i,i<K,mx*K<=p,0<=sz,sz<=mx,c>=mx*(K-i)]
check('choice-pre', hy, sz<=c)
check('inv-preserved', hy+[c2==c-sz], c2>=mx*(K-(i+1)))
check('inv-init', [p>=1,K>=0,mx>=0,mx*K<=p], p>=mx*(K-0))
# replace=True branch: pool fixed size p, sz<=mx<=p
check('choice-pre-replace', [mx<=p, 0<=sz, sz<=mx], sz<=p)
