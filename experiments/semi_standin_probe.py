import sys; sys.path.insert(0,'/tmp/scratch/fake')
import numpy as np, sempler, sempler.semi as semi
rng=np.random.default_rng(0)
data=[rng.normal(size=(30,3)) for _ in range(2)]
G=np.array([[0,0,1],[0,0,1],[0,0,0]])
net=semi.DRFNet(G,data)
s=net.sample(5, random_state=7)
print(s[0])
idx0=[list(data[0][:,0]).index(v) for v in s[0][:,0]]; idx1=[list(data[0][:,1]).index(v) for v in s[0][:,1]]
print('source idx', idx0, idx1)
s2=net.sample(5, random_state=7); np.random.normal(size=3); s3=net.sample(5, random_state=7)
print('repro', all((a==b).all() for a,b in zip(s,s2)), all((a==b).all() for a,b in zip(s,s3)))
for bad in [[5], [5,5,5], 0, 2.5, [1,0]]:
    try: r=net.sample(bad); print(bad,'->',[x.shape for x in r])
    except Exception as e: print(bad,'EXC',type(e).__name__,e)
