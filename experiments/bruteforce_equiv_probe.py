import numpy as np, itertools, sys, io, contextlib
import sempler.utils as u
p = int(sys.argv[1]) if len(sys.argv)>1 else 4
pairs = [(i,j) for i in range(p) for j in range(i+1,p)]
def acyclic(A):
    A=(A!=0); n=len(A); R=A.copy()
    for k in range(n): R = R | (R[:,[k]] & R[[k],:])
    return not R.diagonal().any()
def skel(A): return tuple(map(tuple, ((A!=0)|(A!=0).T).astype(int)))
def vs(A):
    n=len(A); out=set()
    D=(A!=0)&~(A!=0).T
    for c in range(n):
        for i in range(n):
            for j in range(i+1,n):
                if D[i,c] and D[j,c] and not A[i,j] and not A[j,i]: out.add((i,c,j))
    return frozenset(out)
# all graphs: each pair in {none, ->, <-, -}
def all_pdags():
    for combo in itertools.product(range(4), repeat=len(pairs)):
        A=np.zeros((p,p),dtype=int)
        for (i,j),c in zip(pairs,combo):
            if c==1: A[i,j]=1
            elif c==2: A[j,i]=1
            elif c==3: A[i,j]=A[j,i]=1
        yield A
dags=[A for A in all_pdags() if not ((A!=0)&(A!=0).T).any() and acyclic(A)]
print('p',p,'dags',len(dags))
key=lambda A:(skel(A),vs(A))
classes={}
for D in dags: classes.setdefault(key(D),[]).append(D)
tob=lambda A: A.astype(int).tobytes()
bad=0
def exts(P):
    dirP=(P!=0)&~(P!=0).T
    return [D for D in dags if skel(D)==skel(P) and vs(D)==vs(P) and (D[dirP]!=0).all()]
# C07/C08 on DAGs
for D in dags:
    cls=classes[key(D)]
    m=u.mec(D)
    if sorted(map(tob,m))!=sorted(map(tob,cls)): bad+=1; print('mec mismatch',D)
    cp=u.dag_to_cpdag(D)
    un=np.zeros((p,p),dtype=int)
    for E in cls: un|=(E!=0).astype(int)
    if not (cp==un).all(): bad+=1; print('cpdag mismatch',D,cp,un)
print('mec/cpdag done bad=',bad)
# C09 on PDAGs with acyclic directed part
n=0
for P in all_pdags():
    dirP=((P!=0)&~(P!=0).T).astype(int)
    if not acyclic(dirP): continue
    n+=1
    E=exts(P)
    h=u.has_consistent_extension(P)
    if h!=(len(E)>0): bad+=1; print('has_ext mismatch',P,h,len(E))
    if E:
        G=u.pdag_to_dag(P)
        if tob(G) not in set(map(tob,E)): bad+=1; print('pdag_to_dag not ext',P,G)
        M=u.maximally_orient(P)
        exp=np.zeros((p,p),dtype=int)
        for X in E: exp|=(X!=0).astype(int)
        if not ((M!=0).astype(int)==exp).all(): bad+=1; print('maxorient mismatch\n',P,'\n',M,'\n',exp)
        ad=u.all_dags(P)
        if sorted(map(tob,ad))!=sorted(map(tob,E)): bad+=1; print('all_dags mismatch',P)
        cp=u.pdag_to_cpdag(P)
        cls=classes[key(E[0])]; un=np.zeros((p,p),dtype=int)
        for X in cls: un|=(X!=0).astype(int)
        if not (cp==un).all(): bad+=1; print('pdag_to_cpdag mismatch',P)
    else:
        ad=u.all_dags(P)
        if len(ad)!=0: bad+=1; print('all_dags nonempty for no-ext',P,ad)
        try: u.pdag_to_cpdag(P); bad+=1; print('pdag_to_cpdag no raise',P)
        except ValueError: pass
    if bad>20: break
print('pdags',n,'bad',bad)
# C10
for D in dags:
    cls=classes[key(D)]
    for r in range(p+1):
        for I in itertools.combinations(range(p),r):
            I=set(I)
            exp=[E for E in cls if all(((E[:,t]!=0)==(D[:,t]!=0)).all() for t in I)]
            got=u.imec(D,I)
            if sorted(map(tob,got))!=sorted(map(tob,exp)): bad+=1; print('imec mismatch',D,I)
            ic=u.dag_to_icpdag(D,I); un=np.zeros((p,p),dtype=int)
            for X in exp: un|=(X!=0).astype(int)
            if not ((ic!=0).astype(int)==un).all(): bad+=1; print('icpdag mismatch',D,I)
    if bad>20: break
print('imec done bad',bad)
