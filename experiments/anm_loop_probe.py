from z3 import *
import time
def check(name, hyps, goal, to=30000):
    s = Solver(); s.set('timeout', to); s.add(*hyps); s.add(Not(goal))
    t=time.time(); r=s.check(); print(name, r, '%.2fs'%(time.time()-t)); return r
p,n=Ints('p n'); node=lambda x: And(0<=x,x<p)
A=Function('A',IntSort(),IntSort(),RealSort())
X=Function('X',IntSort(),IntSort(),RealSort())     # current sample matrix (r,j)
Arr2=ArraySort(IntSort(),IntSort(),RealSort())
F=Function('F',IntSort(),Arr2,ArraySort(IntSort(),RealSort()))   # assignment j applied to masked parent matrix -> column
e=Function('e',IntSort(),IntSort(),RealSort())      # noise draw e(j,r)
done=Function('done',IntSort(),BoolSort()); pos=Function('pos',IntSort(),IntSort())
a,b,j,r,s_=Ints('a b j r s')
def masked(Xf, jj): return Lambda([a,b], If(And(node(b), A(b,jj)!=0), Xf(a,b), 0))
def Eq(Xf, jj): return ForAll([r], Implies(And(0<=r,r<n), Xf(r,jj) == Select(F(jj, masked(Xf,jj)), r) + e(jj,r)))
i=Int('i'); col=Function('col',IntSort(),RealSort())
X2=lambda rr,jj: If(jj==i, col(rr), X(rr,jj))
hyps=[p>=1,n>=0,node(i),Not(done(i)),
  ForAll([j],Implies(done(j),node(j))),
  # parents of done nodes are done; no self loops
  ForAll([j,s_],Implies(And(done(j),node(s_),A(s_,j)!=0),done(s_))),
  ForAll([j],Implies(node(j),A(j,j)==0)),
  ForAll([j],Implies(done(j),Eq(X,j))),
  # new column computed from current X
  ForAll([r],Implies(And(0<=r,r<n), col(r)==Select(F(i,masked(X,i)),r)+e(i,r)))]
jj=Int('jj')
check('preserve done j', hyps+[done(jj)], Eq(X2,jj))
check('new node i', hyps, Eq(X2,i))
# mutation: child sampled though parent not done (drop parent-closure hyp) -> should not prove
check('no-topological-order (expect not unsat)', [h for k,h in enumerate(hyps) if k!=5]+[done(jj)], Eq(X2,jj), to=8000)
