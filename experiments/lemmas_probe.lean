import Mathlib

theorem finite_min (p : ℕ) (U : Finset (Fin p)) (r : Fin p → ℤ) (h : U.Nonempty) :
    ∃ m ∈ U, ∀ w ∈ U, r m ≤ r w := by
  exact Finset.exists_min_image U r h

-- card lemmas
theorem card_gt_one_iff (U : Finset ℕ) : 1 < U.card ↔ ∃ a ∈ U, ∃ b ∈ U, a ≠ b := Finset.one_lt_card

-- monotone boolean sequence is a threshold
theorem threshold (m : ℕ) (b : ℕ → Bool) (h : ∀ j, j + 1 < m → b j = true → b (j+1) = true) :
    ∃ t ≤ m, ∀ j < m, (b j = true ↔ t ≤ j) := by
  induction m with
  | zero => exact ⟨0, le_refl _, by intro j hj; omega⟩
  | succ n ih =>
    obtain ⟨t, ht, hjt⟩ := ih (fun j hj hb => h j (by omega) hb)
    by_cases hb : b n = true
    · refine ⟨t, by omega, ?_⟩
      intro j hj
      by_cases hjn : j < n
      · exact hjt j hjn
      · have : j = n := by omega
        subst this; simp [hb]; omega
    · by_cases htn : t = n
      · refine ⟨n+1, le_refl _, ?_⟩
        intro j hj
        by_cases hjn : j < n
        · have := hjt j hjn; subst htn; constructor
          · intro h1; have := this.mp h1; omega
          · intro h1; omega
        · have : j = n := by omega
          subst this; simp [hb]
      · exfalso
        have hlt : t < n := by omega
        have h1 : b t = true := (hjt t hlt).mpr (le_refl _)
        -- propagate to n
        have : ∀ k, t + k ≤ n → b (t+k) = true := by
          intro k; induction k with
          | zero => intro _; simpa using h1
          | succ k ihk => intro hk; have := ihk (by omega); have := h (t+k) (by omega) this; simpa [Nat.add_assoc] using this
        have := this (n - t) (by omega)
        rw [show t + (n - t) = n by omega] at this
        exact hb this
