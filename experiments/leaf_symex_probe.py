"""Throwaway feasibility prototype: AST -> z3 symbolic executor with closure-based arrays."""
import ast, sys, time, itertools
from z3 import *

class SymArr:
    def __init__(self, shape, get, kind='real', oid=None):
        self.shape = tuple(shape); self.get = get; self.kind = kind; self.oid = oid
    @property
    def ndim(self): return len(self.shape)
class SymSet:
    def __init__(self, member): self.member = member
class SymLen:
    def __init__(self, s): self.s = s
_cnt = itertools.count()
def fresh(name, sort): return Const('%s!%d' % (name, next(_cnt)), sort)

def lift(v):
    if isinstance(v, bool): return BoolVal(v)
    if isinstance(v, int): return IntVal(v)
    if isinstance(v, float): return RealVal(v)
    return v
def elementwise(f, a, b):
    if isinstance(a, SymArr) and isinstance(b, SymArr):
        return SymArr(a.shape, lambda *ix: f(a.get(*ix), b.get(*ix)), 'bool'), [x == y for x, y in zip(a.shape, b.shape)]
    if isinstance(a, SymArr):
        return SymArr(a.shape, lambda *ix: f(a.get(*ix), lift(b)), 'bool'), []
    raise NotImplementedError

class Exec:
    def __init__(self, src, contracts):
        self.mod = ast.parse(src); self.contracts = contracts
        self.funcs = {n.name: n for n in self.mod.body if isinstance(n, ast.FunctionDef)}
        self.obligs = []   # (name, hyps, goal)
    # --- expression evaluation
    def ev(self, e, env, pc):
        m = getattr(self, 'ev_' + type(e).__name__, None)
        if m is None: raise NotImplementedError(ast.dump(e))
        return m(e, env, pc)
    def ev_Name(self, e, env, pc): return env[e.id] if e.id in env else ('builtin', e.id)
    def ev_Constant(self, e, env, pc): return e.value
    def ev_Attribute(self, e, env, pc):
        if isinstance(e.value, ast.Name) and e.value.id == 'np': return ('np', e.attr)
        v = self.ev(e.value, env, pc)
        if e.attr == 'T' and isinstance(v, SymArr) and v.ndim == 2:
            return SymArr((v.shape[1], v.shape[0]), lambda i, j: v.get(j, i), v.kind)
        if e.attr in ('astype', 'sum', 'all', 'any'): return ('method', v, e.attr)
        raise NotImplementedError(e.attr)
    def ev_Tuple(self, e, env, pc): return tuple(self.ev(x, env, pc) for x in e.elts)
    def ev_Slice(self, e, env, pc):
        assert e.lower is None and e.upper is None and e.step is None; return slice(None)
    def ev_Subscript(self, e, env, pc):
        v = self.ev(e.value, env, pc); ix = self.ev(e.slice, env, pc)
        if isinstance(v, tuple) and isinstance(ix, int): return v[ix]
        if isinstance(v, SymArr) and v.ndim == 2 and isinstance(ix, tuple):
            a, b = ix
            if isinstance(a, slice) and not isinstance(b, slice):
                self.oblige('index-in-bounds', pc, And(0 <= lift(b), lift(b) < v.shape[1]))
                return SymArr((v.shape[0],), lambda k: v.get(k, lift(b)), v.kind)
            if isinstance(b, slice) and not isinstance(a, slice):
                self.oblige('index-in-bounds', pc, And(0 <= lift(a), lift(a) < v.shape[0]))
                return SymArr((v.shape[1],), lambda k: v.get(lift(a), k), v.kind)
            return v.get(lift(a), lift(b))
        if isinstance(v, SymArr) and isinstance(ix, SymArr) and ix.kind == 'bool':
            return ('compressed', v, ix)
        raise NotImplementedError('subscript')
    def ev_Compare(self, e, env, pc):
        assert len(e.ops) == 1
        l = self.ev(e.left, env, pc); r = self.ev(e.comparators[0], env, pc); op = type(e.ops[0]).__name__
        fn = {'NotEq': lambda x, y: x != y, 'Eq': lambda x, y: x == y, 'Gt': lambda x, y: x > y, 'Lt': lambda x, y: x < y,
              'GtE': lambda x, y: x >= y, 'LtE': lambda x, y: x <= y}[op]
        if isinstance(l, SymArr):
            out, obl = elementwise(fn, l, r)
            for o in obl: self.oblige('shape-match', pc, o)
            return out
        if isinstance(l, SymSet) and isinstance(r, SymSet) and op == 'Eq':
            x = fresh('x', IntSort()); return ForAll([x], l.member(x) == r.member(x))
        return fn(lift(l), lift(r))
    def ev_BinOp(self, e, env, pc):
        l = self.ev(e.left, env, pc); r = self.ev(e.right, env, pc); op = type(e.op).__name__
        if isinstance(l, SymSet) and isinstance(r, SymSet):
            f = {'BitAnd': lambda a, b: And(a, b), 'BitOr': lambda a, b: Or(a, b), 'Sub': lambda a, b: And(a, Not(b))}[op]
            return SymSet(lambda x: f(l.member(x), r.member(x)))
        if isinstance(l, SymArr) and isinstance(r, SymArr) and op == 'Add':
            self.oblige('shape-match', pc, And(*[a == b for a, b in zip(l.shape, r.shape)]))
            return SymArr(l.shape, lambda *ix: l.get(*ix) + r.get(*ix), l.kind)
        raise NotImplementedError(op)
    def ev_Call(self, e, env, pc):
        f = self.ev(e.func, env, pc) if not (isinstance(e.func, ast.Name) and e.func.id not in env) else ('builtin', e.func.id)
        args = [self.ev(a, env, pc) for a in e.args]
        if f == ('np', 'logical_and') or f == ('np', 'logical_or'):
            g = And if f[1] == 'logical_and' else Or
            out, obl = elementwise(lambda x, y: g(x, y), args[0], args[1])
            for o in obl: self.oblige('shape-match', pc, o)
            return out
        if f == ('np', 'where'):
            m = args[0]; assert m.ndim == 1
            return (('where1', m),)
        if f == ('np', 'zeros_like'):
            a = args[0]; return SymArr(a.shape, lambda *ix: RealVal(0) if a.kind == 'real' else IntVal(0), a.kind, oid=next(_cnt))
        if f == ('builtin', 'set'):
            a = args[0]
            if isinstance(a, tuple) and a[0] == 'where1':
                m = a[1]; return SymSet(lambda x: And(0 <= x, x < m.shape[0], m.get(x)))
        if isinstance(f, tuple) and f[0] == 'method':
            _, v, name = f
            if name == 'astype':
                assert args[0]==('builtin','int')
                return SymArr(v.shape, (lambda *ix: If(v.get(*ix), 1, 0)), 'int')
        if isinstance(f, tuple) and f[0] == 'builtin' and f[1] in self.contracts:   # modular call
            c = self.contracts[f[1]]
            self.oblige('call-pre:' + f[1], pc, c['pre'](*args))
            return c['result'](*args)
        raise NotImplementedError(ast.dump(e.func))
    # --- statements
    def oblige(self, name, pc, goal): self.obligs.append((name, list(pc), goal))
    def run(self, fname, args, pre):
        fn = self.funcs[fname]; env = dict(zip([a.arg for a in fn.args.args], args)); pc = [pre]
        for st in fn.body:
            if isinstance(st, ast.Expr) and isinstance(st.value, ast.Constant): continue
            if isinstance(st, ast.Return): return self.ev(st.value, env, pc), pc
            if isinstance(st, ast.Assign):
                tgt = st.targets[0]; val = self.ev(st.value, env, pc)
                if isinstance(tgt, ast.Name): env[tgt.id] = val
                elif isinstance(tgt, ast.Subscript):
                    base = env[tgt.value.id]; ix = self.ev(tgt.slice, env, pc)
                    assert isinstance(ix, SymArr) and ix.kind == 'bool' and val[0] == 'compressed'
                    _, src, m2 = val
                    assert m2 is ix, 'general mask assignment not in prototype'
                    old = base
                    env[tgt.value.id] = SymArr(old.shape, (lambda o, s, m: lambda *k: If(m.get(*k), s.get(*k), o.get(*k)))(old, src, ix), old.kind, old.oid)
                continue
            raise NotImplementedError(type(st).__name__)

def discharge(obligs, timeout=10000):
    res = []
    for name, hyps, goal in obligs:
        s = Solver(); s.set('timeout', timeout); s.add(*hyps); s.add(Not(goal))
        t = time.time(); r = s.check(); res.append((name, str(r), time.time() - t, s.model() if r == sat else None))
    return res

if __name__ == '__main__':
    path = sys.argv[1] if len(sys.argv) > 1 else '/repo/sempler/utils.py'
    src = open(path).read()
    p = Int('p'); Af = Function('A', IntSort(), IntSort(), RealSort())
    A = SymArr((p, p), lambda i, j: Af(i, j), 'real', oid='A')
    i = Int('i')
    node = lambda x: And(0 <= x, x < p)
    dedge = lambda a, b: And(Af(a, b) != 0, Af(b, a) == 0)
    uedge = lambda a, b: And(Af(a, b) != 0, Af(b, a) != 0)
    anyedge = lambda a, b: Or(Af(a, b) != 0, Af(b, a) != 0)
    pre = And(p >= 0, node(i))
    specs = {'pa': lambda x: And(node(x), dedge(x, i)), 'ch': lambda x: And(node(x), dedge(i, x)),
             'neighbors': lambda x: And(node(x), uedge(i, x)), 'adj': lambda x: And(node(x), anyedge(i, x))}
    contracts = {k: dict(pre=lambda ii, AA: And(0 <= lift(ii), lift(ii) < AA.shape[0]),
                         result=(lambda kk: lambda ii, AA: SymSet(lambda x: And(0 <= x, x < AA.shape[0], {
                             'neighbors': And(AA.get(lift(ii), x) != 0, AA.get(x, lift(ii)) != 0),
                             'adj': Or(AA.get(lift(ii), x) != 0, AA.get(x, lift(ii)) != 0)}[kk])))(k)) for k in ['neighbors', 'adj']}
    total = 0
    for fname, spec in specs.items():
        ex = Exec(src, contracts); res, pc = ex.run(fname, [i, A], pre)
        x = Int('x'); ex.oblige('post', pc, ForAll([x], res.member(x) == spec(x)))
        for r in discharge(ex.obligs): print(fname, r[:3], (r[3] if r[3] is not None else '')); total += 1
    # na(y, x, A) via callee contracts
    y, xx = Ints('y xx'); ex = Exec(src, contracts); res, pc = ex.run('na', [y, xx, A], And(p >= 0, node(y), node(xx)))
    z = Int('z'); ex.oblige('post', pc, ForAll([z], res.member(z) == And(node(z), uedge(y, z), anyedge(xx, z))))
    for r in discharge(ex.obligs): print('na', r[:3]); total += 1
    # only_directed / only_undirected / skeleton
    for fname, spec in [('only_directed', lambda a, b: If(dedge(a, b), Af(a, b), 0)), ('only_undirected', lambda a, b: If(uedge(a, b), Af(a, b), 0))]:
        ex = Exec(src, contracts); res, pc = ex.run(fname, [A], p >= 0)
        a, b = Ints('a b'); ex.oblige('post', pc, ForAll([a, b], Implies(And(node(a), node(b)), res.get(a, b) == spec(a, b))))
        ex.oblige('fresh', pc, BoolVal(res.oid != A.oid))
        for r in discharge(ex.obligs): print(fname, r[:3]); total += 1
    ex = Exec(src, contracts); res, pc = ex.run('skeleton', [A], p >= 0)
    a, b = Ints('a b')
    dagw = ForAll([a, b], Implies(And(node(a), node(b), Af(a, b) != 0), Af(b, a) == 0))
    binary = ForAll([a, b], Implies(And(node(a), node(b)), Or(Af(a, b) == 0, Af(a, b) == 1)))
    ex.oblige('post', pc + [Or(dagw, binary)], ForAll([a, b], Implies(And(node(a), node(b)), res.get(a, b) == If(anyedge(a, b), 1, 0))))
    ex.oblige('post-without-graph-precondition(expect fail)', pc, ForAll([a, b], Implies(And(node(a), node(b)), res.get(a, b) == If(anyedge(a, b), 1, 0))))
    for r in discharge(ex.obligs): print('skeleton', r[:3], r[3] if r[3] is not None else ''); total += 1
    print('obligations', total)
