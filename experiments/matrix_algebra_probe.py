from z3 import *
import time
M = DeclareSort('Mat')
mul = Function('mul', M, M, M); tr = Function('tr', M, M); inv = Function('inv', M, M)
I = Const('I', M); sub = Function('sub', M, M, M)
nonsing = Function('nonsing', M, BoolSort())
a,b,c = Consts('a b c', M)
ax = [
 ForAll([a,b,c], mul(mul(a,b),c) == mul(a,mul(b,c))),
 ForAll([a], mul(I,a) == a), ForAll([a], mul(a,I) == a),
 ForAll([a,b], tr(mul(a,b)) == mul(tr(b),tr(a))),
 tr(I) == I,
 ForAll([a], Implies(nonsing(a), And(mul(inv(a),a)==I, mul(a,inv(a))==I))),
]
Wt = Const('Wt', M); mu = Const('mu', M); D = Const('D', M)
Mx = sub(I, Wt)
A = inv(Mx)
mean = mul(A, mu)
cov = mul(mul(A, D), tr(A))
def check(name, goal, extra=[]):
    s = Solver(); s.set('timeout', 20000); s.add(ax); s.add(nonsing(Mx)); s.add(extra); s.add(Not(goal))
    t=time.time(); print(name, s.check(), '%.2f'%(time.time()-t))
check('mean residual', mul(Mx, mean) == mu)
check('cov residual', mul(mul(Mx, cov), tr(Mx)) == D)
# mutation: cov = A D A (missing transpose)
cov2 = mul(mul(A, D), A)
check('cov residual mutated (expect not unsat)', mul(mul(Mx, cov2), tr(Mx)) == D)
