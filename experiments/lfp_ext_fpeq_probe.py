from z3 import *
import time
def check(name, hyps, goal, to=20000):
    s = Solver(); s.set('timeout', to); s.add(*hyps); s.add(Not(goal))
    t=time.time(); r=s.check(); print(name, r, '%.2fs'%(time.time()-t)); return r
# (1) descendants recursion: result = {i} U Union_{j in ch(i)} Reach(j,.)  ==> result == Reach(i,.)
p=Int('p'); i=Int('i'); u,v,w,j,k=Ints('u v w j k')
A=Function('A',IntSort(),IntSort(),RealSort())
node=lambda x: And(0<=x,x<p)
child=lambda a,b: And(node(a),node(b),A(a,b)!=0,A(b,a)==0)
R=Function('Reach',IntSort(),IntSort(),BoolSort())
ax=[ForAll([u],Implies(node(u),R(u,u))),
    ForAll([u,v,w],Implies(And(R(u,v),child(v,w)),R(u,w))),          # right extension
    ForAll([u,v,w],Implies(And(child(u,v),R(v,w)),R(u,w))),          # left extension
    ForAll([u,v],Implies(R(u,v),And(node(u),node(v))))]
res=lambda x: Or(x==i, Exists([j], And(child(i,j), R(j,x))))
# induction instance for source i and set S=res: (i in S and S closed under child) => Reach(i,.) subset S
ind=Implies(And(res(i), ForAll([v,w],Implies(And(res(v),child(v,w)),res(w)))), ForAll([v],Implies(R(i,v),res(v))))
check('desc post', ax+[node(i),ind], ForAll([v], res(v)==R(i,v)))
check('desc post without induction (expect unknown/sat)', ax+[node(i)], ForAll([v], res(v)==R(i,v)), to=5000)
# (2) extensionality for uninterpreted F on lambda arrays
Arr=ArraySort(IntSort(),IntSort(),RealSort())
F=Function('F',IntSort(),Arr,ArraySort(IntSort(),RealSort()))
X1=Function('X1',IntSort(),IntSort(),RealSort()); X2=Function('X2',IntSort(),IntSort(),RealSort())
a,b=Ints('a b'); c=Int('c')
par=Function('par',IntSort(),BoolSort())   # parent mask of node c
L1=Lambda([a,b], If(par(b), X1(a,b), 0)); L2=Lambda([a,b], If(par(b), X2(a,b), 0))
hyp=ForAll([a,b], Implies(par(b), X1(a,b)==X2(a,b)))
check('ext congruence', [hyp], F(c,L1)==F(c,L2))
# (3) FP-EQ for split_data fixed: s real sum, sf = s*(1+th), |th|<=g
s,th=Reals('s th'); g=RealVal('1e-12'); tol=RealVal('1e-9')
sf=s*(1+th)
absv=lambda x: If(x>=0,x,-x)
check('accept exact-1', [absv(th)<=g, s==1], absv(sf-1)<=tol)
check('reject off>1e-6', [absv(th)<=g, absv(s-1)>RealVal('1e-6'), absv(s)<=1000], absv(sf-1)>tol)
check('old code accept exact-1 (expect sat)', [absv(th)<=g, s==1], sf==1)
