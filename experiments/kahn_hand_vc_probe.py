# Feasibility: hand-encoded VCs for Kahn loop (fixed version), to see if z3 discharges them.
from z3 import *
import time
set_param('smt.random_seed', 1)
p = Int('p')
A0 = Function('A0', IntSort(), IntSort(), RealSort())
def node(x): return And(0 <= x, x < p)
# state: A (cur), inOrd: Int->Bool, pos: Int->Int (position in ordering), n = len(ordering), inS: Int->Bool (sinks membership)
def mkstate(s):
    return dict(A=Function('A'+s, IntSort(), IntSort(), RealSort()),
                inO=Function('inO'+s, IntSort(), BoolSort()),
                pos=Function('pos'+s, IntSort(), IntSort()),
                n=Int('n'+s),
                inS=Function('inS'+s, IntSort(), BoolSort()))
u,v,w = Ints('u v w')
def pre():
    # no 2-cycles/self loops in A0 (pre-check passed)
    return ForAll([u,v], Implies(And(node(u),node(v), A0(u,v)!=0), A0(v,u)==0))
def Inv(S):
    A,inO,pos,n,inS = S['A'],S['inO'],S['pos'],S['n'],S['inS']
    return And(
      n>=0,
      ForAll([u,v], Implies(And(node(u),node(v)), A(u,v) == If(inO(u), 0, A0(u,v)))),
      ForAll([u], Implies(inO(u), And(node(u), 0<=pos(u), pos(u)<n))),
      ForAll([u,v], Implies(And(inO(u),inO(v),u!=v), pos(u)!=pos(v))),
      ForAll([u], Implies(inS(u), And(node(u), Not(inO(u))))),
      # I3: sinks+ordering nodes have no cur parents; ordering nodes' parents precede
      ForAll([u,v], Implies(And(node(u),node(v),Or(inS(v),inO(v)), A0(u,v)!=0), inO(u))),
      ForAll([u,v], Implies(And(node(u),node(v),inO(v), A0(u,v)!=0), pos(u)<pos(v))),
      # I4: any node w/o cur parents is in sinks or ordering
      ForAll([v], Implies(And(node(v), ForAll([u], Implies(node(u), A(u,v)==0))), Or(inS(v), inO(v)))),
    )
def check(name, hyps, goal, to=30000):
    s = Solver(); s.set('timeout', to)
    for h in hyps: s.add(h)
    s.add(Not(goal))
    t=time.time(); r = s.check(); print(name, r, '%.2fs'%(time.time()-t))
    return r
S0 = mkstate('0'); S1 = mkstate('1')
# VC1: init: A=A0, ordering empty, sinks = {v: all col zero}  [fixed code: (A!=0).sum(axis=0)==0 with count axiom => all zero]
init = And(ForAll([u,v], S0['A'](u,v)==A0(u,v)), ForAll([u], Not(S0['inO'](u))), S0['n']==0,
           ForAll([v], S0['inS'](v) == And(node(v), ForAll([u], Implies(node(u), A0(u,v)==0)))))
check('init', [p>=0, pre(), init], Inv(S0))
# VC2: preservation of whole outer iteration, abstracting inner loop by its post:
# pop i from sinks; append i to ordering; after inner loop: row i zeroed; sinks' = sinks - {i} + {j in ch(i): no parents left}
i = Int('i')
A,inO,pos,n,inS = [S0[k] for k in ['A','inO','pos','n','inS']]
A1,inO1,pos1,n1,inS1 = [S1[k] for k in ['A','inO','pos','n','inS']]
step = And(inS(i),
   ForAll([u], inO1(u) == Or(inO(u), u==i)),
   ForAll([u], pos1(u) == If(u==i, n, pos(u))), n1==n+1,
   ForAll([u,v], Implies(And(node(u),node(v)), A1(u,v) == If(u==i, 0, A(u,v)))),
   ForAll([v], inS1(v) == Or(And(inS(v), v!=i), And(node(v), A(i,v)!=0, ForAll([u], Implies(node(u), A1(u,v)==0))))))
check('preserve', [p>=0, pre(), Inv(S0), step], Inv(S1))
# VC3: exit, no edges left => permutation & forward edges
exit_ = ForAll([u], Not(inS(u)))
allzero = ForAll([u,v], Implies(And(node(u),node(v)), A(u,v)==0))
post_ok = And(ForAll([u], Implies(node(u), inO(u))),
              ForAll([u,v], Implies(And(node(u),node(v),A0(u,v)!=0), pos(u)<pos(v))))
check('exit-return', [p>=0, pre(), Inv(S0), exit_, allzero], post_ok)
# VC4: exit with edge left => no ranking exists. ranking r; lemma finite-min instance on U = not inO
r = Function('r', IntSort(), IntSort())
ranking = ForAll([u,v], Implies(And(node(u),node(v),A0(u,v)!=0), r(u)<r(v)))
x,y,m = Ints('x y m')
someedge = And(node(x),node(y),A(x,y)!=0)
minlemma = Implies(Exists([u], And(node(u), Not(inO(u)))),
                   Exists([m], And(node(m), Not(inO(m)), ForAll([w], Implies(And(node(w),Not(inO(w))), r(m)<=r(w))))))
check('exit-raise', [p>=0, pre(), Inv(S0), exit_, someedge, ranking, minlemma], BoolVal(False))
# sanity: without minlemma should not prove
check('exit-raise-nolemma(expect not unsat)', [p>=0, pre(), Inv(S0), exit_, someedge, ranking], BoolVal(False), to=5000)
# vacuity: hyps satisfiable?
s=Solver(); s.set('timeout',10000); s.add(p==3, pre(), Inv(S0), exit_, someedge); print('vacuity(reach raise)', s.check())
s=Solver(); s.set('timeout',20000); s.add(p==3, pre(), Inv(S0), step); print('vacuity(step)', s.check())
s=Solver(); s.set('timeout',20000); s.add(p==3, pre(), init); print('vacuity(init)', s.check())
# mutation: buggy init (col sum ==0 modeled as uninterpreted colsum)
colsum = Function('colsum', IntSort(), RealSort())
init_bug = And(ForAll([u,v], S0['A'](u,v)==A0(u,v)), ForAll([u], Not(S0['inO'](u))), S0['n']==0,
           ForAll([v], S0['inS'](v) == And(node(v), colsum(v)==0)),
           # only axiom known: nonneg column => (sum==0 <=> all zero)
           ForAll([v], Implies(And(node(v), ForAll([u], Implies(node(u), A0(u,v)>=0))), (colsum(v)==0) == ForAll([u], Implies(node(u), A0(u,v)==0)))))
check('init-buggy (expect not unsat)', [p>=0, pre(), init_bug], Inv(S0), to=10000)
