import numpy as np, sempler, sempler.utils as u, sempler.generators as g, sempler.noise as noise
from fractions import Fraction as Fr
bad=0
def chk(c,*m):
    global bad
    if not c: bad+=1; print('FAIL',*m)
def perturb(k):
    np.random.seed(k+100); np.random.normal(size=k+1); g.dag_full(3); np.random.default_rng().uniform()
W=np.array([[0,1.5,-2,0],[0,0,0.5,1],[0,0,0,-1],[0,0,0,0]])
def calls(seed):
    m=sempler.LGANM(W,(0,1),(1,2),random_state=seed)
    A=(W!=0).astype(int)
    anm=sempler.ANM(W,[None, lambda x:2*x, lambda x: x[:,0]-x[:,1], lambda x: np.sin(x[:,0])+x[:,1]],[noise.normal(0,1),noise.uniform(),noise.laplace(0,2),noise.normal(1,.3)])
    data=[np.arange(20.).reshape(10,2), np.arange(14.).reshape(7,2)]
    return [m.means, m.variances, m.sample(5,random_state=seed), m.sample(5,random_state=seed,do_interventions={1:(0,1)}),
            sempler.NormalDistribution([0,1],[[1,.2],[.2,1]]).sample(4,random_state=seed),
            anm.sample(6,random_state=seed), anm.sample(6,random_state=seed,shift_interventions={2:noise.normal(0,1)}),
            g.dag_avg_deg(6,2,-1,1,random_state=seed), g.dag_full(5,.5,1,random_state=seed),
            np.array(g.intervention_targets(8,3,2,replace=False,random_state=seed)),
            np.concatenate([np.concatenate(f) for f in u.split_data(data,[.5,.5],random_state=seed)]),
            u.add_edges(A,1,random_state=seed), u.remove_edges(A,2,random_state=seed)]
for seed in [0,1,42]:
    a=calls(seed); perturb(seed); b=calls(seed)
    for i,(x,y) in enumerate(zip(a,b)): chk(np.array_equal(x,y),'repro',seed,i)
# non-degenerate
m=sempler.LGANM(W,(0,1),(1,2)); chk(not np.array_equal(m.sample(5),m.sample(5)),'degenerate lganm')
nd=sempler.NormalDistribution([0,1],[[1,.2],[.2,1]]); chk(not np.array_equal(nd.sample(3),nd.sample(3)),'degenerate nd')
# C05/C06 vs exact oracle (float numpy on rational inputs)
rng=np.random.default_rng(3)
for it in range(200):
    p=int(rng.integers(2,6)); B=rng.integers(-3,4,size=(p,p)).astype(float); C=B@B.T+np.eye(p); mu=rng.integers(-3,4,size=p).astype(float)
    d=sempler.NormalDistribution(mu,C)
    perm=rng.permutation(p); ky=int(rng.integers(1,p)); Y=list(perm[:ky]); X=list(perm[ky:ky+int(rng.integers(0,p-ky+1))]); x=rng.integers(-2,3,size=len(X)).astype(float)
    c=d.conditional(Y,X,x)
    # oracle via precision matrix on (Y,X) marginal
    idx=Y+X; S=C[np.ix_(idx,idx)]; K=np.linalg.inv(S); Kyy=K[:ky,:ky]; Kyx=K[:ky,ky:]
    cov_o=np.linalg.inv(Kyy); mean_o=mu[Y]-cov_o@Kyx@(x-mu[X]) if len(X) else mu[Y]
    chk(np.allclose(c.covariance,cov_o) and np.allclose(c.mean,mean_o),'cond',Y,X)
    y=int(perm[0]); S_=list(perm[1:1+int(rng.integers(0,p))])
    b,ic=d.regress(y,S_); res_cov=C[y,:]-b@C
    chk(np.allclose(res_cov[S_],0) and np.allclose(np.delete(b,S_) if len(S_) else b,0),'regress normal eq')
    chk(np.isclose(d.mse(y,S_), C[y,y]-2*b@C[:,y]+b@C@b),'mse')
    chk(d.mse(y,S_)>=-1e-9,'mse neg')
print('bad',bad)
