"""Throwaway: symbolic execution of the REAL topological_ordering AST with loop invariants."""
import ast, sys, time, itertools
from z3 import *
_c = itertools.count()
def fr(name, *sorts): 
    n = '%s!%d' % (name, next(_c))
    return Function(n, *sorts) if len(sorts) > 1 else Const(n, sorts[0])
class Arr:
    def __init__(s, shape, get, kind='real', oid=None): s.shape, s.get, s.kind, s.oid = tuple(shape), get, kind, oid
class SSet:
    def __init__(s, member): s.member = member
class SList:
    def __init__(s, n, get): s.n, s.get = n, get
class Len:
    def __init__(s, of): s.of = of
class Raise(Exception):
    def __init__(s, exc, pc): s.exc, s.pc = exc, pc
class Ret(Exception):
    def __init__(s, val, st): s.val, s.st = val, st
def L(v): return IntVal(v) if isinstance(v, int) and not isinstance(v, bool) else v
p = Int('p')
node = lambda x: And(0 <= x, x < p)

class State:
    def __init__(s, env, pc): s.env, s.pc = dict(env), list(pc)
    def fork(s): return State(s.env, s.pc)

class Ex:
    def __init__(s, src, inv_outer, inv_inner):
        s.fn = {n.name: n for n in ast.parse(src).body if isinstance(n, ast.FunctionDef)}['topological_ordering']
        s.obl = []; s.inv_outer, s.inv_inner = inv_outer, inv_inner; s.outcomes = []
    def oblige(s, name, st, goal): s.obl.append((name, list(st.pc), goal))
    # ---- expressions
    def ev(s, e, st):
        return getattr(s, 'e_' + type(e).__name__)(e, st)
    def e_Name(s, e, st): return st.env[e.id] if e.id in st.env else ('bi', e.id)
    def e_Constant(s, e, st): return e.value
    def e_List(s, e, st):
        assert not e.elts; return SList(IntVal(0), lambda k: IntVal(-1))
    def e_Tuple(s, e, st): return tuple(s.ev(x, st) for x in e.elts)
    def e_Attribute(s, e, st):
        if isinstance(e.value, ast.Name) and e.value.id == 'np': return ('np', e.attr)
        return ('meth', s.ev(e.value, st), e.attr)
    def e_Subscript(s, e, st):
        v = s.ev(e.value, st); ix = s.ev(e.slice, st)
        if isinstance(v, tuple) and v and v[0] == 'where1': return ('whereidx', v[1])
        raise NotImplementedError
    def e_Compare(s, e, st):
        l = s.ev(e.left, st); r = s.ev(e.comparators[0], st); op = type(e.ops[0]).__name__
        f = {'Eq': lambda a, b: a == b, 'NotEq': lambda a, b: a != b, 'Gt': lambda a, b: a > b}[op]
        if isinstance(l, Len):
            x = fr('x', IntSort()); o = l.of
            if isinstance(o, SList): return f(o.n, L(r))
            ex = Exists([x], o.member(x))
            assert r == 0
            return {'Gt': ex, 'Eq': Not(ex), 'NotEq': ex}[op]
        if isinstance(l, Arr): return Arr(l.shape, lambda *ix: f(l.get(*ix), L(r)), 'bool')
        return f(L(l), L(r))
    def e_Call(s, e, st):
        f = s.ev(e.func, st); args = [s.ev(a, st) for a in e.args]; kw = {k.arg: s.ev(k.value, st) for k in e.keywords}
        if f == ('bi', 'only_undirected'):
            A = args[0]; return Arr(A.shape, lambda i, j: If(And(A.get(i, j) != 0, A.get(j, i) != 0), A.get(i, j), 0), A.kind, oid=next(_c))
        if f == ('bi', 'ch'):
            i, A = args; i = L(i)
            s.oblige('call-pre:ch', st, node(i))
            return SSet(lambda x: And(node(x), A.get(i, x) != 0, A.get(x, i) == 0))
        if f == ('bi', 'pa'):
            i, A = args; i = L(i)
            s.oblige('call-pre:pa', st, node(i))
            return SSet(lambda x: And(node(x), A.get(x, i) != 0, A.get(i, x) == 0))
        if f == ('bi', 'len'): return Len(args[0])
        if f == ('bi', 'ValueError'): return 'ValueError'
        if f == ('np', 'where'): return ('where1', args[0])
        if f == ('bi', 'list'):
            a = args[0]; assert a[0] == 'whereidx'; m = a[1]
            n = fr('n', IntSort()); g = fr('g', IntSort(), IntSort()); k, k2, x = Ints('k k2 x')
            st.pc += [n >= 0, ForAll([k], Implies(And(0 <= k, k < n), And(node(g(k)), m.get(g(k))))),
                      ForAll([k, k2], Implies(And(0 <= k, k < k2, k2 < n), g(k) < g(k2))),
                      ForAll([x], Implies(And(node(x), m.get(x)), Exists([k], And(0 <= k, k < n, g(k) == x))))]
            return SList(n, lambda kk: g(kk))
        if f[0] == 'meth':
            _, v, name = f
            if name == 'copy': return Arr(v.shape, v.get, v.kind, oid=next(_c))
            if name == 'any':
                i, j = Ints('i j'); return Exists([i, j], And(node(i), node(j), v.get(i, j)))
            if name == 'sum' and v.kind == 'bool' and kw.get('axis') == 0:   # count per column
                cnt = fr('cnt', IntSort(), IntSort()); i, j = Ints('i j')
                st.pc += [ForAll([j], Implies(node(j), And(cnt(j) >= 0, (cnt(j) == 0) == Not(Exists([i], And(node(i), v.get(i, j)))))))]
                return Arr((v.shape[1],), lambda jj: cnt(jj), 'int')
            if name == 'sum' and v.kind == 'real' and kw.get('axis') == 0:   # uninterpreted real column sum
                cs = fr('csum', IntSort(), RealSort()); i, j = Ints('i j')
                st.pc += [ForAll([j], Implies(And(node(j), ForAll([i], Implies(node(i), v.get(i, j) >= 0))),
                                              (cs(j) == 0) == ForAll([i], Implies(node(i), v.get(i, j) == 0))))]
                return Arr((v.shape[1],), lambda jj: cs(jj), 'real')
            if name == 'sum' and v.kind == 'real' and not kw:                # uninterpreted total sum
                ts = fr('tsum', RealSort()); i, j = Ints('i j')
                nonneg = ForAll([i, j], Implies(And(node(i), node(j)), v.get(i, j) >= 0))
                allz = ForAll([i, j], Implies(And(node(i), node(j)), v.get(i, j) == 0))
                st.pc += [Implies(nonneg, And(ts >= 0, (ts == 0) == allz))]
                return ts
            if name == 'pop':
                s.oblige('call-pre:list.pop', st, v.n > 0)
                val = v.get(v.n - 1); nm = [k for k, o in st.env.items() if o is v][0]
                st.env[nm] = SList(v.n - 1, v.get); return val
            if name == 'append':
                x = L(args[0]); nm = [k for k, o in st.env.items() if o is v][0]; old = v
                st.env[nm] = SList(old.n + 1, (lambda o, xx: lambda k: If(k == o.n, xx, o.get(k)))(old, x)); return None
        raise NotImplementedError(ast.dump(e)[:200])
    # ---- statements
    def block(s, body, st):
        for stt in body: s.stmt(stt, st)
    def stmt(s, t, st):
        if isinstance(t, ast.Expr):
            if isinstance(t.value, ast.Constant): return
            s.ev(t.value, st); return
        if isinstance(t, ast.Assign):
            tg = t.targets[0]; v = s.ev(t.value, st)
            if isinstance(tg, ast.Name): st.env[tg.id] = v; return
            if isinstance(tg, ast.Subscript):
                A = st.env[tg.value.id]; (i, j) = s.ev(tg.slice, st); i, j = L(i), L(j)
                s.oblige('index', st, And(node(i), node(j)))
                st.env[tg.value.id] = Arr(A.shape, (lambda o, ii, jj, vv: lambda a, b: If(And(a == ii, b == jj), vv, o.get(a, b)))(A, i, j, RealVal(v)), A.kind, A.oid); return
        if isinstance(t, ast.If):
            c = s.ev(t.test, st)
            s1 = st.fork(); s1.pc.append(c); s2 = st.fork(); s2.pc.append(Not(c))
            # only support: both branches end function OR no else with fallthrough joined by path split
            s.cont_after_if(t, s1, s2, st); return
        if isinstance(t, ast.Raise): raise Raise('ValueError', st)
        if isinstance(t, ast.Return): raise Ret(s.ev(t.value, st), st)
        if isinstance(t, ast.While): s.while_(t, st); return
        if isinstance(t, ast.For): s.for_(t, st); return
        raise NotImplementedError(type(t).__name__)
    def cont_after_if(s, t, s1, s2, st):
        # execute then-branch; if it falls through, we need path splitting of the continuation: handled by caller via exception 'Split'
        raise Split(t, s1, s2)
    def run_body(s, body, st):
        """executes statements; on If, splits into two continuations (DFS)."""
        for k, t in enumerate(body):
            try: s.stmt(t, st)
            except Split as sp:
                rest = body[k + 1:]
                for br, stx in ((sp.t.body, sp.s1), (sp.t.orelse, sp.s2)):
                    s.run_body(list(br) + list(rest), stx)
                return 'split'
        s.fallthrough(st); return 'done'
    def while_(s, t, st):
        # emit init, then havoc + assume inv; run body; emit preserved; continue after loop with inv & not cond
        s.oblige('inv-init:L1', st, s.inv_outer(st.env, st.env['_A0']))
        hv = st.fork()
        Af = fr('Aw', IntSort(), IntSort(), RealSort()); A = hv.env['A']
        hv.env['A'] = Arr(A.shape, lambda i, j: Af(i, j), A.kind, A.oid)
        for nm in ('sinks', 'ordering'):
            n = fr(nm + '_n', IntSort()); g = fr(nm + '_g', IntSort(), IntSort()); hv.env[nm] = SList(n, (lambda gg: lambda k: gg(k))(g))
        hv.pc.append(s.inv_outer(hv.env, hv.env['_A0']))
        c = s.ev(t.test, hv)
        b = hv.fork(); b.pc.append(c)
        s.mode = ('outer-body', None)
        saved = s.fallthrough; 
        def ft(stx): s.oblige('inv-preserved:L1', stx, s.inv_outer(stx.env, stx.env['_A0']))
        s.fallthrough = ft; s.run_body(t.body, b); s.fallthrough = saved
        st.env, st.pc = hv.env, hv.pc + [Not(c)]
    def for_(s, t, st):
        S = s.ev(t.iter, st)          # set being iterated (computed once)
        pre = st.fork()
        s.oblige('inv-init:L2', st, s.inv_inner(st.env, pre.env, S, SSet(lambda x: BoolVal(False))))
        hv = st.fork()
        Af = fr('Af', IntSort(), IntSort(), RealSort()); A = hv.env['A']
        hv.env['A'] = Arr(A.shape, lambda i, j: Af(i, j), A.kind, A.oid)
        n = fr('sinks_n', IntSort()); g = fr('sinks_g', IntSort(), IntSort()); hv.env['sinks'] = SList(n, lambda k: g(k))
        D = fr('D', IntSort(), BoolSort()); Dset = SSet(lambda x: D(x))
        hv.pc.append(s.inv_inner(hv.env, pre.env, S, Dset))
        # iteration with arbitrary j in S \ D
        b = hv.fork(); j = fr('j', IntSort()); b.env[t.target.id] = j; b.pc += [S.member(j), Not(D(j))]
        saved = s.fallthrough
        def ft(stx): s.oblige('inv-preserved:L2', stx, s.inv_inner(stx.env, pre.env, S, SSet(lambda x: Or(D(x), x == j))))
        s.fallthrough = ft; s.run_body(t.body, b); s.fallthrough = saved
        # after loop: D == S
        x = Int('x'); st.env, st.pc = hv.env, hv.pc + [ForAll([x], D(x) == S.member(x))]
class Split(Exception):
    def __init__(s, t, s1, s2): s.t, s.s1, s.s2 = t, s1, s2

def inlist(Ls, x):
    k = fr('k', IntSort()); return Exists([k], And(0 <= k, k < Ls.n, Ls.get(k) == x))
def distinct(Ls):
    k, k2 = Ints('dk dk2'); return ForAll([k, k2], Implies(And(0 <= k, k < k2, k2 < Ls.n), Ls.get(k) != Ls.get(k2)))
def core_inv(env, A0, extra_zero=None):
    A, sinks, ordering = env['A'], env['sinks'], env['ordering']
    u, v, k, k2 = Ints('u v k k2')
    inO = lambda x: inlist(ordering, x); inS = lambda x: inlist(sinks, x)
    zero = (lambda a, b: inO(a)) if extra_zero is None else (lambda a, b: Or(inO(a), extra_zero(a, b)))
    return [sinks.n >= 0, ordering.n >= 0,
        ForAll([k], Implies(And(0 <= k, k < sinks.n), node(sinks.get(k)))), ForAll([k], Implies(And(0 <= k, k < ordering.n), node(ordering.get(k)))),
        ForAll([u, v], Implies(And(node(u), node(v)), A.get(u, v) == If(zero(u, v), 0, A0.get(u, v)))),
        distinct(sinks), distinct(ordering),
        ForAll([k, k2], Implies(And(0 <= k, k < sinks.n, 0 <= k2, k2 < ordering.n), sinks.get(k) != ordering.get(k2))),
        # I3
        ForAll([u, k], Implies(And(node(u), 0 <= k, k < sinks.n, A0.get(u, sinks.get(k)) != 0), inO(u))),
        ForAll([u, k], Implies(And(node(u), 0 <= k, k < ordering.n, A0.get(u, ordering.get(k)) != 0),
                               Exists([k2], And(0 <= k2, k2 < k, ordering.get(k2) == u))))]
def no2cycle(A0):
    u, v = Ints('u v'); return ForAll([u, v], Implies(And(node(u), node(v), A0.get(u, v) != 0), A0.get(v, u) == 0))
def inv_outer(env, A0):
    A, sinks, ordering = env['A'], env['sinks'], env['ordering']; u, v = Ints('u v')
    I4 = ForAll([v], Implies(And(node(v), ForAll([u], Implies(node(u), A.get(u, v) == 0))), Or(inlist(sinks, v), inlist(ordering, v))))
    return And(*core_inv(env, A0), I4, no2cycle(A0))
def inv_inner(env, pre, S, D):
    # during "for j in ch(i,A)": i is last of ordering; row i zero on D; I4 weakened: nodes w/o parents are in sinks/ordering OR are unprocessed children of i
    A0 = env['_A0']; i = L(env['i']); u, v = Ints('u v')
    A, sinks, ordering = env['A'], env['sinks'], env['ordering']
    base = core_inv(env, A0)  # zero(u,v)= inO(u) -- but row i only zero on D: need special-case
    # replace the A-shape clause: A[u,v] = 0 if (inO(u) and u != i) or (u==i and D(v)) else A0
    base[4] = ForAll([u, v], Implies(And(node(u), node(v)), A.get(u, v) == If(Or(And(inlist(ordering, u), u != i), And(u == i, D.member(v))), 0, A0.get(u, v))))
    # I3 for sinks must not require i's unprocessed... fine as is (parents of sinks are in O)
    I4 = ForAll([v], Implies(And(node(v), ForAll([u], Implies(node(u), A.get(u, v) == 0))), Or(inlist(sinks, v), inlist(ordering, v))))
    k = Int('k')
    return And(*base, I4, no2cycle(A0), node(i), ordering.n > 0, ordering.get(ordering.n - 1) == i,
               ForAll([v], Implies(D.member(v), S.member(v))),
               ForAll([k], Implies(And(0 <= k, k < sinks.n, A0.get(i, sinks.get(k)) != 0), D.member(sinks.get(k)))),
               ForAll([v], S.member(v) == And(node(v), A0.get(i, v) != 0)),     # S = children of i in A0 (no 2-cycles)
               ordering.n == pre['ordering'].n, ForAll([k], Implies(And(0 <= k, k < ordering.n), ordering.get(k) == pre['ordering'].get(k))))

def discharge(obl, to=30000):
    out = []
    for name, hyps, goal in obl:
        sv = Solver(); sv.set('timeout', to); sv.add(*hyps); sv.add(Not(goal))
        t = time.time(); r = sv.check(); out.append((name, str(r), round(time.time() - t, 2)))
    return out

if __name__ == '__main__':
    src = open(sys.argv[1]).read()
    A0f = Function('A0', IntSort(), IntSort(), RealSort()); A0 = Arr((p, p), lambda i, j: A0f(i, j), 'real', 'A0')
    ex = Ex(src, inv_outer, inv_inner)
    st = State({'A': A0, '_A0': A0}, [p >= 0])
    finals = []
    def ft(stx): pass
    ex.fallthrough = ft
    def run(body, st):
        for k, t in enumerate(body):
            try: ex.stmt(t, st)
            except Split as sp:
                for br, stx in ((sp.t.body, sp.s1), (sp.t.orelse, sp.s2)): run(list(br) + list(body[k + 1:]), stx)
                return
            except Raise as r: finals.append(('raise', r.pc)); return
            except Ret as r: finals.append(('return', r.st, r.val)); return
    run(ex.fn.body, st)
    # postconditions
    u, v, k, k2 = Ints('u v k k2'); r = Function('r', IntSort(), IntSort())
    for f in finals:
        if f[0] == 'return':
            stx, val = f[1], f[2]
            post = And(ForAll([u], Implies(node(u), inlist(val, u))), distinct(val),
                       ForAll([k, k2], Implies(And(0 <= k, k < val.n, 0 <= k2, k2 < val.n, A0f(val.get(k), val.get(k2)) != 0), k < k2)))
            ex.obl.append(('post:return', list(stx.pc), post))
        else:
            stx = f[1]
            ranking = ForAll([u, v], Implies(And(node(u), node(v), A0f(u, v) != 0), r(u) < r(v)))
            hy = list(stx.pc) + [ranking]
            if 'ordering' in stx.env:   # L-MIN instance on unprocessed set
                O = stx.env['ordering']; m, w = Ints('m w'); unp = lambda x: And(node(x), Not(inlist(O, x)))
                hy.append(Implies(Exists([u], unp(u)), Exists([m], And(unp(m), ForAll([w], Implies(unp(w), r(m) <= r(w)))))))
            ex.obl.append(('raises=>not-acyclic', hy, BoolVal(False)))
    res = discharge(ex.obl)
    for x in res: print(x)
    print('total', len(res), 'undischarged', sum(1 for x in res if x[1] != 'unsat'))
