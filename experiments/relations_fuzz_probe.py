import numpy as np, itertools, sempler, sempler.utils as u
rng=np.random.default_rng(0)
def rand_pdag(p, weighted):
    # random DAG via random order; optionally undirect some edges (binary)
    perm=rng.permutation(p); A=np.zeros((p,p))
    for a in range(p):
        for b in range(a+1,p):
            if rng.random()<0.5:
                i,j=perm[a],perm[b]
                if weighted: A[i,j]=rng.choice([-2.5,-1,0.5,1,3])
                else:
                    A[i,j]=1
                    if rng.random()<0.35: A[j,i]=1
    return A if weighted else A.astype(int)
bad=0
def chk(c,msg,*a):
    global bad
    if not c: bad+=1; print('FAIL',msg,*a)
for it in range(400):
    p=int(rng.integers(1,7)); w=bool(it%2); A=rand_pdag(p,w); A0=A.copy()
    nz=A!=0; D=nz&~nz.T; U=nz&nz.T
    for i in range(p):
        chk(u.pa(i,A)=={j for j in range(p) if D[j,i]},'pa'); chk(u.ch(i,A)=={j for j in range(p) if D[i,j]},'ch')
        chk(u.neighbors(i,A)=={j for j in range(p) if U[i,j]},'nb'); chk(u.adj(i,A)=={j for j in range(p) if nz[i,j] or nz[j,i]},'adj')
    # reachability
    R=np.eye(p,dtype=bool)|D
    for k in range(p): R=R|(R[:,[k]]&R[[k],:])
    for i in range(p):
        chk(u.descendants(i,A)=={j for j in range(p) if R[i,j]},'desc'); chk(u.ancestors(i,A)=={j for j in range(p) if R[j,i] and j!=i},'anc')
        chk(u.desc(i,A)==u.descendants(i,A),'desc2'); chk(u.an(i,A)==u.ancestors(i,A),'an2')
    if w:
        tc=u.transitive_closure(A); chk(((tc!=0)==(R&~np.eye(p,dtype=bool))).all(),'tc')
    # semi-directed paths
    S=D|U
    def paths(a,b,vis):
        if a==b: return [[a]]
        out=[]
        for c in range(p):
            if S[a,c] and c not in vis: out+=[[a]+q for q in paths(c,b,vis|{c})]
        return out
    for a in range(p):
        for b in range(p):
            got=u.semi_directed_paths(a,b,A); exp=paths(a,b,{a})
            chk(sorted(got)==sorted(exp),'sdp',A,a,b,got,exp)
    # chain component
    C=np.eye(p,dtype=bool)|U
    for k in range(p): C=C|(C[:,[k]]&C[[k],:])
    for i in range(p): chk(u.chain_component(i,A)=={j for j in range(p) if C[i,j]},'cc')
    # C16
    chk((u.only_directed(A)==np.where(D,A,0)).all(),'od'); chk((u.only_undirected(A)==np.where(U,A,0)).all(),'ou')
    chk((u.skeleton(A)==(nz|nz.T).astype(int)).all(),'skel')
    chk(sorted(u.directed_edges(A))==sorted((i,j) for i in range(p) for j in range(p) if D[i,j]),'de')
    chk(sorted(u.undirected_edges(A))==sorted((i,j) for i in range(p) for j in range(p) if U[i,j] and i>j),'ue')
    ew=u.edge_weights(A); chk(ew=={(i,j):A[i,j] for i in range(p) for j in range(p) if nz[i,j]},'ew')
    vsx={(i,c,j) for c in range(p) for i in range(p) for j in range(i+1,p) if D[i,c] and D[j,c] and not nz[i,j] and not nz[j,i]}
    chk(u.vstructures(A)==vsx,'vs',A,u.vstructures(A),vsx)
    mg=(nz|nz.T).astype(int)
    for c in range(p):
        for i in range(p):
            for j in range(p):
                if i!=j and D[i,c] and D[j,c]: mg[i,j]=1
    chk((u.moral_graph(A)==mg).all(),'moral')
    chk((u.degrees(A)==(nz|nz.T).sum(axis=0)).all(),'deg')
    for r in range(p+1):
        for Sx in itertools.combinations(range(p),r):
            Sx=set(Sx); ex=np.zeros_like(A)
            for i in Sx:
                for j in Sx: ex[i,j]=A[i,j]
            chk((u.induced_subgraph(Sx,A)==ex).all(),'ind')
            chk(bool(u.is_clique(Sx,A))==all((nz[i,j] or nz[j,i]) for i in Sx for j in Sx if i!=j),'clique',A,Sx)
    chk(bool(u.is_complete(A))==all((nz[i,j] or nz[j,i]) for i in range(p) for j in range(p) if i!=j),'complete')
    chk((A==A0).all(),'mutated input')
print('bad',bad)
