#!/bin/sh
# Offline setup: nothing to build. The VC generator runs under python3-vt (z3-solver, cvc5, jsonschema from the tooling venv);
# native replay / bounded stand-ins run under /venv/bin/python (numpy + the editable sempler of /repo).
set -e
python3-vt -c "import z3, json; print('z3', z3.get_version_string())"
/venv/bin/python -c "import numpy; print('numpy', numpy.__version__)"
test -x /usr/bin/cvc5 && echo "cvc5 present"
chmod +x "$(dirname "$0")/check"
