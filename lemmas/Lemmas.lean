/-
Lemmas used as *instances* by the VC generator (vk/).  The SMT-side statements are hand transcriptions of these
(the transcription is trusted; DESIGN.md A.4).  Checked by `./tools/check_lemmas.sh` (lean 4 + Mathlib, ~2 min).
-/
import Mathlib

open Finset

namespace Lemmas

/-- L-MIN: a non-empty finite set has a key-minimal element (hint `least_exists`, Kahn's exit-raise obligation). -/
theorem finite_min (U : Finset ℕ) (r : ℕ → ℤ) (h : U.Nonempty) :
    ∃ m ∈ U, ∀ w ∈ U, r m ≤ r w :=
  Finset.exists_min_image U r h

/-! ### L-CARD: the facts asserted for every count instance  `c = #{ i < n | P i }` -/

theorem count_le (n : ℕ) (P : ℕ → Prop) [DecidablePred P] : ((range n).filter P).card ≤ n := by
  simpa using Finset.card_filter_le (range n) P

theorem count_eq_zero (n : ℕ) (P : ℕ → Prop) [DecidablePred P] :
    ((range n).filter P).card = 0 ↔ ¬ ∃ i, i < n ∧ P i := by
  simp [Finset.filter_eq_empty_iff]

theorem count_ge_two (n : ℕ) (P : ℕ → Prop) [DecidablePred P] :
    2 ≤ ((range n).filter P).card ↔ ∃ i j, i < n ∧ j < n ∧ i ≠ j ∧ P i ∧ P j := by
  rw [show (2 : ℕ) ≤ _ ↔ 1 < ((range n).filter P).card from Iff.rfl, Finset.one_lt_card]
  constructor
  · rintro ⟨a, ha, b, hb, hab⟩
    simp only [mem_filter, mem_range] at ha hb
    exact ⟨a, b, ha.1, hb.1, hab, ha.2, hb.2⟩
  · rintro ⟨i, j, hi, hj, hij, pi, pj⟩
    exact ⟨i, by simp [hi, pi], j, by simp [hj, pj], hij⟩

theorem count_eq_all (n : ℕ) (P : ℕ → Prop) [DecidablePred P] :
    ((range n).filter P).card = n ↔ ∀ i, i < n → P i := by
  constructor
  · intro h i hi
    have : (range n).filter P = range n := by
      apply Finset.eq_of_subset_of_card_le (Finset.filter_subset _ _)
      simp [h]
    have hm : i ∈ (range n).filter P := by rw [this]; simp [hi]
    exact (mem_filter.mp hm).2
  · intro h
    have : (range n).filter P = range n := by
      apply Finset.filter_true_of_mem
      intro i hi; exact h i (mem_range.mp hi)
    simp [this]

/-- extensionality of counts (asserted pairwise between the count instances of a path) -/
theorem count_congr (n : ℕ) (P Q : ℕ → Prop) [DecidablePred P] [DecidablePred Q]
    (h : ∀ i, i < n → (P i ↔ Q i)) : ((range n).filter P).card = ((range n).filter Q).card := by
  congr 1
  apply Finset.filter_congr
  intro i hi; exact h i (mem_range.mp hi)

/-- square box with an all-false diagonal: at most n(n-1) true positions, with equality iff every off-diagonal position is true -/
theorem offdiag_count (n : ℕ) (P : Fin n → Fin n → Prop) [∀ i j, Decidable (P i j)]
    (hd : ∀ i, ¬ P i i) :
    ((univ : Finset (Fin n × Fin n)).filter (fun q => P q.1 q.2)).card ≤ n * (n - 1) ∧
    (((univ : Finset (Fin n × Fin n)).filter (fun q => P q.1 q.2)).card = n * (n - 1) ↔ ∀ i j, i ≠ j → P i j) := by
  have hsub : (univ : Finset (Fin n × Fin n)).filter (fun q => P q.1 q.2) ⊆ (univ : Finset (Fin n)).offDiag := by
    intro q hq
    simp only [mem_filter, mem_univ, true_and] at hq
    simp only [mem_offDiag, mem_univ, true_and]
    intro h; rcases q with ⟨a, b⟩; simp only at h hq; subst h; exact hd a hq
  have hcard : ((univ : Finset (Fin n)).offDiag).card = n * (n - 1) := by
    rw [Finset.offDiag_card]; simp [Nat.mul_sub, Nat.mul_one]
  refine ⟨by rw [← hcard]; exact Finset.card_le_card hsub, ?_⟩
  constructor
  · intro h i j hij
    have heq := Finset.eq_of_subset_of_card_le hsub (by rw [hcard, h])
    have : (i, j) ∈ (univ : Finset (Fin n)).offDiag := by simp [hij]
    rw [← heq] at this
    simpa using (mem_filter.mp this).2
  · intro h
    have heq : (univ : Finset (Fin n × Fin n)).filter (fun q => P q.1 q.2) = (univ : Finset (Fin n)).offDiag := by
      apply Finset.Subset.antisymm hsub
      intro q hq
      simp only [mem_offDiag, mem_univ, true_and] at hq
      simp only [mem_filter, mem_univ, true_and]
      exact h q.1 q.2 hq
    rw [heq, hcard]

/-- p(p-1) is even (add_edges: p(p-1)/2 is an integer) -/
theorem consecutive_even (p : ℕ) : ∃ h, p * (p - 1) = 2 * h := by
  obtain ⟨r, hr⟩ := Nat.even_mul_pred_self p
  exact ⟨r, by omega⟩

/-- one-point update: predicates that agree everywhere except possibly at `a` have counts differing by the change at `a` -/
theorem count_update (n a : ℕ) (P Q : ℕ → Prop) [DecidablePred P] [DecidablePred Q] (ha : a < n)
    (h : ∀ i, i < n → i ≠ a → (P i ↔ Q i)) :
    (((range n).filter Q).card : ℤ) - (((range n).filter P).card : ℤ)
      = (if Q a then (1 : ℤ) else 0) - (if P a then (1 : ℤ) else 0) := by
  rw [Finset.card_filter, Finset.card_filter]
  push_cast
  rw [← Finset.sum_sub_distrib]
  rw [Finset.sum_eq_single a]
  · intro b hb hba
    have hiff := h b (mem_range.mp hb) hba
    by_cases hp : P b
    · have hq : Q b := hiff.mp hp
      simp [hp, hq]
    · have hq : ¬ Q b := fun hq => hp (hiff.mpr hq)
      simp [hp, hq]
  · intro hna
    exact absurd (mem_range.mpr ha) hna

/-- step: counting over `n + 1` indices adds the indicator of the last one (predicates agreeing below `n`) -/
theorem count_succ (n : ℕ) (P Q : ℕ → Prop) [DecidablePred P] [DecidablePred Q]
    (h : ∀ i, i < n → (P i ↔ Q i)) :
    ((range (n + 1)).filter Q).card = ((range n).filter P).card + (if Q n then 1 else 0) := by
  have hcongr : (range n).filter Q = (range n).filter P := by
    apply Finset.filter_congr
    intro i hi
    exact (h i (mem_range.mp hi)).symm
  rw [Finset.range_add_one, Finset.filter_insert]
  by_cases hq : Q n
  · simp [hq, hcongr]
  · simp [hq, hcongr]

/-! ### set cardinalities (intervention_targets) -/

theorem card_sdiff_of_subset (R S : Finset ℕ) (h : S ⊆ R) : (R \ S).card = R.card - S.card :=
  Finset.card_sdiff_of_subset h

theorem card_sdiff_bounds (R S : Finset ℕ) : (R \ S).card ≤ R.card ∧ R.card - S.card ≤ (R \ S).card :=
  ⟨Finset.card_le_card Finset.sdiff_subset, Finset.le_card_sdiff S R⟩

theorem card_interval (n : ℕ) : (range n).card = n := Finset.card_range n

theorem card_nodup_list (L : List ℕ) (h : L.Nodup) : L.toFinset.card = L.length :=
  List.toFinset_card_of_nodup h

theorem card_list_le (L : List ℕ) : L.toFinset.card ≤ L.length := List.toFinset_card_le L

theorem card_union_bounds (A B : Finset ℕ) :
    (A ∪ B).card ≤ A.card + B.card ∧ (Disjoint A B → (A ∪ B).card = A.card + B.card) :=
  ⟨Finset.card_union_le A B, fun h => Finset.card_union_of_disjoint h⟩

/-! ### L-LFP: reflexive-transitive closure (reach / ucomp) -/

variable {α : Type} (step : α → α → Prop)

theorem rtc_refl (i : α) : Relation.ReflTransGen step i i := Relation.ReflTransGen.refl

theorem rtc_head (i k j : α) (h1 : step i k) (h2 : Relation.ReflTransGen step k j) :
    Relation.ReflTransGen step i j := Relation.ReflTransGen.head h1 h2

theorem rtc_tail (i k j : α) (h1 : Relation.ReflTransGen step i k) (h2 : step k j) :
    Relation.ReflTransGen step i j := Relation.ReflTransGen.tail h1 h2

theorem rtc_unfold_head (i j : α) (h : Relation.ReflTransGen step i j) :
    i = j ∨ ∃ k, step i k ∧ Relation.ReflTransGen step k j := by
  rcases Relation.ReflTransGen.cases_head h with h | h
  · exact Or.inl h
  · exact Or.inr h

theorem rtc_unfold_tail (i j : α) (h : Relation.ReflTransGen step i j) :
    i = j ∨ ∃ k, Relation.ReflTransGen step i k ∧ step k j := by
  rcases Relation.ReflTransGen.cases_tail h with h | h
  · exact Or.inl h.symm
  · exact Or.inr h

/-- induction principle (hint `closed_superset`): a closed set containing `i` contains everything related to `i` -/
theorem rtc_closed_superset (V : α → Prop) (i : α) (hi : V i)
    (hclosed : ∀ u v, V u → step u v → V v) :
    ∀ v, Relation.ReflTransGen step i v → V v := by
  intro v h
  induction h with
  | refl => exact hi
  | tail _ hs ih => exact hclosed _ _ ih hs

end Lemmas
