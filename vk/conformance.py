"""Conformance of the numpy / builtin model rules (assumption A-NUMPY) against the real numpy of /venv.

Each snippet below is a tiny function using one family of model rules.  It is run natively on concrete inputs
(`/venv/bin/python vk/conformance.py native` -> JSON) and symbolically by the VC generator on the *same concrete
inputs* (python3-vt -m vk.conformance): the obligation is that the model's result is determined and equal to numpy's.
A disagreement is a checker error (the model is wrong), never a verdict about /repo.
"""
import json
import os
import subprocess
import sys
import textwrap

HERE = os.path.dirname(os.path.dirname(os.path.abspath(__file__)))

SNIPPETS = textwrap.dedent('''
    import numpy as np
    import itertools
    from functools import reduce

    def s_index_row(A, i): return A[i, :] != 0
    def s_index_col(A, i): return A[:, i] == 0
    def s_where1(A, i): return np.where(np.logical_and(A[:, i] != 0, A[i, :] == 0))[0]
    def s_set_where(A, i): return sorted(set(np.where(np.logical_or(A[i, :] != 0, A[:, i] != 0))[0]))
    def s_transpose_add(A): return ((A + A.T) != 0).astype(int)
    def s_mask_assign(A):
        mask = np.logical_and(A != 0, A.T == 0)
        G = np.zeros_like(A)
        G[mask] = A[mask]
        return G
    def s_fancy_block(A, R, C): return A[R, :][:, C]
    def s_fancy_rowlist(A, i, R):
        B = np.zeros_like(A)
        B[i, R] = 1
        return B
    def s_fancy_assign_vec(v, R, w):
        v = v.copy()
        v[R] = w
        return v
    def s_fancy_augassign(v, R, w):
        v = v.astype(float)
        v[R] += w
        return v
    def s_col_zero(A, R):
        A = A.copy()
        A[:, R] = 0
        return A
    def s_count_axis0(A): return (A != 0).sum(axis=0)
    def s_count_total(A): return int((A != 0).sum())
    def s_np_sum_axis(A): return np.sum((A != 0).astype(int), axis=0)
    def s_any_all(A): return [bool((A != 0).any()), bool((A == 0).all())]
    def s_where2(A):
        fro, to = np.where(A != 0)
        return list(zip(fro, to))
    def s_filter_zip(A):
        fro, to = np.where(A != 0)
        return list(filter(lambda e: e[0] > e[1], zip(fro, to)))
    def s_dict_zip(A):
        fro, to = np.where(A != 0)
        edges = list(zip(fro, to))
        weights = [A[i, j] for i, j in edges]
        d = dict(zip(edges, weights))
        return sorted(d.items())
    def s_triu(A): return np.triu(A, k=1)
    def s_eye_minus(A): return np.eye(len(A)) - A.T
    def s_diag(v): return np.diag(v)
    def s_slices(A, a, b): return A[a:a + b]
    def s_slice_tail(A, a): return A[a::]
    def s_astype_trunc(v): return v.astype(int)
    def s_int_store(v, x):
        v = v.copy()
        v[0] = x
        return v
    def s_atleast(x): return np.atleast_1d(x)
    def s_arange_pair(p):
        A = np.zeros((p, p))
        ix = np.arange(p - 1)
        A[ix, ix + 1] = 1
        return A
    def s_list_ops(p):
        L = []
        for i in range(3):
            L.append(i * p)
        x = L.pop()
        L += [7, 8]
        return [x, len(L), L[0], L[-1]]
    def s_set_ops(S, T): return [sorted(S & T), sorted(S | T), sorted(S - T), S <= T, len(S & T) > 0, len(S) >= 2]
    def s_enumerate(L): return [(i, x) for i, x in enumerate(L)]
    def s_reversed(L): return list(reversed(L))
    def s_list_mul(x, k): return [x] * k
    def s_round(x): return round(x)
    def s_intdiv(p): return int(p * (p - 1) / 2)
    def s_tuple_cmp(a, b): return (a, b) if a < b else (b, a)
    def s_mask_cols(A, i): return A[:, A[:, i] != 0]
    def s_zeros_like_bool(A, S):
        mask = np.zeros_like(A, dtype=bool)
        mask[list(S), :] = True
        mask = np.logical_and(mask, mask.T)
        return mask
    def s_isclose(a, b): return bool(np.isclose(a, b))
    def s_setorder(p, a): return list(set(range(p)) - {a})
    def s_list_remove(L, x):
        L = list(L)
        L.remove(x)
        return L
    def s_abs(v): return np.abs(v)
''')

ARGS = {
    'A': [[[0, 1.0, 0], [0, 0, -2.0], [0.5, 0, 0]], [[0, 1, 1], [1, 0, 0], [0, 0, 0]], [[0.0]], [[0, 2.0], [0, 0]], [[1.0, 1.0], [-1.0, 0.0]]],
    'i': [0, 1], 'R': [[0], [1, 0], []], 'C': [[1, 0], [0]], 'v': [[1.5, -2.5, 0.0], [3.0]], 'w': [[7.0], [8.0, 9.5], []],
    'a': [0, 1, 5], 'b': [0, 2, 7], 'p': [1, 2, 4], 'S': [[0, 1], [], [1]], 'T': [[1, 2], [0, 1, 2]], 'L': [[3, 1, 2], []],
    'x': [2.5, -0.4, 3.0, 0.5, 1.5], 'k': [0, 3], 'L2': [[3, 1, 2], [4, 7, 4, 9]], 'e': [4, 2, 3],
}
SIG = {
    's_index_row': 'A i', 's_index_col': 'A i', 's_where1': 'A i', 's_set_where': 'A i', 's_transpose_add': 'A', 's_mask_assign': 'A',
    's_fancy_block': 'A R C', 's_fancy_rowlist': 'A i R', 's_fancy_assign_vec': 'v R w', 's_fancy_augassign': 'v R w', 's_col_zero': 'A R',
    's_count_axis0': 'A', 's_count_total': 'A', 's_np_sum_axis': 'A', 's_any_all': 'A', 's_where2': 'A', 's_filter_zip': 'A', 's_dict_zip': 'A',
    's_triu': 'A', 's_eye_minus': 'A', 's_diag': 'v', 's_slices': 'A a b', 's_slice_tail': 'A a', 's_astype_trunc': 'v', 's_int_store': 'v x',
    's_atleast': 'x', 's_arange_pair': 'p', 's_list_ops': 'p', 's_set_ops': 'S T', 's_enumerate': 'L', 's_reversed': 'L', 's_list_mul': 'x k',
    's_round': 'x', 's_intdiv': 'p', 's_tuple_cmp': 'a b', 's_mask_cols': 'A i', 's_zeros_like_bool': 'A S', 's_isclose': 'x x', 's_abs': 'v', 's_setorder': 'p a', 's_list_remove': 'L2 e',
}


def cases():
    import itertools
    for name, sig in SIG.items():
        names = sig.split()
        doms = [ARGS[n] for n in names]
        for combo in itertools.product(*doms):
            yield name, names, combo


def to_native(n, v):
    import numpy as np
    if n in ('A',):
        return np.array(v, dtype=float)
    if n in ('v', 'w'):
        return np.array(v, dtype=float)
    if n in ('R', 'C'):
        return np.array(v, dtype=int)
    if n in ('S', 'T'):
        return set(v)
    return v


def jsonable(r):
    import numpy as np
    if isinstance(r, np.ndarray):
        return {'nd': r.tolist(), 'shape': list(r.shape), 'kind': r.dtype.kind}
    if isinstance(r, (np.integer,)):
        return int(r)
    if isinstance(r, (np.floating,)):
        return float(r)
    if isinstance(r, (np.bool_,)):
        return bool(r)
    if isinstance(r, (list, tuple)):
        return [jsonable(x) for x in r]
    return r


def setorder_sweep(nmax=1500):
    """A-SETORDER on the running CPython: list(set(range(n)) - {i}) is increasing for every n <= nmax and every i (and i outside the range)"""
    bad = 0
    for n in list(range(0, 300)) + list(range(300, nmax, 37)):
        for i in list(range(n)) + [n, -1]:
            L = list(set(range(n)) - {i})
            if L != [x for x in range(n) if x != i]:
                bad += 1
    return bad


def viewcopy_sweep():
    """A-VIEWCOPY on the installed numpy: every function / method that vk/frames.py lists as returning a FRESH object is called on
    sample arrays and its result must not share memory with the argument; the listed view-makers may share.  Returns the offenders."""
    import numpy as np
    sys.path.insert(0, HERE)
    from vk import frames
    A = np.arange(12.0).reshape(3, 4) + 1
    sq = A[:, :3].copy()
    v = np.arange(4.0)
    calls = {
        'array': lambda: np.array(A), 'zeros_like': lambda: np.zeros_like(A), 'ones_like': lambda: np.ones_like(A), 'empty_like': lambda: np.empty_like(A),
        'diag': lambda: np.diag(v), 'where': lambda: np.where(A > 2)[0], 'logical_and': lambda: np.logical_and(A, A), 'logical_or': lambda: np.logical_or(A, A),
        'logical_not': lambda: np.logical_not(A), 'sum': lambda: np.sum(A, axis=0), 'unique': lambda: np.unique(A), 'hstack': lambda: np.hstack((v, v)),
        'vstack': lambda: np.vstack((A, A)), 'repeat': lambda: np.repeat(v, 2), 'delete': lambda: np.delete(A, 0, axis=0), 'triu': lambda: np.triu(sq), 'tril': lambda: np.tril(sq),
        'abs': lambda: np.abs(A), 'copy': lambda: np.copy(A), 'sort': lambda: np.sort(v), 'argsort': lambda: np.argsort(v), 'cumsum': lambda: np.cumsum(v),
        'round': lambda: np.round(A), 'minimum': lambda: np.minimum(A, A), 'maximum': lambda: np.maximum(A, A), 'exp': lambda: np.exp(A), 'sqrt': lambda: np.sqrt(A),
        'outer': lambda: np.outer(v, v), 'dot': lambda: np.dot(sq, sq), 'concatenate': lambda: np.concatenate((v, v)), 'stack': lambda: np.stack((v, v)),
        'column_stack': lambda: np.column_stack((v, v)), 'tile': lambda: np.tile(v, 2), 'sign': lambda: np.sign(A), 'power': lambda: np.power(A, 2),
        'linalg.inv': lambda: np.linalg.inv(sq + 5 * np.eye(3)), 'linalg.solve': lambda: np.linalg.solve(sq + 5 * np.eye(3), np.ones(3)),
        '.copy': lambda: A.copy(), '.astype': lambda: A.astype(float), '.astype(int)': lambda: A.astype(int), '.flatten': lambda: A.flatten(), '.cumsum': lambda: v.cumsum(),
        '.round': lambda: A.round(), '.dot': lambda: sq.dot(sq), '.tolist': lambda: np.array(A.tolist()),
        'fancy rows': lambda: A[[0, 2], :], 'fancy cols': lambda: A[:, [1, 0]], 'bool mask': lambda: A[A > 3], 'binop': lambda: A + 0, 'unary': lambda: -A, 'compare': lambda: A != 0,
    }
    bad = []
    for name, f in calls.items():
        key = name.lstrip('.').split('(')[0].split('.')[-1]
        listed = key in frames.FRESH_NP or key in frames.FRESH_METHODS or key in ('copy', 'astype', 'inv', 'solve') or ' ' in name or name in ('binop', 'unary', 'compare')
        r = f()
        if not listed:
            bad.append('%s is exercised here but not listed as fresh in vk/frames.py' % name)
        elif any(np.shares_memory(r, x) for x in (A, sq, v)):
            bad.append('%s returns storage shared with its argument' % name)
    views = {'asarray': lambda: np.asarray(A), 'atleast_2d': lambda: np.atleast_2d(A), 'transpose': lambda: np.transpose(A), 'ravel': lambda: np.ravel(A), 'reshape': lambda: np.reshape(A, (4, 3)),
             '.T': lambda: A.T, 'basic slice': lambda: A[1:, :2], 'row': lambda: A[1]}
    for name, f in views.items():       # these MAY share (the analysis keeps the base region): they must at least be listed as such
        key = name.lstrip('.')
        if ' ' not in name and key not in ('T', 'row') and key not in frames.VIEW_NP:
            bad.append('%s is a view-maker that vk/frames.py does not list' % name)
    return bad


def native():
    ns = {}
    exec(SNIPPETS, ns)
    out = []
    out.append({'fn': 'A-VIEWCOPY-sweep', 'args': [], 'ok': True, 'res': viewcopy_sweep()})
    out.append({'fn': 'A-SETORDER-sweep', 'args': [], 'ok': True, 'res': setorder_sweep()})
    for name, names, combo in cases():
        args = [to_native(n, v) for n, v in zip(names, combo)]
        try:
            r = ns[name](*args)
            out.append({'fn': name, 'args': list(combo), 'ok': True, 'res': jsonable(r)})
        except Exception as e:      # noqa: BLE001
            out.append({'fn': name, 'args': list(combo), 'ok': False, 'exc': type(e).__name__})
    print(json.dumps(out))


def symbolic():
    import ast
    import z3
    sys.path.insert(0, HERE)
    from vk.values import SArr, SList, SSet, Ref, INT, REAL, Unsupported, Z, num, is_z3, OR, EQ
    from vk.engine import Exec, State, Program, FuncInfo, PyRaise
    from vk.contracts import ContractDB
    p = subprocess.run(['/venv/bin/python', os.path.abspath(__file__), 'native'], capture_output=True, text=True)
    nat = json.loads(p.stdout.strip().splitlines()[-1])
    tree = ast.parse(SNIPPETS)
    prog = Program({})
    prog.modules['conf'] = tree
    prog.imports['conf'] = {'np': 'numpy', 'itertools': 'itertools', 'reduce': 'functools.reduce'}
    prog.consts['conf'] = {}
    fns = {n.name: n for n in tree.body if isinstance(n, ast.FunctionDef)}
    for k, n in fns.items():
        prog.funcs['conf.' + k] = FuncInfo('conf.' + k, 'conf', n)
    db = ContractDB()
    agree = disagree = unsupported = undetermined = abstract = 0
    problems = []

    def mk(n, v, st):
        if n == 'A':
            rows = len(v); cols = len(v[0]) if rows else 0
            return st.alloc(SArr((rows, cols), lambda i, j, v=v: _sel2(v, i, j), 'float'))
        if n in ('v', 'w'):
            return st.alloc(SArr((len(v),), lambda i, v=v: _sel1(v, i, True), 'float'))
        if n in ('R', 'C'):
            return st.alloc(SArr((len(v),), lambda i, v=v: _sel1(v, i, False), 'int'))
        if n in ('S', 'T'):
            return st.alloc(SSet(lambda x, v=v: OR(*[EQ(x, e) for e in v]), INT))
        if n in ('L', 'L2'):
            return st.alloc(SList.of(list(v), INT))
        return v

    def _sel1(v, i, real):
        if not is_z3(i):
            return (Z(float(v[i])) if real else v[i]) if 0 <= i < len(v) else (z3.RealVal(0) if real else 0)
        r = z3.RealVal(0) if real else z3.IntVal(0)
        for k in range(len(v)):
            r = z3.If(i == k, Z(float(v[k])) if real else z3.IntVal(v[k]), r)
        return r

    def _sel2(v, i, j):
        if not is_z3(i) and not is_z3(j):
            return Z(float(v[i][j])) if 0 <= i < len(v) and 0 <= j < len(v[0]) else z3.RealVal(0)
        r = z3.RealVal(0)
        for a in range(len(v)):
            for b in range(len(v[0])):
                r = z3.If(z3.And(Z(i) == a, Z(j) == b), Z(float(v[a][b])), r)
        return r

    def value_eq(st, sym, con):
        """formula: the symbolic value equals the concrete (json) value; None if shapes are incomparable"""
        sv = st.deref(sym)
        if isinstance(con, dict) and 'nd' in con:
            if isinstance(sv, SList) and len(con['shape']) == 1:
                sv = SArr((sv.n,), sv.get, 'int')
            if not isinstance(sv, SArr) or sv.ndim != len(con['shape']):
                return z3.BoolVal(False)
            fs = [Z(s) == d for s, d in zip(sv.shape, con['shape'])]
            import itertools
            for ix in itertools.product(*[range(d) for d in con['shape']]):
                c = con['nd']
                for k in ix:
                    c = c[k]
                fs.append(scalar_eq(sv.get(*ix), c))
            return z3.And(*fs) if fs else z3.BoolVal(True)
        if isinstance(con, list):
            if isinstance(sv, tuple):
                if len(sv) != len(con):
                    return z3.BoolVal(False)
                return z3.And(*[value_eq(st, a, b) for a, b in zip(sv, con)]) if con else z3.BoolVal(True)
            if isinstance(sv, SArr) and sv.ndim == 1:
                sv = SList(sv.shape[0], sv.get, None)
            if not isinstance(sv, SList):
                return z3.BoolVal(False)
            fs = [Z(sv.n) == len(con)]
            for k, c in enumerate(con):
                fs.append(value_eq(st, sv.get(k), c))
            return z3.And(*fs)
        return scalar_eq(sv, con)

    def scalar_eq(s, c):
        if isinstance(s, tuple) and isinstance(c, list):
            return z3.And(*[scalar_eq(a, b) for a, b in zip(s, c)]) if len(s) == len(c) else z3.BoolVal(False)
        if isinstance(c, bool):
            return Z(s) == c if (is_z3(s) and z3.is_bool(s)) or isinstance(s, bool) else Z(num(s)) == (1 if c else 0)
        if isinstance(c, (int, float)):
            zs = Z(num(s)) if (is_z3(s) or isinstance(s, (int, float, bool))) else None
            if zs is None:
                return z3.BoolVal(False)
            return zs == (Z(float(c)) if isinstance(c, float) else c)
        return z3.BoolVal(False)

    for rec in nat:
        name = rec['fn']
        if name == 'A-VIEWCOPY-sweep':
            if not rec['res']:
                agree += 1
            else:
                disagree += 1
                problems.append({'case': 'A-VIEWCOPY', 'problem': '; '.join(rec['res'])})
            continue
        if name == 'A-SETORDER-sweep':
            if rec['res'] == 0:
                agree += 1
            else:
                disagree += 1
                problems.append({'case': rec, 'problem': 'list(set(range(n)) - {i}) is not increasing on this interpreter: A-SETORDER does not hold'})
            continue
        names = SIG[name].split()
        ex = Exec(prog, db)
        ex.cur = prog.funcs['conf.' + name]
        ex.cur_node_stack = [fns[name]]
        ex.cur_qual_stack = ['conf.' + name]
        st = State()
        try:
            for a, (n, v) in zip(fns[name].args.args, zip(names, rec['args'])):
                st.env[a.arg] = mk(n, v, st)
            outs = ex.exec_block(fns[name].body, st)
        except Unsupported as u:
            unsupported += 1
            continue
        except PyRaise as r:
            outs = [(st, 'raise', r.exc)]
        # index / shape obligations must hold when numpy succeeded
        rets = [(s, v) for (s, k, v) in outs if k == 'return']
        raises_ = [(s, v) for (s, k, v) in outs if k == 'raise']
        if not rec['ok']:
            # numpy raised: the model must have an index/shape obligation that fails or a raise path
            failing = False
            for o in ex.obls:
                sv = z3.Solver(); sv.set('timeout', 5000); sv.add(*o.hyps); sv.add(z3.Not(o.goal))
                if sv.check() != z3.unsat:
                    failing = True
            if failing or raises_:
                agree += 1
            else:
                disagree += 1
                problems.append({'case': rec, 'problem': 'numpy raises %s, the model neither raises nor has a failing obligation' % rec['exc']})
            continue
        ok = True
        for o in ex.obls:
            if o.expect != 'unsat':
                continue
            sv = z3.Solver(); sv.set('timeout', 5000); sv.add(*o.hyps); sv.add(z3.Not(o.goal))
            if sv.check() != z3.unsat:
                ok = False
                problems.append({'case': rec, 'problem': 'model obligation %s fails although numpy succeeds' % o.id})
                break
        if not ok:
            disagree += 1
            continue
        feasible = []
        for (s, v) in rets:
            sv = z3.Solver(); sv.set('timeout', 5000); sv.add(*s.pc)
            if sv.check() != z3.unsat:
                feasible.append((s, v))
        if len(feasible) != 1:
            undetermined += 1
            problems.append({'case': rec, 'problem': '%d feasible return paths' % len(feasible)})
            continue
        s, v = feasible[0]
        try:
            from vk.values import tag
            from vk.npmodel import LAZY
            if tag(s.deref(v)) in LAZY:
                v = ex.np.materialise(s.deref(v), s)
            goal = value_eq(s, v, rec['res'])
        except Unsupported:
            unsupported += 1
            continue
        sv = z3.Solver(); sv.set('timeout', 10000); sv.add(*s.pc); sv.add(z3.Not(goal))
        r = sv.check()
        if r == z3.unsat:
            agree += 1
        else:
            # not forced: either the rule is an abstraction (numpy's value is one of the allowed ones) or it is wrong (excluded)
            sv2 = z3.Solver(); sv2.set('timeout', 10000); sv2.add(*s.pc); sv2.add(goal)
            if sv2.check() == z3.unsat:
                disagree += 1
                problems.append({'case': rec, 'problem': 'model EXCLUDES numpy\'s result'})
            else:
                abstract += 1
    print(json.dumps({'cases': len(nat), 'agree': agree, 'disagree': disagree, 'abstract_but_consistent': abstract, 'unsupported': unsupported, 'undetermined': undetermined,
                      'problems': [dict(fn=p['case']['fn'], args=p['case']['args'], problem=p['problem']) for p in problems[:40]]}, default=str))
    return 0 if disagree == 0 and undetermined == 0 else 3


if __name__ == '__main__':
    if len(sys.argv) > 1 and sys.argv[1] == 'native':
        native()
    else:
        sys.exit(symbolic())
