"""Property -> cone of functions under contract (tier P), bounded stand-ins (tier B), level and trusted base."""

FILES = {'sempler.utils': 'sempler/utils.py', 'sempler.lganm': 'sempler/lganm.py', 'sempler.anm': 'sempler/anm.py',
         'sempler.normal_distribution': 'sempler/normal_distribution.py', 'sempler.generators': 'sempler/generators.py',
         'sempler.noise': 'sempler/noise.py', 'sempler.functions': 'sempler/functions.py', 'sempler.semi': 'sempler/semi.py'}

U = 'sempler.utils.'
LEAF_REL = [U + x for x in ('pa', 'ch', 'neighbors', 'adj', 'na')]
STRUCT = [U + x for x in ('only_directed', 'only_undirected', 'skeleton', 'induced_subgraph', 'directed_edges', 'undirected_edges',
                          'edge_weights', 'vstructures', 'moral_graph', 'degrees', 'is_clique', 'is_complete')]
TOPO = [U + 'topological_ordering', U + 'is_dag']

TECH = 'contract-based deductive verification (sidecar contracts + loop invariants, AST->VC generator, z3/cvc5)'
NOTE = ('numpy/builtin semantics are model rules (A-NUMPY, conformance-tested); floats are reals; termination not proved; '
        'the VC generator is trusted. Every assumption used is listed in the evidence file.')

PROPS = {
    'C03': dict(level='proof', functions=[U + 'only_undirected', U + 'pa', U + 'ch'] + TOPO, bounded=[],
                design='DESIGN.md §4 C03', technique=TECH, note=NOTE + ' L-MIN (finite non-empty set has a minimal element) is used as a lemma instance.',
                claim='topological_ordering is proved, for every square real matrix and every size, to return a list containing every node once with all edges forward, to raise ValueError exactly when the non-zero pattern has a directed cycle, and to leave its argument untouched (Kahn loop invariants discharged by z3); is_dag == acyclic. Constructor gates are covered by the contracts of their callers (C01/C02/C19).'),
    'C15': dict(level='proof', functions=LEAF_REL, bounded=[], design='DESIGN.md §4 C15', technique=TECH, note=NOTE,
                claim='pa/ch/neighbors/adj/na are proved equal to their set-builder definitions for every square matrix and node (unbounded p); reachability/path functions are being added.'),
    'C16': dict(level='proof', functions=STRUCT + [U + 'pa'], bounded=[], design='DESIGN.md §4 C16', technique=TECH, note=NOTE + ' Cardinality facts L-CARD are asserted per count instance.',
                claim='every structural decomposition (only_directed/only_undirected/skeleton/edge lists/edge_weights/vstructures/moral_graph/induced_subgraph/is_clique/is_complete/degrees) is proved against its first-order definition for all binary PDAGs and signed DAG weight matrices of any size.'),
}
ND = 'sempler.normal_distribution.NormalDistribution.'
PROPS['C05'] = dict(level='proof', functions=[U + 'matrix_block', ND + '__init__', ND + 'marginal', ND + 'conditional'], bounded=[],
                    design='DESIGN.md §4 C05', technique=TECH,
                    note=NOTE + ' A-LINALG (ring/inverse laws over matrix tokens). That the Schur-complement formula is the conditional Gaussian law is the cited lemma L-SCHUR (not mechanised).',
                    claim='marginal/conditional/matrix_block/constructor are proved, for every dimension and all index arrays in any order, to select exactly the requested entries in the requested order, to raise ValueError exactly on size mismatch or overlapping X/Y, to reduce to the marginal when X is empty, and to return mean_Y + C_YX C_XX^-1 (x - mean_X) and C_YY - C_YX C_XX^-1 C_XY over the reals; inputs unmodified, results fresh.')
PROPS['C06'] = dict(level='proof', functions=[ND + 'regress', ND + 'mse', ND + '__init__'], bounded=[],
                    design='DESIGN.md §4 C06', technique=TECH,
                    note=NOTE + ' A-LINALG. Non-negativity, order-invariance, monotonicity and the LGANM causal link are corollaries L-LS/L-GAUSS (cited, cross-checked by the bounded tier only).',
                    claim='regress is proved to return coefficients that vanish outside S and satisfy the normal equations C_SS b_S = C_Sy with intercept mean_y - b.mean, for every dimension and index order; mse is proved to equal var_y + b C b^T - 2 C_y b^T for exactly those coefficients (a deterministic function of covariance, y and S only).')
G = 'sempler.generators.'
PROPS['C11'] = dict(level='proof', functions=[G + 'dag_avg_deg', G + 'dag_full'], bounded=[], design='DESIGN.md §4 C11', technique=TECH,
                    note=NOTE + ' A-RNG: draws are uninterpreted functions of (generator state, arguments, position); uniform(lo,hi) lies in [lo,hi); permutation(p) is a bijection. Independence / uniformity of the draws (the Bernoulli(k/(p-1)) edge law, the random ordering) is the assumed law of numpy, not decided here.',
                    claim='both generators are proved, for all p, k, weight ranges and seeds, to return the p x p matrix W[a,b] = weight[perm a, perm b] if perm a < perm b (and U[perm a, perm b] <= k/(p-1)) else 0: zero diagonal, non-zero entries inside [w_min,w_max], acyclic, no 2-cycles, complete for dag_full when 0 is outside the range; the ordering returned on request is a permutation and a topological order of the returned graph.')
PROPS['C20'] = dict(level='proof', functions=['sempler.noise.normal', 'sempler.noise.uniform', 'sempler.noise.laplace', 'sempler.noise.zero', 'sempler.functions.null'], bounded=[],
                    design='DESIGN.md §4 C20', technique=TECH,
                    note=NOTE + ' A-RNG: the laws of np.random.normal/uniform/laplace (mean, variance, support) are assumed; the contracts pin the data flow into them.',
                    claim='each factory is proved to return a callable whose value on n is exactly the n draws of numpy\'s global generator with the documented parameters (standard deviation sqrt(var) for normal; [lo,hi) for uniform; (mean, scale) for laplace; zeros for zero()), and null() == 0.')
PROPS['C12'] = dict(level='proof', functions=[G + 'intervention_targets'], bounded=[], design='DESIGN.md §4 C12', technique=TECH,
                    note=NOTE + ' A-RNG: integers(lo,hi,K) in [lo,hi); choice(a,s,replace=False) returns s entries at distinct positions and raises ValueError iff s > len(a). L-CARD instances for set difference / interval / distinct lists. That every size and variable occurs over seeds is numpy\'s law (assumed).',
                    claim='intervention_targets is proved (all p>=1, K>=0, sizes/ranges, both replace modes, all seeds) to return exactly K lists of distinct variables of 0..p-1 with length equal to the size or inside the inclusive range, pairwise disjoint without replacement, and to raise ValueError exactly when the tuple has length != 2, max size > p, or max size x K > p without replacement - in particular the inner choice() can never fail (loop invariant card(remaining) >= max x (K-i)).')
TECH_B = ('bounded stand-in (exhaustive enumeration against an independent brute-force oracle, never counted as proved) '
          '+ contract-based deductive verification of the first-order building blocks')
NOTE_B = ('The core claim rests on graph theorems (Chickering labelling, Dor-Tarsi, Meek completeness) that are out of reach of first-order VCs here; '
          'it is decided only on the enumerated domain (bound stated in the evidence). Oracles in vkb/oracles.py share no code with sempler.')
PROPS['C07'] = dict(level='exploration', functions=[U + 'is_consistent_extension', U + 'vstructures', U + 'skeleton', U + 'only_directed', U + 'is_dag', U + 'mec', U + 'is_chain_graph', U + 'chain_graph'], bounded_only=[U + 'all_dags', U + 'chain_graph_MEC', U + 'dag_to_cpdag'], bounded=['vkb.c07'], design='DESIGN.md §4 C07', technique=TECH_B, note=NOTE_B,
                    claim='mec / all_dags / is_consistent_extension / chain shortcut are compared with a brute-force enumeration of Markov equivalence classes and consistent extensions on every DAG and every PDAG with acyclic directed part up to the stated bound (quick p<=4, thorough p<=5, chains to 12), incl. signed-weight inputs.')
PROPS['C08'] = dict(level='exploration', functions=[U + 'pdag_to_cpdag'], bounded_only=[U + 'dag_to_cpdag', U + 'pdag_to_dag'], bounded=['vkb.c08'], design='DESIGN.md §4 C08', technique=TECH_B, note=NOTE_B,
                    claim='dag_to_cpdag / pdag_to_cpdag are compared entry-wise with the essential graph computed by brute force for every DAG / PDAG up to the bound; ValueError iff no extension exists.')
PROPS['C09'] = dict(level='exploration', functions=[U + 'rule_1', U + 'rule_2', U + 'rule_3', U + 'rule_4', U + 'has_consistent_extension'], bounded_only=[U + 'pdag_to_dag'], bounded=['vkb.c09'], design='DESIGN.md §4 C09', technique=TECH_B, note=NOTE_B,
                    claim='pdag_to_dag / has_consistent_extension / maximally_orient are compared with the brute-force extension set of every PDAG up to the bound (soundness, completeness, unchanged extension set, inputs untouched).')
PROPS['C10'] = dict(level='exploration', functions=[U + 'imec', U + 'pdag_to_icpdag', U + 'is_chain_graph'], bounded_only=[U + 'dag_to_icpdag', U + 'chain_graph_IMEC', U + 'all_dags'], bounded=['vkb.c10'], design='DESIGN.md §4 C10', technique=TECH_B, note=NOTE_B,
                    claim='imec / dag_to_icpdag / pdag_to_icpdag / chain shortcut are compared with the brute-force interventional class for every DAG x target set up to the bound.')
PROPS['C15']['bounded'] = ['vkb.c15']
PROPS['C15']['functions'] = LEAF_REL + [U + x for x in ('descendants', 'desc', 'ancestors', 'an', 'transitive_closure', 'chain_component', 'separates', 'only_undirected')]
PROPS['C15']['bounded_only'] = [U + 'semi_directed_paths']
PROPS['C15']['claim'] = 'pa/ch/neighbors/adj/na are proved equal to their set-builder definitions; descendants/desc/ancestors/an/transitive_closure are proved equal to directed reachability (reflexive for descendants, at least one edge for ancestors) via the closure laws of reach; chain_component is proved to be connectivity through undirected edges (BFS invariants + the induction principle of the closure); separates is proved to be true exactly when every semi-directed path (as enumerated by semi_directed_paths, whose own contract is checked by the bounded tier) from A to B meets S, ValueError iff the sets overlap. All for every square matrix / PDAG of any size.'
PROPS['C15']['note'] += ' semi_directed_paths (explicit-stack DFS) is decided by the bounded stand-in only; termination of the recursive functions is assumed (acyclic directed part required). L-LFP: induction principle of the reflexive-transitive closure.'
PROPS['C18'] = dict(level='exploration', functions=[], bounded=['vkb.c18'], design='DESIGN.md §4 C18', technique=TECH_B,
                    note='Greedy insertion always reaching the requested count needs a graph lemma that is not mechanised: bounded only.',
                    claim='add_edges / remove_edges are run on every DAG up to the bound (binary and signed), every count from 0 to one past the feasible maximum and several seeds: exact edge counts, sub/supergraph, acyclicity, ValueError exactly when infeasible, determinism, input untouched.')
LGM = 'sempler.lganm.'
PROPS['C01'] = dict(level='proof', functions=[LGM + 'LGANM.sample', LGM + 'LGANM.__init__'], case_filter={LGM + 'LGANM.sample': {'population': True}}, bounded_only=[LGM + '_parse_interventions'], bounded=[], design='DESIGN.md §4 C01', technique=TECH,
                    note=NOTE + ' A-LINALG; L-UNITRI (I - W^T non-singular for a DAG) and L-GAUSS (the law of an acyclic linear-Gaussian SEM is N(mean, cov) with those moments) are cited, not mechanised. The contract of _parse_interventions is assumed at its call sites and checked only by the bounded tier.',
                    claim='LGANM.sample(population=True) is proved, for every model size, every do/noise/shift dict (tuple or scalar parameters, any overlap, {} or None), to work on parameters mu\', var\', W\' that are entry by entry the intervened ones (do overrides noise overrides shift; scalar = variance 0; do-targets lose their incoming edges) and to return mean, cov with (I-W\'^T) mean = mu\' and (I-W\'^T) cov (I-W\'^T)^T = diag(var\'); the model is not modified and the result is fresh.')
ALL_CONTRACTED = sorted(set(LEAF_REL + STRUCT + TOPO + [U + 'split_data', 'sempler.anm.ANM.sample', 'sempler.anm.ANM.__init__'] + [U + x for x in ('descendants', 'desc', 'ancestors', 'an', 'transitive_closure', 'chain_component', 'separates', 'mec', 'imec', 'is_chain_graph', 'chain_graph', 'pdag_to_cpdag', 'pdag_to_icpdag', 'has_consistent_extension')] + [U + 'rule_1', U + 'rule_2', U + 'rule_3', U + 'rule_4', U + 'is_consistent_extension', U + 'matrix_block', ND + '__init__', ND + 'marginal', ND + 'conditional', ND + 'regress', ND + 'mse', ND + 'sample',
                                                            G + 'dag_avg_deg', G + 'dag_full', G + 'intervention_targets', LGM + 'LGANM.__init__', LGM + 'LGANM.sample',
                                                            'sempler.noise.normal', 'sempler.noise.uniform', 'sempler.noise.laplace', 'sempler.noise.zero', 'sempler.functions.null']))
PROPS['C13'] = dict(level='proof', functions=['sempler.anm.ANM.sample', G + 'dag_avg_deg', G + 'dag_full', G + 'intervention_targets', LGM + 'LGANM.__init__', LGM + 'LGANM.sample', ND + 'sample'],
                    kinds=('noninterference', 'no-global-write', 'nondegenerate', 'check'), bounded=[], design='DESIGN.md §4 C13', technique=TECH + '; non-interference obligations over the RNG model',
                    note=NOTE + ' A-RNG: a generator is a deterministic function of its seed; draws are functions of (state, arguments). ANM.sample, split_data, add_edges and remove_edges are not under deductive contract yet: they are decided by the bounded stand-in (call, perturb the global generator, call again, compare bytes).',
                    claim='for the APIs under contract the value returned with an int seed (0 included, because `is not None` guards are executed symbolically over all ints) is proved to contain no term depending on numpy\'s global generator state or on fresh entropy, private-generator users never touch the global generator, and unseeded results do depend on the incoming state (non-degenerate).')
PROPS['C14'] = dict(level='proof', functions=ALL_CONTRACTED, kinds=('frame', 'fresh'), bounded=[], design='DESIGN.md §4 C14', technique=TECH + '; frame and freshness obligations from the heap model',
                    note=NOTE + ' A-VIEWCOPY. Only the functions under deductive contract carry frame obligations; the remaining public functions and call histories are decided by the bounded stand-in (byte snapshots, shares_memory probes).',
                    claim='every function under contract is proved, on every path, to leave each argument object and every object reachable from self unmodified (modifies-clauses excepted: constructors write self, samplers advance the global generator) and to return objects that share no storage with arguments or model state; immutability under all call histories follows by induction over calls.')
PROPS['C04'] = dict(level='proof', functions=[ND + 'sample', LGM + 'LGANM.sample', 'sempler.noise.normal'], bounded=[], case_filter={LGM + 'LGANM.sample': {'population': False}}, design='DESIGN.md §4 C04', technique=TECH,
                    note=NOTE + ' The distributional reading (i.i.d. rows N(mean, cov), 1/sqrt(n) deviations, equality in law of ANM and LGANM) is A-RNG + L-GAUSS: assumed, not decided by this family; no statistical test is part of the proof.',
                    claim='finite samples are proved to be numpy\'s multivariate normal applied to exactly the population parameters: NormalDistribution.sample(n, rs) = mvn(state, self.mean, self.covariance, n) with the state reseeded iff a seed is given, and LGANM.sample(population=False) returns that draw for a distribution object that satisfies the same intervened structural equations as the population result (shape n x p); noise.normal uses standard deviation sqrt(var).')
PROPS['C01']['bounded'] = ['vkb.c01']
PROPS['C13']['bounded'] = ['vkb.c13']
PROPS['C14']['bounded'] = ['vkb.c14']
PROPS['C02'] = dict(level='proof', functions=['sempler.anm.ANM.sample', 'sempler.anm.ANM.__init__', U + 'topological_ordering', 'sempler.functions.null'], bounded=['vkb.c02'],
                    concrete_skip=['sempler.anm.ANM.sample', 'sempler.anm.ANM.__init__'], design='DESIGN.md §4 C02, A.3', technique=TECH + '; user callables as a ghost call log',
                    note=NOTE + ' A-CALLABLE: assignment / noise / intervention callables are opaque; the k-th variable\'s calls are logged as ghost functions of k (argument matrix, column map, return value, draws) and each is invoked at most once per pass (obligation). All assignments of a model are assumed to return the same shape kind within one case (scalar, (n,), (n,1)); mixed shapes, None/null assignments and the concrete re-evaluation are covered by the bounded harness vkb.c02.',
                    claim='ANM.sample is proved (loop invariant over the stored topological ordering, all graphs, sizes, n >= 0, all do/shift/noise dicts) to return an n x p array in which every do-target column is exactly its intervention draw and every other column is the value returned by its assignment plus (original noise + shift | new noise | original noise), where the assignment received exactly one column per parent, in increasing variable index, holding the final sampled values of those parents; the constructor establishes the topological ordering (via the proved contract of topological_ordering), raises ValueError exactly for cyclic graphs and stores copies.')
PROPS['C17'] = dict(level='proof', functions=[U + 'split_data'], bounded=['vkb.c17'], concrete_skip=[U + 'split_data'], design='DESIGN.md §4 C17, A.3', technique=TECH + '; FP-EQ for the ratio sum',
                    note=NOTE + ' FP-EQ: np.sum of the ratio list = exact sum x (1 + theta), |theta| <= 1e-12 (requires at most 1000 ratios in [0,1]); round(x) is an integer within 1/2 of x; A-RNG: shuffle permutes rows by a bijection determined by the generator state (the permutation of environment e is the ghost function shuffle_perm(e, .)). That consecutive half-open intervals of a monotone sequence from 0 to n partition [0, n) (hence every observation lies in exactly one fold) is the cited lemma L-PART; determinism in the seed is C13 (vkb.c13). The concrete re-evaluation is done by vkb.c17.',
                    claim='split_data is proved, for every list of environments of any sizes and every ratio vector, to return for fold i and environment e exactly the rows sigma_e[lo_i : hi_i] of data[e] with lo_0 = 0, lo_{i+1} = min(n, lo_i + round(n x ratio_i)) and the last fold running to n (nothing is moved across environments), to raise ValueError whenever the exact ratio sum is off by more than 1e-6 and never when it is exactly 1 (whatever its floating-point value), to leave the input arrays untouched and to return fresh arrays.')
PROPS['C19'] = dict(level='exploration', functions=[], bounded=['vkb.c19'], design='DESIGN.md §4 C19', technique=TECH_B,
                    note='sempler.semi / drf.code run against the deterministic stand-in backend /verif/fake_rpy2 (R itself is out of scope); pandas and the forest are external, so no deductive contract is attempted yet.',
                    claim='DRFNet fitted through the stand-in backend: output shapes, values drawn from the observed values of the same variable and environment, independent bootstrap of source variables, the backend receives the synthetic parent columns in increasing index order and the forest fitted on exactly those parents, bit-identical repeats under a seed (0 included), documented TypeError/ValueError for invalid graph/data/n.')
NOT_YET = {}

GLOBAL_ASSUMPTIONS = [
    'A-REAL: numpy floats are treated as mathematical reals (exact arithmetic); int64 overflow ignored (A-NOOVERFLOW)',
    'A-NUMPY: numpy/builtin model rules of vk/npmodel*.py (conformance-tested against the installed numpy, not proved)',
    'A-VIEWCOPY: table of numpy operations returning views vs fresh arrays',
    'termination of loops and recursion is not proved unless a variant obligation is listed',
    'the VC generator itself (vk/, ~4 kLoC python) is trusted; mitigated by cover obligations, seeded-mutant self-test and the concrete re-evaluation of the same contract text',
]
