"""Property -> cone of functions under contract (tier P), bounded stand-ins (tier B), level and trusted base."""

FILES = {'sempler.utils': 'sempler/utils.py', 'sempler.lganm': 'sempler/lganm.py', 'sempler.anm': 'sempler/anm.py',
         'sempler.normal_distribution': 'sempler/normal_distribution.py', 'sempler.generators': 'sempler/generators.py',
         'sempler.noise': 'sempler/noise.py', 'sempler.functions': 'sempler/functions.py', 'sempler.semi': 'sempler/semi.py'}

U = 'sempler.utils.'
LEAF_REL = [U + x for x in ('pa', 'ch', 'neighbors', 'adj', 'na')]
STRUCT = [U + x for x in ('only_directed', 'only_undirected', 'skeleton', 'induced_subgraph', 'directed_edges', 'undirected_edges',
                          'edge_weights', 'vstructures', 'moral_graph', 'degrees', 'is_clique', 'is_complete')]
TOPO = [U + 'topological_ordering', U + 'is_dag']

TECH = 'contract-based deductive verification (sidecar contracts + loop invariants, AST->VC generator, z3/cvc5)'
NOTE = ('numpy/builtin semantics are model rules (A-NUMPY, conformance-tested); floats are reals; termination not proved; '
        'the VC generator is trusted. Every assumption used is listed in the evidence file.')

PROPS = {
    'C03': dict(level='proof', functions=[U + 'only_undirected', U + 'pa', U + 'ch'] + TOPO, bounded=[],
                design='DESIGN.md §4 C03', technique=TECH, note=NOTE + ' L-MIN (finite non-empty set has a minimal element) is used as a lemma instance.',
                claim='topological_ordering is proved, for every square real matrix and every size, to return a list containing every node once with all edges forward, to raise ValueError exactly when the non-zero pattern has a directed cycle, and to leave its argument untouched (Kahn loop invariants discharged by z3); is_dag == acyclic. Constructor gates are covered by the contracts of their callers (C01/C02/C19).'),
    'C15': dict(level='proof', functions=LEAF_REL, bounded=[], design='DESIGN.md §4 C15', technique=TECH, note=NOTE,
                claim='pa/ch/neighbors/adj/na are proved equal to their set-builder definitions for every square matrix and node (unbounded p); reachability/path functions are being added.'),
    'C16': dict(level='proof', functions=STRUCT + [U + 'pa'], bounded=[], design='DESIGN.md §4 C16', technique=TECH, note=NOTE + ' Cardinality facts L-CARD are asserted per count instance.',
                claim='every structural decomposition (only_directed/only_undirected/skeleton/edge lists/edge_weights/vstructures/moral_graph/induced_subgraph/is_clique/is_complete/degrees) is proved against its first-order definition for all binary PDAGs and signed DAG weight matrices of any size.'),
}
ND = 'sempler.normal_distribution.NormalDistribution.'
PROPS['C05'] = dict(level='proof', functions=[U + 'matrix_block', ND + '__init__', ND + 'marginal', ND + 'conditional'], bounded=[],
                    design='DESIGN.md §4 C05', technique=TECH,
                    note=NOTE + ' A-LINALG (ring/inverse laws over matrix tokens). That the Schur-complement formula is the conditional Gaussian law is the cited lemma L-SCHUR (not mechanised).',
                    claim='marginal/conditional/matrix_block/constructor are proved, for every dimension and all index arrays in any order, to select exactly the requested entries in the requested order, to raise ValueError exactly on size mismatch or overlapping X/Y, to reduce to the marginal when X is empty, and to return mean_Y + C_YX C_XX^-1 (x - mean_X) and C_YY - C_YX C_XX^-1 C_XY over the reals; inputs unmodified, results fresh.')
PROPS['C06'] = dict(level='proof', functions=[ND + 'regress', ND + 'mse', ND + '__init__'], bounded=[],
                    design='DESIGN.md §4 C06', technique=TECH,
                    note=NOTE + ' A-LINALG. Non-negativity, order-invariance, monotonicity and the LGANM causal link are corollaries L-LS/L-GAUSS (cited, cross-checked by the bounded tier only).',
                    claim='regress is proved to return coefficients that vanish outside S and satisfy the normal equations C_SS b_S = C_Sy with intercept mean_y - b.mean, for every dimension and index order; mse is proved to equal var_y + b C b^T - 2 C_y b^T for exactly those coefficients (a deterministic function of covariance, y and S only).')
G = 'sempler.generators.'
PROPS['C11'] = dict(level='proof', functions=[G + 'dag_avg_deg', G + 'dag_full'], bounded=[], design='DESIGN.md §4 C11', technique=TECH,
                    note=NOTE + ' A-RNG: draws are uninterpreted functions of (generator state, arguments, position); uniform(lo,hi) lies in [lo,hi); permutation(p) is a bijection. Independence / uniformity of the draws (the Bernoulli(k/(p-1)) edge law, the random ordering) is the assumed law of numpy, not decided here.',
                    claim='both generators are proved, for all p, k, weight ranges and seeds, to return the p x p matrix W[a,b] = weight[perm a, perm b] if perm a < perm b (and U[perm a, perm b] <= k/(p-1)) else 0: zero diagonal, non-zero entries inside [w_min,w_max], acyclic, no 2-cycles, complete for dag_full when 0 is outside the range; the ordering returned on request is a permutation and a topological order of the returned graph.')
PROPS['C20'] = dict(level='proof', functions=['sempler.noise.normal', 'sempler.noise.uniform', 'sempler.noise.laplace', 'sempler.noise.zero', 'sempler.functions.null'], bounded=[],
                    design='DESIGN.md §4 C20', technique=TECH,
                    note=NOTE + ' A-RNG: the laws of np.random.normal/uniform/laplace (mean, variance, support) are assumed; the contracts pin the data flow into them.',
                    claim='each factory is proved to return a callable whose value on n is exactly the n draws of numpy\'s global generator with the documented parameters (standard deviation sqrt(var) for normal; [lo,hi) for uniform; (mean, scale) for laplace; zeros for zero()), and null() == 0.')
PROPS['C12'] = dict(level='proof', functions=[G + 'intervention_targets'], bounded=[], design='DESIGN.md §4 C12', technique=TECH,
                    note=NOTE + ' A-RNG: integers(lo,hi,K) in [lo,hi); choice(a,s,replace=False) returns s entries at distinct positions and raises ValueError iff s > len(a). L-CARD instances for set difference / interval / distinct lists. That every size and variable occurs over seeds is numpy\'s law (assumed).',
                    claim='intervention_targets is proved (all p>=1, K>=0, sizes/ranges, both replace modes, all seeds) to return exactly K lists of distinct variables of 0..p-1 with length equal to the size or inside the inclusive range, pairwise disjoint without replacement, and to raise ValueError exactly when the tuple has length != 2, max size > p, or max size x K > p without replacement - in particular the inner choice() can never fail (loop invariant card(remaining) >= max x (K-i)).')
TECH_B = ('bounded stand-in (exhaustive enumeration against an independent brute-force oracle, never counted as proved) '
          '+ contract-based deductive verification of the first-order building blocks')
NOTE_B = ('The core claim rests on graph theorems (Chickering labelling, Dor-Tarsi, Meek completeness) that are out of reach of first-order VCs here; '
          'it is decided only on the enumerated domain (bound stated in the evidence). Oracles in vkb/oracles.py share no code with sempler.')
PROPS['C07'] = dict(level='exploration', functions=[], bounded=['vkb.c07'], design='DESIGN.md §4 C07', technique=TECH_B, note=NOTE_B,
                    claim='mec / all_dags / is_consistent_extension / chain shortcut are compared with a brute-force enumeration of Markov equivalence classes and consistent extensions on every DAG and every PDAG with acyclic directed part up to the stated bound (quick p<=4, thorough p<=5, chains to 12), incl. signed-weight inputs.')
PROPS['C08'] = dict(level='exploration', functions=[], bounded=['vkb.c08'], design='DESIGN.md §4 C08', technique=TECH_B, note=NOTE_B,
                    claim='dag_to_cpdag / pdag_to_cpdag are compared entry-wise with the essential graph computed by brute force for every DAG / PDAG up to the bound; ValueError iff no extension exists.')
PROPS['C09'] = dict(level='exploration', functions=[], bounded=['vkb.c09'], design='DESIGN.md §4 C09', technique=TECH_B, note=NOTE_B,
                    claim='pdag_to_dag / has_consistent_extension / maximally_orient are compared with the brute-force extension set of every PDAG up to the bound (soundness, completeness, unchanged extension set, inputs untouched).')
PROPS['C10'] = dict(level='exploration', functions=[], bounded=['vkb.c10'], design='DESIGN.md §4 C10', technique=TECH_B, note=NOTE_B,
                    claim='imec / dag_to_icpdag / pdag_to_icpdag / chain shortcut are compared with the brute-force interventional class for every DAG x target set up to the bound.')
PROPS['C15']['bounded'] = ['vkb.c15']
PROPS['C15']['note'] += ' semi_directed_paths / separates / chain_component / ancestors / descendants / transitive_closure are decided by the bounded stand-in only (recursive / explicit-stack code).'
PROPS['C18'] = dict(level='exploration', functions=[], bounded=['vkb.c18'], design='DESIGN.md §4 C18', technique=TECH_B,
                    note='Greedy insertion always reaching the requested count needs a graph lemma that is not mechanised: bounded only.',
                    claim='add_edges / remove_edges are run on every DAG up to the bound (binary and signed), every count from 0 to one past the feasible maximum and several seeds: exact edge counts, sub/supergraph, acyclicity, ValueError exactly when infeasible, determinism, input untouched.')
NOT_YET = {}

GLOBAL_ASSUMPTIONS = [
    'A-REAL: numpy floats are treated as mathematical reals (exact arithmetic); int64 overflow ignored (A-NOOVERFLOW)',
    'A-NUMPY: numpy/builtin model rules of vk/npmodel*.py (conformance-tested against the installed numpy, not proved)',
    'A-VIEWCOPY: table of numpy operations returning views vs fresh arrays',
    'termination of loops and recursion is not proved unless a variant obligation is listed',
    'the VC generator itself (vk/, ~4 kLoC python) is trusted; mitigated by cover obligations, seeded-mutant self-test and the concrete re-evaluation of the same contract text',
]
