"""Frame / freshness obligations by ownership analysis (C14) for module-level functions whose bodies the VC generator does not interpret.

Contract of every function analysed here (the default contract of C14): `modifies()` - no object reachable from an argument or a
module global is written - and `fresh(result)` - nothing reachable from the result is reachable from an argument or a global
(exceptions: ALLOWED).  The obligations are discharged by a flow-sensitive, value-blind abstract interpretation of the *real*
FunctionDef (re-read from /repo on every run).  Every name maps to the set of REGIONS it may reference:

    S              immutable scalar / None / string / function
    F@<line>.<col> an object created at that allocation site inside the function
    P:<param>      the caller's object passed as <param> (and, unless the contract sort says otherwise, whatever it contains)
    G:<name>       a module-level mutable object
    U              unknown (result of a call that is in none of the tables)

plus a flow-insensitive CONTENTS map region -> regions stored inside it (python containers and object arrays hold references;
numeric arrays hold values), and must-markers from the contract sorts (A1/A2/A3: numeric array of that rank; ES / EA: container
whose elements are scalars / numeric arrays).  Views (basic slices, .T, asarray, reshape ...) keep the region of their base;
advanced indexing, arithmetic, .copy(), np.array ... allocate.

One obligation per mutation site (`x[..] = v`, augmented assignment, mutating method, callee that writes to a parameter) and one per
`return`.  discharged: the written object is created inside the function and never stored into caller / module containers; the
returned object and everything reachable from it likewise.  NOT discharged: a caller / module region is involved.  NO VERDICT
(the function is then simply not claimed): U is involved, module-level state is written (a cache: harmlessness is not a frame
question), a call / construct is in none of the tables.  Assumption: the tables below (A-VIEWCOPY).
"""
import ast

S, U = 'S', 'U'
ELS, ELA = 'ES', 'EA'
ARR = ('A', 'A1', 'A2', 'A3')
MARK = ARR + (ELS, ELA)

FRESH_NP = {'array', 'zeros', 'ones', 'zeros_like', 'ones_like', 'empty', 'empty_like', 'eye', 'diag', 'arange', 'where', 'logical_and', 'logical_or',
            'logical_not', 'sum', 'all', 'any', 'unique', 'hstack', 'vstack', 'repeat', 'prod', 'delete', 'triu', 'tril', 'abs', 'argmax', 'argmin',
            'unravel_index', 'isclose', 'allclose', 'copy', 'sort', 'argsort', 'cumsum', 'mean', 'cov', 'round', 'minimum', 'maximum', 'exp', 'sin',
            'interp', 'average', 'sqrt', 'outer', 'dot', 'matmul', 'concatenate', 'stack', 'column_stack', 'triu_indices', 'array_equal',
            'count_nonzero', 'isin', 'nonzero', 'full', 'linspace', 'log', 'floor', 'ceil', 'sign', 'power', 'cos', 'var', 'std', 'median', 'max', 'min',
            'flatnonzero', 'identity', 'tile', 'isnan', 'isfinite'}
VIEW_NP = {'asarray', 'atleast_1d', 'atleast_2d', 'transpose', 'ravel', 'reshape', 'squeeze', 'ascontiguousarray', 'asanyarray', 'swapaxes', 'diagonal'}
FRESH_METHODS = {'sum', 'all', 'any', 'tolist', 'mean', 'max', 'min', 'argmax', 'argmin', 'nonzero', 'flatten', 'cumsum', 'round',
                 'dot', 'prod', 'std', 'var', 'union', 'intersection', 'difference', 'issubset', 'issuperset', 'index', 'count',
                 'format', 'join', 'split', 'to_numpy', 'multiply', 'apply', 'isdisjoint', 'symmetric_difference', 'tobytes', 'item'}
ELEMENT_METHODS = {'get', 'values', 'items', 'keys'}        # hand out what the container holds
VIEW_METHODS = {'reshape', 'ravel', 'transpose', 'view', 'squeeze', 'swapaxes', 'diagonal'}
MUT_METHODS = {'append', 'pop', 'remove', 'add', 'discard', 'update', 'extend', 'insert', 'sort', 'fill', 'clear', 'reverse', 'setdefault', 'popitem',
               'put', 'itemset', 'resize', 'difference_update', 'intersection_update'}
SCALAR_ATTRS = {'shape', 'size', 'ndim', 'dtype', 'p', 'e', 'inf', 'pi', 'nan', 'byte'}
PURE_BUILTINS = {'len', 'int', 'float', 'bool', 'range', 'round', 'abs', 'isinstance', 'type', 'print', 'str', 'repr', 'hash', 'id', 'ord', 'chr', 'callable'}
CONTAINER_BUILTINS = {'list', 'tuple', 'set', 'dict', 'zip', 'enumerate', 'reversed', 'filter', 'map', 'sorted', 'frozenset', 'iter', 'next', 'min', 'max', 'sum', 'any', 'all'}
RNG_FRESH = {'uniform', 'integers', 'permutation', 'choice', 'normal', 'random', 'standard_normal', 'laplace', 'multivariate_normal', 'binomial', 'default_rng', 'seed', 'get_state'}
RNG_MUT = {'shuffle'}
ND = {'Arr1': 1, 'Arr2': 2, 'Arr3': 3, 'Arr1i': 1, 'Arr2i': 2, 'Arr2o': 2, 'Arr1b': 1, 'Arr2b': 2}

ALLOWED = {'sempler.utils.cartesian': {'out'}}       # documented output buffer (C14 statement)
# parameter kinds of the helpers that have no sidecar contract (same status as the contract sorts: the documented argument kinds)
HINTS = {'sempler.utils.cartesian': {'arrays': 'EA', 'out': 'A2', 'dtype': 'S'},
         'sempler.utils.combinations': {'p': 'S', 'target': 'S', 'empty': 'S'},
         'sempler.utils.sort': {'L': 'ES', 'order': 'ES'}, 'sempler.utils.subsets': {'S': 'ES'}, 'sempler.utils.sorted_tuple': {'iterable': 'ES'},
         'sempler.utils.member': {'L': 'EA', 'A': 'A'}, 'sempler.utils.all_but': {'k': 'S', 'p': 'S'},
         'sempler.utils.argmin': {'array': 'A'}, 'sempler.utils.argmax': {'array': 'A'},
         'sempler.utils.delete': {'array': 'A', 'mask': 'A1', 'axis': 'S'},
         'sempler.utils.allclose': {'A': 'A', 'B': 'A', 'rtol': 'S', 'atol': 'S'},
         'sempler.utils.same_normal': {'sample_a': 'A2', 'sample_b': 'A2', 'atol': 'S', 'debug': 'S'},
         'sempler.utils.nonzero': {'A': 'A1', 'tol': 'S'}, 'sempler.utils.is_supergraph': {'sup': 'A2', 'A': 'A2'},
         'sempler.utils.has_subgraph': {'L1': 'EA', 'L2': 'EA'}, 'sempler.utils.has_supergraph': {'L1': 'EA', 'L2': 'EA'},
         'sempler.utils.are_forward_neighbors': {'P1': 'A2', 'P2': 'A2', 'x': 'S', 'y': 'S'}, 'sempler.utils.are_backward_neighbors': {'P1': 'A2', 'P2': 'A2', 'x': 'S', 'y': 'S'},
         'sempler.utils.to_factorization': {'G': 'A2'}, 'sempler.utils.sampling_matrix': {'W': 'A2'}}


class Abstain(Exception):
    pass


def strip(v):
    return frozenset(r for r in v if r not in MARK)


def is_arr(v):
    return any(m in v for m in ARR)


def ndim_of(v):
    for k, m in ((1, 'A1'), (2, 'A2'), (3, 'A3')):
        if m in v:
            return k
    return None


def arr(k=None):
    return 'A%d' % k if k in (1, 2, 3) else 'A'


def fresh(r):
    return r.startswith('F@')


def outer(r):
    return r.startswith('P:') or r.startswith('G:')


class Analysis:
    def __init__(self, prog):
        self.prog = prog
        self.scalars, self.arrays, self.elems = {}, {}, {}
        self.summaries = {}
        self.active = []
        self.recursive = set()
        self.ctx = None

    # ------------------------------------------------------------------ public
    def analyse(self, q):
        """-> dict(status='ok'|'abstain', why, obligations=[{id, kind, line, text, ok}], mut, ret, retc, params)"""
        if q in self.summaries:
            return self.summaries[q]
        fi = self.prog.funcs.get(q)
        if fi is None:
            r = {'status': 'abstain', 'why': 'function %s no longer exists' % q, 'obligations': []}
            self.summaries[q] = r
            return r
        params = [a.arg for a in fi.node.args.args + fi.node.args.kwonlyargs]
        if q in self.active:
            # recursive call: provisional summary (writes only the allowed buffer, returns a fresh object); checked against the final one
            self.recursive.add(q)
            al = set(ALLOWED.get(q, ()))
            return {'status': 'ok', 'why': '', 'obligations': [], 'mut': set(al), 'ret': {'F'} | {'P:' + a for a in al}, 'retc': set(), 'params': params}
        self.active.append(q)
        saved = self.ctx
        try:
            r = self._analyse(q, fi, params)
        except Abstain as a:
            r = {'status': 'abstain', 'why': str(a), 'obligations': [], 'mut': set(), 'ret': {U}, 'retc': set(), 'params': params}
        finally:
            self.active.pop()
            self.ctx = saved
        al = {'P:' + a for a in ALLOWED.get(q, ())}
        if q in self.recursive and r['status'] == 'ok' and (r['mut'] - set(ALLOWED.get(q, ())) or not all(x == 'F' or x == S or x in al for x in r['ret']) or r['retc'] - al):
            r = dict(r, status='abstain', why='recursive function whose summary is not (writes nothing, returns a fresh object)')
        self.summaries[q] = r
        return r

    # ------------------------------------------------------------------ core
    def _analyse(self, q, fi, params):
        node = fi.node
        if node.decorator_list:
            raise Abstain('decorated function')
        if node.args.vararg or node.args.kwarg:
            raise Abstain('*args / **kwargs')
        c = self.ctx = type('Ctx', (), {})()
        c.q, c.mod, c.events, c.rets, c.cont, c.kinds = q, fi.module, [], [], {}, {}
        env = {}
        for p in params:
            if p in self.scalars.get(q, ()):
                env[p] = frozenset({S})
                continue
            v = {'P:' + p}
            if p in self.arrays.get(q, {}):
                v.add(arr(self.arrays[q][p]))
            if p in self.elems.get(q, {}):
                v.add(self.elems[q][p])
                if self.elems[q][p] == ELA:
                    c.cont['P:' + p] = {'P:' + p}
            else:
                c.cont['P:' + p] = {'P:' + p}          # whatever the caller's object holds belongs to the caller as well
            env[p] = frozenset(v)
        defaults = node.args.defaults
        for p, d in zip(params[len(params) - len(defaults):], defaults):
            if isinstance(d, (ast.List, ast.Dict, ast.Set, ast.Call)):
                env[p] = env[p] | {'G:default-' + p}       # a mutable default persists across calls: module state
        for _ in range(6):          # contents are flow-insensitive: iterate until they are stable
            before = {k: set(v) for k, v in c.cont.items()}
            c.events, c.rets = [], []
            out = self.block(node.body, dict(env))
            if out is not None:
                c.rets.append((node.lineno, frozenset({S})))
            if before == c.cont:
                break
        else:
            raise Abstain('contents do not stabilise')
        allowed = {'P:' + a for a in ALLOWED.get(q, ())}
        escaped = self.reach({r for r in c.cont if outer(r)}, skip_self=True)      # objects stored into caller / module containers
        obls, mut = [], set()
        for k, (line, what, regs) in enumerate(c.events):
            regs = strip(regs) - {S}
            if U in regs:
                raise Abstain('line %d: %s writes to an object of unknown origin' % (line, what))
            if any(r.startswith('G:') for r in regs):
                raise Abstain('line %d: %s writes module-level state (%s)' % (line, what, ', '.join(sorted(r for r in regs if r.startswith('G:')))))
            bad = sorted(r for r in regs if (outer(r) and r not in allowed) or (fresh(r) and r in escaped))
            mut |= {r[2:] for r in regs if r.startswith('P:')}
            obls.append({'id': '%s/frameA:%d' % (q, k), 'kind': 'frame', 'line': line, 'ok': not bad,
                         'text': '%s (line %d) writes only to objects created in the function%s' % (what, line, '' if not bad else ': may write to ' + ', '.join(bad))})
        ret, retc = set(), set()
        for j, (line, regs) in enumerate(c.rets):
            own = strip(regs) - {S}
            deep = self.reach(own)
            if U in deep:
                raise Abstain('line %d: returns an object of unknown origin' % line)
            bad = sorted(r for r in deep if (outer(r) and r not in allowed) or (fresh(r) and r in escaped))
            ret |= {('F' if fresh(r) else r) for r in own} or {S}
            retc |= {r for r in deep - own if outer(r)}
            obls.append({'id': '%s/freshA:%d' % (q, j), 'kind': 'fresh', 'line': line, 'ok': not bad,
                         'text': 'nothing reachable from the value returned at line %d is reachable from an argument or from module state%s' % (line, '' if not bad else ': may alias ' + ', '.join(bad))})
        return {'status': 'ok', 'why': '', 'obligations': obls, 'mut': mut, 'ret': ret, 'retc': retc, 'params': params}

    def reach(self, regs, skip_self=False):
        c = self.ctx
        seen, todo = set(), list(regs)
        first = set(regs)
        while todo:
            r = todo.pop()
            for x in c.cont.get(r, ()):
                if x not in seen and x != S:
                    seen.add(x)
                    todo.append(x)
        return seen if skip_self else (seen | first)

    def store(self, cregs, vregs):
        """the container(s) `cregs` now hold the objects `vregs`"""
        c = self.ctx
        for r in strip(cregs):
            if r in (S, U):
                continue
            c.cont.setdefault(r, set()).update(x for x in strip(vregs) if x != S)

    def contents(self, v):
        c = self.ctx
        if ELS in v:
            return frozenset({S})
        out = set()
        for r in strip(v):
            if r == U:
                out.add(U)
            out |= c.cont.get(r, set())
        res = frozenset(out or {S})
        return (res | {'A'}) if (ELA in v and res - {S}) else res

    def elem(self, v):
        """what iteration / unpacking / a scalar index yields"""
        if is_arr(v):
            k = ndim_of(v)
            if k == 1:
                return frozenset({S})
            return frozenset(strip(v) | {arr(k - 1 if k else None)})          # a row: a view
        if v <= {S}:
            return frozenset({S})
        if ELS in v or ELA in v or self.definitely_container(v):
            return self.contents(v)
        return frozenset(self.contents(v) | (strip(v) - {S}))                 # unknown kind: an element, or a view of the object itself

    def definitely_container(self, v):
        rs = strip(v) - {S}
        return bool(rs) and all(self.ctx.kinds.get(r) == 'container' for r in rs)

    def new(self, node, kind=None, tag=''):
        r = 'F@%d.%d%s' % (getattr(node, 'lineno', 0), getattr(node, 'col_offset', 0), tag)
        if kind:
            self.ctx.kinds[r] = kind
        return r

    def join(self, a, b):
        if a is None:
            return b
        if b is None:
            return a
        out = {}
        for k in set(a) | set(b):
            x, y = a.get(k), b.get(k)
            if x is None or y is None:
                out[k] = strip(x if y is None else y)
                continue
            u = set(strip(x) | strip(y))
            if is_arr(x) and is_arr(y):
                u.add(arr(ndim_of(x) if ndim_of(x) == ndim_of(y) else None))
            for mk in (ELS, ELA):
                if mk in x and mk in y:
                    u.add(mk)
            out[k] = frozenset(u)
        return out

    def block(self, body, env):
        for st in body:
            if env is None:
                return None
            env = self.stmt(st, env)
        return env

    def mutate(self, node, what, regs):
        regs = frozenset(r for r in strip(regs) if r != S)
        if regs:
            self.ctx.events.append((node.lineno, what, regs))

    def root(self, t):
        while isinstance(t, (ast.Subscript, ast.Attribute)):
            t = t.value
        return t

    def stmt(self, st, env):
        env = dict(env)
        c = self.ctx
        if isinstance(st, (ast.Pass, ast.Import, ast.ImportFrom, ast.Break, ast.Continue, ast.Delete)):
            return env
        if isinstance(st, ast.Expr):
            self.ev(st.value, env)
            return env
        if isinstance(st, ast.Assign):
            v = self.ev(st.value, env)
            for t in st.targets:
                self.assign(t, v, env, st)
            return env
        if isinstance(st, ast.AugAssign):
            v = self.ev(st.value, env)
            t = st.target
            if isinstance(t, ast.Name):
                cur = env.get(t.id, frozenset({U}))
                if cur <= {S}:
                    env[t.id] = frozenset({S}) if v <= {S} else frozenset({self.new(st)} | ({arr(ndim_of(v))} if is_arr(v) else set()))
                else:
                    self.mutate(st, 'augmented assignment to %s' % t.id, cur)        # in place for arrays, lists, sets
                    if not is_arr(cur):
                        self.store(cur, self.contents(v) if not is_arr(v) else v)     # list += list / set |= set: the elements are shared
            else:
                self.mutate(st, 'augmented assignment to %s' % ast.unparse(t)[:40], self.ev(self.root(t), env))
            return env
        if isinstance(st, ast.Return):
            c.rets.append((st.lineno, self.ev(st.value, env) if st.value is not None else frozenset({S})))
            return None
        if isinstance(st, ast.Raise):
            if st.exc is not None:
                self.ev(st.exc, env)
            return None
        if isinstance(st, ast.Assert):
            self.ev(st.test, env)
            return env
        if isinstance(st, ast.If):
            self.ev(st.test, env)
            return self.join(self.block(st.body, env), self.block(st.orelse, env))
        if isinstance(st, (ast.For, ast.While)):
            cur = env
            for _ in range(6):
                e2 = dict(cur)
                if isinstance(st, ast.For):
                    self.iter_assign(st.target, st.iter, e2, st)
                else:
                    self.ev(st.test, e2)
                n0 = len(c.events), len(c.rets)
                after = self.block(st.body, e2)
                nxt = self.join(cur, after)
                if nxt == cur:
                    break
                del c.events[n0[0]:]
                del c.rets[n0[1]:]
                cur = nxt
            else:
                raise Abstain('loop at line %d does not stabilise' % st.lineno)
            if st.orelse:
                cur = self.join(cur, self.block(st.orelse, cur))
            return cur
        if isinstance(st, ast.Try):
            a = self.block(st.body, env)
            res = a
            for h in st.handlers:
                e2 = dict(self.join(env, a) or env)
                if h.name:
                    e2[h.name] = frozenset({S})
                res = self.join(res, self.block(h.body, e2))
            if st.finalbody and res is not None:
                res = self.block(st.finalbody, res)
            return res
        raise Abstain('statement %s at line %d' % (type(st).__name__, st.lineno))

    def iter_assign(self, target, it, env, st):
        """bind the loop target to what iterating `it` yields; enumerate / zip with a tuple target are bound position-wise"""
        if isinstance(it, ast.Call) and isinstance(it.func, ast.Name) and it.func.id in ('enumerate', 'zip') and it.func.id not in env \
                and isinstance(target, (ast.Tuple, ast.List)) and not it.keywords:
            vals = [self.elem(self.ev(a, env)) for a in it.args]
            if it.func.id == 'enumerate' and len(target.elts) == 2 and len(vals) == 1:
                vals = [frozenset({S}), vals[0]]
            if len(vals) == len(target.elts):
                for x, v in zip(target.elts, vals):
                    self.assign(x, v, env, st)
                return
        self.assign(target, self.elem(self.ev(it, env)), env, st)

    def assign(self, t, v, env, st):
        if isinstance(t, ast.Name):
            env[t.id] = v
        elif isinstance(t, (ast.Tuple, ast.List)):
            ve = self.elem(v)
            for x in t.elts:
                self.assign(x.value if isinstance(x, ast.Starred) else x, ve, env, st)
        elif isinstance(t, (ast.Subscript, ast.Attribute)):
            regs = self.ev(self.root(t), env)
            if isinstance(t, ast.Subscript):
                self.ev(t.slice, env)
            self.mutate(st, 'assignment to %s' % ast.unparse(t)[:40], regs)
            if not is_arr(regs):
                self.store(regs, v)
        else:
            raise Abstain('assignment target %s' % type(t).__name__)

    # ------------------------------------------------------------------ expressions
    def ev(self, e, env):
        c = self.ctx
        if e is None or isinstance(e, (ast.Constant, ast.Lambda, ast.JoinedStr)):
            return frozenset({S})
        if isinstance(e, ast.Name):
            if e.id in env:
                return env[e.id]
            if e.id in ('True', 'False', 'None') or e.id in PURE_BUILTINS or e.id in CONTAINER_BUILTINS or e.id.endswith('Error') or e.id == 'Exception':
                return frozenset({S})
            if '%s.%s' % (c.mod, e.id) in self.prog.funcs or e.id in self.prog.imports.get(c.mod, {}):
                return frozenset({S})
            if e.id in self.prog.consts.get(c.mod, {}):
                k = self.prog.consts[c.mod][e.id]
                return frozenset({S}) if isinstance(k, (int, float, str, bool, tuple, type(None))) else frozenset({'G:' + e.id})
            for n in self.prog.modules[c.mod].body:
                if isinstance(n, ast.Assign) and any(isinstance(t, ast.Name) and t.id == e.id for t in n.targets):
                    return frozenset({'G:' + e.id})
                if isinstance(n, ast.ClassDef) and n.name == e.id:
                    return frozenset({S})
            raise Abstain('unbound name %s (line %d)' % (e.id, e.lineno))
        if isinstance(e, (ast.Tuple, ast.List, ast.Set)):
            vals = [self.ev(x.value if isinstance(x, ast.Starred) else x, env) for x in e.elts]
            if isinstance(e, ast.Tuple) and all(v <= {S} for v in vals):
                return frozenset({S})
            r = self.new(e, 'container')
            for v in vals:
                self.store({r}, v)
            return frozenset({r})
        if isinstance(e, ast.Dict):
            r = self.new(e, 'container')
            for x in list(e.keys) + list(e.values):
                if x is not None:
                    self.store({r}, self.ev(x, env))
            return frozenset({r})
        if isinstance(e, (ast.ListComp, ast.SetComp, ast.GeneratorExp, ast.DictComp)):
            e2 = dict(env)
            for g in e.generators:
                self.iter_assign(g.target, g.iter, e2, e)
                for cnd in g.ifs:
                    self.ev(cnd, e2)
            r = self.new(e, 'container')
            if isinstance(e, ast.DictComp):
                self.store({r}, self.ev(e.key, e2))
                self.store({r}, self.ev(e.value, e2))
            else:
                self.store({r}, self.ev(e.elt, e2))
            return frozenset({r})
        if isinstance(e, (ast.BinOp, ast.UnaryOp, ast.Compare)):
            vs = ([self.ev(e.left, env), self.ev(e.right, env)] if isinstance(e, ast.BinOp) else [self.ev(e.operand, env)] if isinstance(e, ast.UnaryOp)
                  else [self.ev(e.left, env)] + [self.ev(x, env) for x in e.comparators])
            if any(is_arr(v) for v in vs):
                return frozenset({self.new(e), arr(max((ndim_of(v) or 0) for v in vs) or None)})
            if all(v <= {S} for v in vs):
                return frozenset({S})
            r = self.new(e)
            if isinstance(e, ast.BinOp) and isinstance(e.op, (ast.Add, ast.BitOr, ast.BitAnd, ast.Sub, ast.Mult)):
                for v in vs:          # list + list, set | set, list * k: a new container sharing the elements
                    if not is_arr(v):
                        self.store({r}, self.contents(v))
            return frozenset({r})
        if isinstance(e, ast.BoolOp):
            out = set()
            for x in e.values:
                out |= strip(self.ev(x, env))
            return frozenset(out)
        if isinstance(e, ast.IfExp):
            self.ev(e.test, env)
            return self.join({'x': self.ev(e.body, env)}, {'x': self.ev(e.orelse, env)})['x']
        if isinstance(e, ast.Subscript):
            base = self.ev(e.value, env)
            comps = list(e.slice.elts) if isinstance(e.slice, ast.Tuple) else [e.slice]
            cv = [(x, self.ev(x, env)) for x in comps]
            if base <= {S}:
                return frozenset({S})
            if is_arr(base):
                k = ndim_of(base)
                if any((not isinstance(x, ast.Slice)) and not v <= {S} for x, v in cv):
                    return frozenset({self.new(e), 'A'})            # an index that is itself an array / list: advanced indexing copies
                nsc = sum(1 for x, v in cv if not isinstance(x, ast.Slice))
                if k is not None and nsc == k and len(cv) == k:
                    return frozenset({S})
                return frozenset(strip(base) | {arr(k - nsc if k is not None and k - nsc >= 1 else None)})      # basic indexing: a view
            if any(isinstance(x, ast.Slice) for x in comps):
                r = self.new(e)           # a slice of a list is a new list with the same elements; of an array of unknown kind a view
                self.store({r}, self.contents(base))
                return frozenset({r} | (set() if self.definitely_container(base) or ELS in base or ELA in base else strip(base) - {S}))
            return self.elem(base)
        if isinstance(e, ast.Slice):
            for x in (e.lower, e.upper, e.step):
                if x is not None:
                    self.ev(x, env)
            return frozenset({S})
        if isinstance(e, ast.Attribute):
            if isinstance(e.value, ast.Name) and e.value.id in self.prog.imports.get(c.mod, {}) and e.value.id not in env:
                return frozenset({S})
            base = self.ev(e.value, env)
            if e.attr in SCALAR_ATTRS:
                return frozenset({S})
            return base if e.attr in ('T', 'real') else frozenset(strip(base) | (self.contents(base) - {S}))
        if isinstance(e, ast.Starred):
            return self.ev(e.value, env)
        if isinstance(e, ast.Call):
            return self.call(e, env)
        raise Abstain('expression %s at line %d' % (type(e).__name__, getattr(e, 'lineno', 0)))

    def call(self, e, env):
        c = self.ctx
        args = [self.ev(a, env) for a in e.args]
        kws = {k.arg: self.ev(k.value, env) for k in e.keywords if k.arg}
        if 'out' in kws:
            self.mutate(e, 'out= argument of %s' % ast.unparse(e.func)[:30], kws['out'])
        f = e.func
        name = ast.unparse(f)
        imports = self.prog.imports.get(c.mod, {})

        def shared_container():
            r = self.new(e, 'container')
            for a in args:
                self.store({r}, self.elem(a) if not a <= {S} else a)
            return frozenset({r})
        if isinstance(f, ast.Name):
            if f.id in env:
                return frozenset({U})           # a parameter / local callable: opaque
            if f.id in PURE_BUILTINS or f.id.endswith('Error') or f.id in ('Exception', 'Warning'):
                return frozenset({S})
            if f.id in CONTAINER_BUILTINS:
                return shared_container()
            target = '%s.%s' % (c.mod, f.id)
            if target not in self.prog.funcs and f.id in imports:
                target = imports[f.id]
                if target.startswith('functools.') or target.startswith('itertools.'):
                    return shared_container()
                if target.startswith('copy.deepcopy'):
                    return frozenset({self.new(e)})
            return self.lib_call(target, e, args, kws)
        if isinstance(f, ast.Attribute):
            chain = name.split('.')
            head = chain[0]
            if head in imports and head not in env:
                full = imports[head] + '.' + '.'.join(chain[1:])
                if full.startswith('numpy.'):
                    fn = chain[-1]
                    if 'random' in chain[1:-1]:
                        if fn in RNG_MUT:
                            self.mutate(e, '%s(...)' % name, args[0] if args else frozenset({U}))
                            return frozenset({S})
                        if fn == 'default_rng':
                            return frozenset({self.new(e)})
                        if fn in RNG_FRESH:
                            return frozenset({self.new(e), 'A'})
                        raise Abstain('numpy.random.%s is in no table (line %d)' % (fn, e.lineno))
                    if 'linalg' in chain[1:-1]:
                        return frozenset({self.new(e), 'A'})
                    if fn in ('zeros_like', 'ones_like', 'empty_like', 'abs', 'logical_not', 'triu', 'tril', 'copy', 'round', 'sign') and args and is_arr(args[0]):
                        return frozenset({self.new(e), arr(ndim_of(args[0]))})
                    if fn in ('where', 'unravel_index', 'triu_indices', 'nonzero'):
                        r, r2 = self.new(e, 'container'), self.new(e, None, 'i')
                        self.store({r}, {r2})
                        return frozenset({r})           # a tuple of fresh index arrays
                    if fn in ('array', 'empty') and any(k.arg == 'dtype' and ast.unparse(k.value) == 'object' for k in e.keywords):
                        return shared_container()       # object arrays hold references
                    if fn in FRESH_NP:
                        return frozenset({self.new(e), 'A'})
                    if fn in VIEW_NP:
                        a0 = args[0] if args else frozenset()
                        return frozenset({self.new(e), arr(ndim_of(a0) if fn in ('asarray', 'transpose', 'ascontiguousarray', 'asanyarray') else None)} | (strip(a0) - {S}))
                    raise Abstain('numpy.%s is in no table (line %d)' % (fn, e.lineno))
                if full.startswith('itertools.') or full.startswith('functools.'):
                    return shared_container()
                if full.startswith('copy.deepcopy'):
                    return frozenset({self.new(e)})
                if full.startswith('copy.copy'):
                    r = self.new(e)
                    self.store({r}, self.contents(args[0]) if args else {S})
                    return frozenset({r})
                if full.startswith('time.') or full.startswith('math.'):
                    return frozenset({S})
                if full.startswith('sempler.'):
                    return self.lib_call(full, e, args, kws)
                raise Abstain('call of %s is in no table (line %d)' % (full, e.lineno))
            recv = self.ev(f.value, env)
            m = f.attr
            if m in RNG_MUT:
                self.mutate(e, '%s(...)' % name[:40], args[0] if args else frozenset({U}))
                return frozenset({S})
            if m in RNG_FRESH and not is_arr(recv):
                return frozenset({self.new(e), 'A'})
            if m in MUT_METHODS:
                self.mutate(e, '%s(...)' % name[:40], recv)
                if not is_arr(recv):
                    for a in args:
                        self.store(recv, (self.contents(a) | a) if m in ('extend', 'update', 'difference_update', 'intersection_update') else a)
                return self.contents(recv) if m in ('pop', 'popitem', 'setdefault') else frozenset({S})
            if m in ('copy', 'astype'):
                if is_arr(recv) or m == 'astype':
                    return frozenset({self.new(e), arr(ndim_of(recv))})
                r = self.new(e)
                self.store({r}, self.contents(recv))         # shallow copy of a python container: same elements
                return frozenset({r})
            if m in ELEMENT_METHODS:
                r = self.new(e, 'container')
                self.store({r}, self.contents(recv))
                return frozenset({r} | (self.contents(recv) - {S} if m == 'get' else set()))
            if m in FRESH_METHODS:
                r = self.new(e)
                if m in ('union', 'intersection', 'difference', 'symmetric_difference', 'tolist'):
                    self.store({r}, self.contents(recv))
                    for a in args:
                        self.store({r}, self.contents(a))
                return frozenset({r} | ({'A'} if is_arr(recv) and m in ('flatten', 'cumsum', 'round', 'dot') else set()))
            if m in VIEW_METHODS:
                return recv
            raise Abstain('method .%s() is in no table (line %d)' % (m, e.lineno))
        raise Abstain('call of %s (line %d)' % (name[:30], e.lineno))

    def lib_call(self, target, e, args, kws):
        if target not in self.prog.funcs:
            raise Abstain('call of %s, which is not a function of the analysed modules (line %d)' % (target, e.lineno))
        summ = self.analyse(target)
        if summ['status'] != 'ok':
            raise Abstain('callee %s: %s' % (target.rsplit('.', 1)[-1], summ['why']))
        bound = dict(zip(summ['params'], args))
        bound.update(kws)
        for p in summ['mut']:
            if p in bound:
                deep = frozenset(self.reach(strip(bound[p]) - {S}))
                self.mutate(e, 'call of %s, which writes to its parameter %s' % (target.rsplit('.', 1)[-1], p), deep | strip(bound[p]))
        out = set()
        r = None
        for x in summ['ret']:
            if x.startswith('P:'):
                out |= strip(bound.get(x[2:], frozenset()))
            elif x == 'F':
                r = self.new(e)
                out.add(r)
            elif x != S:
                out.add(x)
        if r is not None:
            for x in summ['retc']:
                if x.startswith('P:'):
                    b = bound.get(x[2:], frozenset())
                    self.store({r}, strip(b) | self.contents(b))
                else:
                    self.store({r}, {x})
        return frozenset(out or {S})


def from_contracts(prog, db):
    """parameter kinds come from the sorts of the sidecar contracts (Int / Real / Bool / Callable are immutable; ArrN are numeric arrays;
    SetOf(Int), ListOf(Int|Real) hold scalars; ListOf(ArrN) holds arrays)"""
    an = Analysis(prog)
    for q, cs in db.contracts.items():
        ps = [(p, ast.unparse(a).replace(' ', '')) for p, a in cs[0].params if a is not None]
        an.scalars[q] = {p for p, t in ps if t in ('Int', 'Real', 'Bool', 'Callable')}
        an.arrays[q] = {p: ND[t] for p, t in ps if t in ND}
        an.elems[q] = {p: (ELS if t in ('SetOf(Int)', 'ListOf(Int)', 'ListOf(Real)') else ELA) for p, t in ps
                       if t in ('SetOf(Int)', 'ListOf(Int)', 'ListOf(Real)') or (t.startswith('ListOf(Arr') and t[7:-1] in ND)}
    for q, hs in HINTS.items():
        if q in db.contracts:
            continue
        an.scalars[q] = {p for p, t in hs.items() if t == 'S'}
        an.arrays[q] = {p: {'A': None, 'A1': 1, 'A2': 2, 'A3': 3}[t] for p, t in hs.items() if t in ('A', 'A1', 'A2', 'A3')}
        an.elems[q] = {p: t for p, t in hs.items() if t in (ELS, ELA)}
    return an
