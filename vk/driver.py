"""./check <property> --tier quick|thorough [--replay file] [--relock]

Decides one property: generates VCs from /repo's current working tree, discharges
them, runs the bounded stand-ins, searches / replays counterexamples natively,
writes evidence/<id>.json.  Exit 0 held / 1 violation / 2 undecided / 3 checker error.
"""
import argparse
import hashlib
import json
import os
import subprocess
import sys
import tempfile
import time
import traceback

HERE = os.path.dirname(os.path.dirname(os.path.abspath(__file__)))
REPO = os.environ.get('VK_REPO', '/repo')
VENV_PY = os.environ.get('VK_PY', '/venv/bin/python')
LOCK = os.path.join(HERE, 'obligations.lock.json')
KNOWN = os.path.join(HERE, 'known_findings.json')


def load_json(path, default):
    try:
        return json.load(open(path))
    except Exception:
        return default


def native(args, timeout=3600, env_extra=None):
    env = dict(os.environ)
    env['PYTHONPATH'] = os.pathsep.join([REPO, os.path.join(HERE, 'fake_rpy2'), HERE])
    env.update(env_extra or {})
    p = subprocess.run([VENV_PY] + args, capture_output=True, text=True, timeout=timeout, cwd=REPO, env=env)
    return p


def last_json(text):
    for line in reversed(text.strip().splitlines()):
        line = line.strip()
        if line.startswith('{') or line.startswith('['):
            try:
                return json.loads(line)
            except Exception:
                continue
    return None


def run_property(pid, tier, seed, relock=False, verbose=False):
    from vk.engine import Program
    from vk.contracts import ContractDB
    from vk.verify import verify_function
    from vk import smt, props, cex
    t0 = time.time()
    P = props.PROPS[pid]
    prog = Program({m: os.path.join(REPO, f) for m, f in props.FILES.items()})
    db = ContractDB().load_dir(os.path.join(HERE, 'contracts'))
    lock = load_json(LOCK, {})
    known = load_json(KNOWN, {'findings': [], 'fixed': []})
    timeout = 20 if tier == 'quick' else 40
    retry = 90 if tier == 'quick' else 240

    functions, obligations, results, degraded = [], [], [], []
    by_backend, solver_time = {}, 0.0
    assumptions = set()
    fn_of = {}
    from vk import isolate

    class O:      # plain-data views of what the isolated workers return
        def __init__(self, d):
            self.id, self.expect, self.meta, self.hyps = d['id'], d['expect'], d['meta'], [None] * d['hyps']

    class R:
        def __init__(self, d):
            self.verdict, self.backend, self.secs, self.reason, self.model = d['verdict'], d['backend'], d['secs'], d['reason'], d['model']
            self.rl, self.h = d.get('rl', 0), d.get('h', '')

    def build():
        return prog, db
    # lock value = '<hash of the VC text>|<back end that discharged it>' (older entries: 'P' or the bare hash)
    pref = (pid + ':') if P.get('kinds') else ''
    hints = {}
    for k, v in lock.items():
        if isinstance(v, str) and k.startswith(pref) and (pref or ':' not in k.split('/')[0]):
            if '|' in v:
                hints[k[len(pref):]] = v.split('|', 1)[1]
            elif v == 'open' and tier != 'thorough':       # the thorough tier gives open obligations the whole ladder again
                hints[k[len(pref):]] = 'open'
    tasks = []
    for q in P['functions']:
        if q not in db.contracts:
            print('DEGRADED function=%s reason=no contract' % q)
            degraded.append((q, 'no contract'))
        for ci, c in enumerate(db.contracts.get(q, [])):
            for case in (db.cases_of(c, 'thorough') + [qc for qc in db.cases_of(c, 'quick') if qc not in db.cases_of(c, 'thorough')]) if relock else db.cases_of(c, tier):
                flt = (P.get('case_filter') or {}).get(q)
                if flt and any(case.get(k2) != v2 for k2, v2 in flt.items()):
                    continue
                tasks.append((q, ci, {'timeout': timeout, 'retry': retry, 'seed': 0, 'procs': 8, 'case': case, 'kinds': P.get('kinds'), 'want_hash': relock, 'hints': None if relock else hints}))
    for out in isolate.run(tasks, build, jobs=5):
        q = out['q']
        if out.get('error'):
            print(out['error'])
            raise RuntimeError('verification worker for %s crashed' % q)
        functions.append({'name': q, 'sha256': out['sha256'], 'obligations': len(out['obligations']), 'paths': out['paths'], 'degraded': out['degraded']})
        if out['degraded']:
            degraded.append((q, out['degraded']))
            print('DEGRADED function=%s reason=%s' % (q, out['degraded']))
        assumptions |= set(out['assumptions'])
        for d in out['obligations']:
            o, r = O(d), R(d)
            obligations.append(o); results.append(r); fn_of[o.id] = q
            if r.verdict == 'unknown' and o.expect == 'unsat' and r.h:
                # proof cache: the byte-identical VC (hash of its SMT-LIB text) was discharged when the lock was written; a solver
                # that runs out of budget on it now (busy machine) does not change its status.  Counted under back end 'lock-cache'.
                lv = lock.get(o.id if not P.get('kinds') else pid + ':' + o.id)
                if isinstance(lv, str) and lv.split('|')[0] == r.h:
                    r.verdict, r.backend, r.reason = 'unsat', 'lock-cache', 'identical VC discharged at lock time; solver budget exhausted in this run'
            by_backend[r.backend] = by_backend.get(r.backend, 0) + 1
            solver_time += r.secs

    if P.get('alias_frames'):
        # frame / freshness obligations of the public functions whose bodies the VC generator does not interpret: ownership analysis
        # of the real FunctionDefs (vk/frames.py); one obligation per mutation site and per return
        from vk import frames
        an = frames.from_contracts(prog, db)
        skip = set(P['functions'])
        for q in sorted(prog.funcs):
            fi = prog.funcs[q]
            if fi.cls is not None or q in skip or not any(q.startswith(m + '.') for m in P['alias_frames']):
                continue
            res = an.analyse(q)
            claimed = any(k.startswith('%s:%s/' % (pid, q)) and v != 'open' for k, v in lock.items()) if not relock else False
            if res['status'] != 'ok':
                if claimed:
                    degraded.append((q, 'ownership analysis gives no verdict: ' + res['why']))
                    print('DEGRADED function=%s reason=ownership analysis gives no verdict: %s' % (q, res['why'][:200]))
                continue
            functions.append({'name': q, 'sha256': prog.sha[fi.module], 'obligations': len(res['obligations']), 'paths': 0, 'degraded': None, 'by': 'ownership analysis'})
            for ob in res['obligations']:
                d = {'id': ob['id'], 'expect': 'unsat', 'hyps': 0, 'meta': {'text': ob['text'], 'line': ob['line'], 'kind': ob['kind']},
                     'verdict': 'unsat' if ob['ok'] else 'unknown', 'backend': 'alias-analysis', 'secs': 0.0,
                     'reason': '' if ob['ok'] else ob['text'], 'model': None, 'rl': 0, 'h': 'A'}
                o, r = O(d), R(d)
                obligations.append(o); results.append(r); fn_of[o.id] = q
                by_backend[r.backend] = by_backend.get(r.backend, 0) + 1
        assumptions.add('A-VIEWCOPY:tables of vk/frames.py (numpy functions / methods returning fresh objects, views, or mutating an argument); a call in none of the tables gives no verdict')

    proof_obls = [(o, r) for o, r in zip(obligations, results) if o.expect == 'unsat']
    guards = [(o, r) for o, r in zip(obligations, results) if o.expect != 'unsat']
    discharged = [(o, r) for o, r in proof_obls if r.verdict == 'unsat']
    failed = [(o, r) for o, r in proof_obls if r.verdict != 'unsat']
    # vacuity: the precondition must be satisfiable and, per function, at least one return path reachable
    vacuous = [(o, r) for o, r in guards if r.verdict == 'unsat' and '/pre-sat' in o.id]
    covers = {}
    for o, r in guards:
        if '/cover:return' in o.id:
            covers.setdefault(fn_of[o.id], []).append((o, r))
    for q, lst in covers.items():
        if all(r.verdict == 'unsat' for _, r in lst):
            vacuous.append(lst[0])

    if relock:
        if P.get('kinds'):
            lk = {k: v for k, v in lock.items() if not k.startswith(pid + ':')}
            for o, r in discharged:
                lk[pid + ':' + o.id] = (r.h or 'P') + '|' + r.backend
            for o, r in failed:
                lk[pid + ':' + o.id] = 'open'
        else:
            gen = {o.id for o in obligations}
            heads = {o.id.split('/')[0] for o in obligations}       # function@case heads verified in this run: their stale ids are dropped
            lk = {k: v for k, v in lock.items() if ':' in k.split('/')[0] or k.split('/')[0] not in heads}
            for o, r in discharged:
                lk[o.id] = (r.h or 'P') + '|' + r.backend
            for o, r in failed:
                lk[o.id] = 'open'
        json.dump(lk, open(LOCK, 'w'), indent=0, sort_keys=True)
        print('relocked %s: %d discharged obligations (%d not discharged)' % (pid, len(discharged), len(failed)))
        for o, r in failed:
            print('  NOT DISCHARGED %s %s %s' % (o.id, r.verdict, o.meta['text'][:100]))
        for o, r in guards:
            if r.verdict == 'unsat':
                print('  DEAD PATH / VACUOUS GUARD %s (%s)' % (o.id, o.meta['text']))
        return 0 if not failed else 2

    # ---- bounded stand-in: the same contract text evaluated on the real functions (plus property-specific harnesses)
    bounded = {'evaluations': 0, 'distinct_nontrivial': 0, 'samples': [], 'rule': '', 'witnesses': []}
    qs = [q for q in list(P['functions']) + list(P.get('bounded_only', [])) if q in db.contracts and q not in P.get('concrete_skip', [])]
    budget_env = {'VK_BUDGET': '300' if tier == 'quick' else '3000'}
    try:
        if not qs:
            raise StopIteration
        from concurrent.futures import ThreadPoolExecutor
        chunks = [qs[k::6] for k in range(6) if qs[k::6]]
        with ThreadPoolExecutor(len(chunks)) as tp:
            procs = list(tp.map(lambda ch: native([os.path.join(HERE, 'vk', 'concrete.py'), 'search', str(seed)] + ch, env_extra=budget_env), chunks))
        out = {}
        for p in procs:
            out.update(last_json(p.stdout) or {})
        for q, v in out.items():
            stt = v.get('stats', {})
            bounded['evaluations'] += stt.get('calls', 0)
            bounded['distinct_nontrivial'] += stt.get('distinct_nontrivial', 0)
            if v.get('witness'):
                bounded['witnesses'].append(v['witness'])
        if p.returncode != 0 and not out:
            print('NOTE concrete contract search failed to run: %s' % (p.stderr.strip().splitlines()[-1:] or ['?'])[0])
        if len(qs) > 1:
            pm = native([os.path.join(HERE, 'vk', 'concrete.py'), 'mixed', str(seed)] + qs, env_extra=budget_env)
            for q, v in (last_json(pm.stdout) or {}).items():
                bounded['evaluations'] += v.get('stats', {}).get('calls', 0)
                if v.get('witness') and not any(w.get('function') == q for w in bounded['witnesses']):
                    bounded['witnesses'].append(v['witness'])
        bounded['rule'] = ('contract text of each function under contract evaluated on the real function over its small-input domain '
                           '(matrices p<=2 over {0,1,-1,2} exhaustively + seeded random p<=4, node indices -1..4, subsets of 0..3); '
                           'non-trivial = some matrix argument has a non-zero entry; distinct by argument values')
    except StopIteration:
        pass
    except Exception as e:     # noqa: BLE001
        print('NOTE concrete contract search crashed: %r' % (e,))
    for mod in P.get('bounded', []):
        p = native(['-m', mod, tier, str(seed)], env_extra=budget_env, timeout=7200)
        out = last_json(p.stdout)
        if out is None:
            print(p.stdout[-2000:]); print(p.stderr[-2000:])
            raise RuntimeError('bounded harness %s produced no result' % mod)
        bounded['evaluations'] += out.get('evaluations', 0)
        bounded['distinct_nontrivial'] += out.get('distinct_nontrivial', 0)
        bounded['samples'] += out.get('samples', [])[:3]
        bounded['rule'] += ' | ' + out.get('rule', '')
        bounded.setdefault('exhaustive', out.get('exhaustive', False))
        bounded.setdefault('bound', out.get('bound', ''))
        bounded['witnesses'] += out.get('witnesses', [])

    # ---- verdicts
    violations, undecided, open_obls = [], [], []
    os.makedirs(os.path.join(HERE, 'out', 'replays', pid), exist_ok=True)

    def replay_path(name):
        safe = ''.join(ch if ch.isalnum() or ch in '._-' else '_' for ch in name)[:150]
        return os.path.join('out', 'replays', pid, safe + '.json')

    extra_search = {}
    for o, r in failed:
        q = fn_of[o.id]
        lv = lock.get(o.id if not P.get('kinds') else pid + ':' + o.id)
        locked = lv is not None and lv != 'open'
        if lv is None and o.meta.get('kind', '').split(':')[0] in ('post', 'raises', 'frame', 'fresh', 'no-other-exception'):
            # obligations of the CONTRACT clauses (not of a code position) are numbered along the paths of the function: an edit that
            # changes the number of paths shifts their ids.  They count as locked when the lock holds discharged obligations of the same
            # kind for the same function@case and none of that kind is open (every clause of that kind was proved on the unchanged tree)
            pre = (pid + ':' if P.get('kinds') else '') + o.id.split('/')[0] + '/' + o.meta['kind'].split(':')[0]
            same = [v for k2, v in lock.items() if k2.startswith(pre)]
            locked = bool(same) and all(v != 'open' for v in same)
        if lv == 'open' and r.verdict == 'unknown':
            # not discharged when the lock was written either: an OPEN obligation (listed in the evidence, never counted as proved)
            open_obls.append({'id': o.id, 'text': o.meta['text'][:160]})
            continue
        wit = None
        # (a) the solver's model, replayed natively
        if r.model:
            wit = try_candidates(q, [r.model])
        # (b) bounded search with the same contract text
        if wit is None:
            for w in bounded['witnesses']:
                if w.get('function') == q:
                    wit = w
        if wit is None and (locked or r.verdict == 'sat'):
            if q not in extra_search:        # one deeper search per function, not one per failed obligation
                p = native([os.path.join(HERE, 'vk', 'concrete.py'), 'search', str(seed + 1), q], env_extra={'VK_BUDGET': '3000'})
                out = last_json(p.stdout) or {}
                extra_search[q] = (out.get(q) or {}).get('witness')
            wit = extra_search[q]
        rec = {'property': pid, 'obligation': o.id, 'function': q, 'text': o.meta['text'], 'line': o.meta['line'], 'verdict': r.verdict,
               'backend': r.backend, 'solver_reason': r.reason, 'solver_model': r.model, 'locked': locked, 'witness': wit}
        if wit is not None or locked:
            violations.append(rec)
        else:
            undecided.append(rec)
    # bounded witnesses not tied to a failed obligation are violations too (run-time contract failure on a concrete input)
    seen_fn = {v['function'] for v in violations if v.get('witness')}
    for w in bounded['witnesses']:
        if w.get('function') not in seen_fn:
            violations.append({'property': pid, 'obligation': '%s/bounded' % w.get('function'), 'function': w.get('function'),
                               'text': w.get('clause'), 'verdict': 'concrete', 'witness': w, 'locked': True})
            seen_fn.add(w.get('function'))

    # known findings
    new_violations = []
    for v in violations:
        kf = match_known(known, pid, v)
        if kf:
            print('KNOWN-FINDING: property=%s %s' % (pid, kf['what']))
        else:
            new_violations.append(v)

    for v in new_violations:
        path = replay_path(v['obligation'])
        json.dump(v, open(os.path.join(HERE, path), 'w'), indent=1, default=str)
        if v.get('witness'):
            print('VIOLATION property=%s replay=%s obligation=%s witness=%s' % (pid, path, v['obligation'], json.dumps(v['witness']['inputs'])[:300]))
        else:
            print('VIOLATION property=%s replay=%s obligation=%s no-failing-input-found' % (pid, path, v['obligation']))
    for o, r in vacuous:
        print('CHECKER-ERROR vacuity guard failed: %s (%s)' % (o.id, o.meta['text']))

    # lock coverage: locked obligations of non-degraded functions must still be generated
    missing = []
    deg_fns = {q for q, _ in degraded}
    ids = {o.id for o in obligations}
    for k in lock:
        if P.get('kinds'):
            if not k.startswith(pid + ':'):
                continue
            kk = k[len(pid) + 1:]
        else:
            if ':' in k.split('/')[0]:
                continue
            kk = k
        q = kk.split('/')[0].split('@')[0]
        if q in P['functions'] and q not in deg_fns and kk not in ids:
            missing.append(k)

    lean = None
    if tier == 'thorough' and any('[Lean:' in a for a in assumptions):
        # re-check the Lean file that the lemma instances are transcribed from (cached for an hour)
        stamp = os.path.join(HERE, 'out', 'lemmas.ok')
        if os.path.exists(stamp) and time.time() - os.path.getmtime(stamp) < 3600:
            lean = True
        else:
            try:
                pr = subprocess.run(['sh', os.path.join(HERE, 'tools', 'check_lemmas.sh')], capture_output=True, text=True, timeout=1500)
                lean = 'LEMMAS-OK' in pr.stdout
                if lean:
                    os.makedirs(os.path.dirname(stamp), exist_ok=True)
                    open(stamp, 'w').write('ok')
                else:
                    print('NOTE lean re-check of lemmas/Lemmas.lean failed: %s' % (pr.stdout + pr.stderr)[-400:])
            except Exception as e:       # noqa: BLE001
                lean = False
                print('NOTE lean re-check could not run: %r' % (e,))
    conformance = None
    if tier == 'thorough' and obligations:
        # A-NUMPY hygiene: the model rules replayed against the installed numpy on concrete inputs (cached for an hour)
        stamp = os.path.join(HERE, 'out', 'conformance.json')
        try:
            if os.path.exists(stamp) and time.time() - os.path.getmtime(stamp) < 3600:
                conformance = json.load(open(stamp))
            else:
                pr = subprocess.run(['python3-vt', '-m', 'vk.conformance'], capture_output=True, text=True, timeout=1500, cwd=HERE,
                                    env=dict(os.environ, PYTHONPATH=HERE))
                conformance = last_json(pr.stdout)
                if conformance is not None:
                    conformance.pop('problems', None) if not conformance.get('disagree') else None
                    os.makedirs(os.path.dirname(stamp), exist_ok=True)
                    json.dump(conformance, open(stamp, 'w'))
            if conformance and (conformance.get('disagree') or conformance.get('undetermined')):
                print('CHECKER-ERROR numpy model rules disagree with the installed numpy: %s' % json.dumps(conformance)[:400])
        except Exception as e:       # noqa: BLE001
            print('NOTE model conformance run failed: %r' % (e,))
    wall = time.time() - t0
    level = P['level']
    n_obl, n_dis = len(proof_obls), len(discharged)
    ev = {
        'property_id': pid, 'tier': tier, 'seed': seed, 'level': level, 'wall_s': round(wall, 2), 'violations': len(new_violations),
        'coverage': {
            'obligations': n_obl, 'discharged': n_dis,
            'checker_cmd': './check %s --tier %s' % (pid, tier),
            'trusted_base': sorted(assumptions),
            'functions_under_contract': functions,
            'by_backend': by_backend, 'solver_time_s': round(solver_time, 2),
            'vacuity': {'guards': len(guards), 'guards_ok': len(guards) - len(vacuous)},
            'lean_lemmas_rechecked_this_run': lean,
            'numpy_model_conformance': conformance,
            'not_discharged': [{'id': o.id, 'verdict': r.verdict} for o, r in failed],
            'open_obligations': open_obls,
            'degraded': [{'function': q, 'reason': why} for q, why in degraded],
            'lock_missing': missing[:20],
            'evaluations': max(bounded['evaluations'], 1), 'distinct_nontrivial': bounded['distinct_nontrivial'],
            'rule': bounded['rule'], 'exhaustive': bool(bounded.get('exhaustive', False)), 'bound': bounded.get('bound', ''),
            'samples': ([{'obligation': o.id, 'text': o.meta['text'][:120], 'hyps': len(o.hyps), 'verdict': r.verdict, 'backend': r.backend,
                          'secs': round(r.secs, 3)} for o, r in proof_obls[:3] + proof_obls[-2:]] + bounded['samples'][:3]) or ['none'],
        },
        'assumptions': props.GLOBAL_ASSUMPTIONS + sorted(assumptions),
    }
    # runs against another checkout (VK_REPO, used to evaluate seeded changes) do not overwrite the evidence of /repo
    evdir = os.path.join(HERE, 'evidence') if os.path.realpath(REPO) == '/repo' else os.path.join(HERE, 'out', 'evidence_other')
    os.makedirs(evdir, exist_ok=True)
    json.dump(ev, open(os.path.join(evdir, pid + '.json'), 'w'), indent=1, default=str)
    status = 'OK' if not new_violations and not undecided and not vacuous else ('VIOLATED' if new_violations else 'UNDECIDED')
    print('%s property=%s tier=%s obligations=%d discharged=%d bounded=%d degraded=%d wall=%.1fs' % (
        status, pid, tier, n_obl, n_dis, bounded['evaluations'], len(degraded), wall))
    for u in open_obls:
        print('OPEN obligation=%s (never discharged, not counted as proved: %s)' % (u['id'], u['text'][:100]))
    for u in undecided:
        print('UNDECIDED obligation=%s verdict=%s (%s)' % (u['obligation'], u['verdict'], u['text'][:100]))
    if new_violations:
        return 1
    if vacuous:
        return 3
    if undecided:
        return 2
    return 0


def relock_all(seed=0, only=None):
    """rebuild obligations.lock.json in ONE pass: every (function, contract, case) of the thorough tier is verified once and its
    discharged obligations are entered for every property that uses it (properties with a `kinds` filter take only those kinds)."""
    from vk.engine import Program
    from vk.contracts import ContractDB
    from vk import props, isolate
    prog = Program({m: os.path.join(REPO, f) for m, f in props.FILES.items()})
    db = ContractDB().load_dir(os.path.join(HERE, 'contracts'))
    users, tasks = {}, {}
    for pid, P in sorted(props.PROPS.items()):
        if only and pid not in only:
            continue
        for q in P['functions']:
            for ci, c in enumerate(db.contracts.get(q, [])):
                for case in db.cases_of(c, 'thorough') + [qc for qc in db.cases_of(c, 'quick') if qc not in db.cases_of(c, 'thorough')]:
                    flt = (P.get('case_filter') or {}).get(q)
                    if flt and any(case.get(k2) != v2 for k2, v2 in flt.items()):
                        continue
                    key = (q, ci, json.dumps(case, sort_keys=True, default=str))
                    users.setdefault(key, []).append(pid)
                    tasks[key] = (q, ci, {'timeout': 20, 'retry': 90, 'seed': 0, 'procs': 4, 'case': case, 'kinds': None, 'want_hash': True})
    keys = sorted(tasks, key=lambda k: (0 if 'LGANM.sample' in k[0] or 'ANM.sample' in k[0] else 1, k))      # long ones first
    lock = load_json(LOCK, {})
    if only:
        lk = {k: v for k, v in lock.items() if not any(k.startswith(pid + ':') for pid in only)}
    else:
        lk = {}
    heads = set()
    stats = {}
    t0 = time.time()
    outs = isolate.run([tasks[k] for k in keys], lambda: (prog, db), jobs=4, progress=lambda i, n: print('  [%d/%d] %s %.0fs' % (i, n, keys[i - 1][0], time.time() - t0), flush=True))
    for key, out in zip(keys, outs):
        q = key[0]
        if out.get('error'):
            print('ERROR %s %s\n%s' % (q, key[2], out['error']))
            continue
        if out['degraded']:
            print('DEGRADED %s %s: %s' % (q, key[2], out['degraded']))
        for d in out['obligations']:
            heads.add(d['id'].split('/')[0])
    if only:       # stale plain ids of the re-verified function@case heads are dropped
        lk = {k: v for k, v in lk.items() if ':' in k.split('/')[0] or k.split('/')[0] not in heads}
    for key, out in zip(keys, outs):
        if out.get('error'):
            continue
        for pid in users[key]:
            kinds = props.PROPS[pid].get('kinds')
            st = stats.setdefault(pid, [0, 0])
            for d in out['obligations']:
                if d['expect'] != 'unsat':
                    if d['verdict'] == 'unsat':
                        print('  DEAD PATH / VACUOUS GUARD %s (%s)' % (d['id'], d['meta']['text']))
                    continue
                if kinds and not any(d['meta']['kind'].startswith(k) for k in kinds):
                    continue
                if d['verdict'] == 'unsat':
                    lk[(pid + ':' + d['id']) if kinds else d['id']] = (d.get('h') or 'P') + '|' + d['backend']
                    st[0] += 1
                else:
                    st[1] += 1
                    lk[(pid + ':' + d['id']) if kinds else d['id']] = 'open'
                    print('  NOT DISCHARGED [%s] %s %s %s' % (pid, d['id'], d['verdict'], d['meta']['text'][:100]))
    json.dump(lk, open(LOCK, 'w'), indent=0, sort_keys=True)
    for pid in sorted(stats):
        print('relocked %s: %d discharged obligations (%d not discharged)' % (pid, stats[pid][0], stats[pid][1]))
    print('relock-all: %d tasks, %d lock entries, %.0f s' % (len(keys), len(lk), time.time() - t0))
    return 0


def try_candidates(q, cands):
    with tempfile.NamedTemporaryFile('w', suffix='.json', delete=False) as f:
        json.dump(cands, f, default=str)
        path = f.name
    try:
        p = native([os.path.join(HERE, 'vk', 'concrete.py'), 'candidates', q, path], timeout=300)
        out = last_json(p.stdout) or {}
        return out.get('witness')
    except Exception:
        return None
    finally:
        os.unlink(path)


def match_known(known, pid, v):
    for kf in known.get('findings', []):
        if kf.get('property') != pid:
            continue
        w = v.get('witness') or {}
        if kf.get('function') == v.get('function') and kf.get('inputs') == w.get('inputs'):
            return kf
    return None


def do_replay(path):
    rec = json.load(open(path if os.path.isabs(path) else os.path.join(HERE, path)))
    if not rec.get('witness'):
        print('replay file names obligation %s (verdict %s); no concrete input was found: nothing to run' % (rec.get('obligation'), rec.get('verdict')))
        print(json.dumps({k: rec.get(k) for k in ('obligation', 'text', 'solver_reason', 'solver_model')}, default=str)[:2000])
        return 1
    if rec['witness'].get('harness'):
        p = native(['-m', rec['witness']['harness'], 'replay', path if os.path.isabs(path) else os.path.join(HERE, path)])
        print(p.stdout[-3000:])
        return p.returncode
    p = native([os.path.join(HERE, 'vk', 'concrete.py'), 'replay', path if os.path.isabs(path) else os.path.join(HERE, path)])
    out = last_json(p.stdout)
    print(json.dumps(out))
    if out and out.get('status') == 'violated':
        print('VIOLATION property=%s replay=%s (reproduced: %s)' % (rec.get('property'), path, out.get('clause')))
        return 1
    return 0


def main():
    ap = argparse.ArgumentParser()
    ap.add_argument('property')
    ap.add_argument('--tier', default=os.environ.get('VERIF_TIER', 'quick'))
    ap.add_argument('--replay')
    ap.add_argument('--relock', action='store_true')
    a = ap.parse_args()
    seed = int(os.environ.get('VERIF_SEED', '0') or 0)
    try:
        if a.replay:
            return do_replay(a.replay)
        if a.property.startswith('ALL'):       # ./check ALL --relock   |   ./check ALL:C01,C04 --relock
            if not a.relock:
                print('ALL is only valid with --relock')
                return 3
            return relock_all(seed, only=a.property.split(':', 1)[1].split(',') if ':' in a.property else None)
        return run_property(a.property, a.tier if a.tier in ('quick', 'thorough') else 'quick', seed, relock=a.relock)
    except SystemExit:
        raise
    except BaseException:
        traceback.print_exc()
        print('CHECKER-ERROR property=%s (traceback above; not a verdict about the code)' % a.property)
        return 3


if __name__ == '__main__':
    sys.exit(main())
