"""Concretise a solver model into candidate inputs for native replay."""
import z3
from .values import *   # noqa: F401,F403

MAXDIM = 5


def _num(model, t):
    v = model.eval(Z(t), model_completion=True)
    if z3.is_int_value(v):
        return v.as_long()
    if z3.is_rational_value(v):
        n, d = v.numerator_as_long(), v.denominator_as_long()
        return n // d if d == 1 else n / d
    if z3.is_true(v):
        return True
    if z3.is_false(v):
        return False
    if z3.is_algebraic_value(v):
        return float(v.approx(10).as_fraction())
    raise ValueError('no numeral for %s' % v)


def value(model, v, heap):
    if isinstance(v, Ref):
        v = heap[v.oid]
    if v is None or isinstance(v, (str,)):
        return v
    if isinstance(v, (bool, int, float)):
        return v
    if is_z3(v):
        return _num(model, v)
    if isinstance(v, tuple):
        return {'tuple': [value(model, x, heap) for x in v]}
    if isinstance(v, SArr):
        dims = [min(max(int(_num(model, d)), 0), MAXDIM) for d in v.shape]
        import itertools

        def build(prefix, rest):
            if not rest:
                x = _num(model, num(v.get(*prefix)))
                return x
            return [build(prefix + [k], rest[1:]) for k in range(rest[0])]
        data = build([], dims)
        return {'ndarray': data, 'dtype': {'int': 'int64', 'float': 'float64', 'bool': 'bool'}.get(v.kind, 'float64')}
    if isinstance(v, SSet):
        if isinstance(v.elem, TTuple):
            raise ValueError('set of tuples')
        return {'set': [x for x in range(0, MAXDIM + 1) if _num(model, v.member(x))]}
    if isinstance(v, SList):
        n = min(max(int(_num(model, v.n)), 0), MAXDIM)
        return [value(model, v.get(k), heap) for k in range(n)]
    if isinstance(v, SObj):
        return {'obj': v.cls, 'attrs': {k: value(model, x, heap) for k, x in v.attrs.items()}}
    raise ValueError('cannot concretise %r' % (type(v),))


def make_on_model(params, heap):
    def on_model(obl, model):
        out = {}
        for name, v in params.items():
            try:
                out[name] = value(model, v, heap)
            except Exception:
                return None
        return out
    return on_model
