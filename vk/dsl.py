"""Names of the contract DSL.  Importing a contract file is harmless: the
decorators only register, clause calls are never executed (contract bodies are
read as text).  The *concrete* meaning of the spec vocabulary is defined here."""
REGISTRY = {'spec': {}, 'contract': [], 'invariant': []}


def spec(f):
    REGISTRY['spec'][f.__name__] = f
    return f


opaque = spec


def contract(q, **kw):
    def deco(f):
        REGISTRY['contract'].append((q, f, kw))
        return f
    return deco


def invariant(q, **kw):
    def deco(f):
        REGISTRY['invariant'].append((q, f, kw))
        return f
    return deco


class _Sort:
    def __call__(self, *a, **k): return self
    def __getitem__(self, k): return self


Int = Real = Bool = Arr1 = Arr2 = Arr3 = Arr1i = Arr2i = Arr2o = Arr1b = Arr2b = SetOf = ListOf = Tup = DictOf = _Sort()
NoneType = Opaque = Callable = Gen = Seed = Obj = Str = IntOrNone = DictIv = _Sort()


# ---- concrete meaning of the built-in spec vocabulary
def implies(a, b):
    return (not a) or bool(b)


def iff(a, b):
    return bool(a) == bool(b)


def array_of(*args, kind=None):
    import numpy as np
    *dims, f = args
    dims = [int(d) for d in dims]
    out = np.zeros(dims, dtype={'int': int, 'bool': bool, None: float, 'float': float}[kind])
    for ix in np.ndindex(*dims):
        out[ix] = f(*ix)
    return out


def list_of(n, f):
    return [f(k) for k in range(int(n))]


def distinct(L):
    L = list(L)
    return len(set(map(_h, L))) == len(L)


def _h(x):
    try:
        hash(x)
        return x
    except TypeError:
        return tuple(map(_h, x))


def same_array(A, B):
    """exact for integer/bool data; floats are compared up to rounding (the symbolic side proves exact equality over the reals)"""
    import numpy as np
    A, B = np.asarray(A), np.asarray(B)
    if A.shape != B.shape:
        return False
    if A.dtype.kind == 'f' or B.dtype.kind == 'f':
        return bool(np.allclose(A.astype(float), B.astype(float), rtol=1e-7, atol=1e-9))
    return bool((A == B).all())


def is_int(x):
    return type(x) == int


def defines(a, b):
    import numpy as np
    if isinstance(a, list) and a and isinstance(a[0], list):
        return True      # lists of paths are compared as sets elsewhere (same_path_set)
    if isinstance(a, np.ndarray) or isinstance(b, np.ndarray):
        return same_array(a, b)
    return a == b


def count(*args):
    import itertools
    *dims, f = args
    return sum(1 for ix in itertools.product(*[range(int(d)) for d in dims]) if f(*ix))


def matmul(a, b):
    import numpy as np
    return np.asarray(a) @ np.asarray(b)


def inverse(a):
    import numpy as np
    return np.linalg.inv(np.asarray(a, dtype=float))


def transpose(a):
    import numpy as np
    return np.asarray(a).T


def nonsingular(a):
    import numpy as np
    a = np.asarray(a, dtype=float)
    return a.shape[0] == a.shape[1] and (a.shape[0] == 0 or abs(np.linalg.det(a)) > 1e-12)


def same_matrix(a, b, tol=1e-9):
    import numpy as np
    a, b = np.asarray(a, dtype=float), np.asarray(b, dtype=float)
    return a.shape == b.shape and bool(np.allclose(a, b, rtol=tol, atol=tol))


def ls_coefs(C, y, Xs):
    import numpy as np
    C = np.asarray(C, dtype=float)
    Xs = np.atleast_1d(Xs).astype(int)
    b = np.zeros(len(C))
    if len(Xs):
        b[Xs] = np.linalg.solve(C[np.ix_(Xs, Xs)], C[y, Xs])
    return b


# ---- RNG vocabulary, concrete meaning: generator objects are threaded through explicitly
def rng_state(seed):
    import numpy as np
    return np.random.default_rng(seed)


def rng_uniform(g, lo, hi, shape=None):
    return g.uniform(lo, hi, size=shape), g


def rng_integers(g, lo, hi, shape=None):
    return g.integers(lo, hi, shape), g


def rng_permutation(g, n):
    return g.permutation(n), g


_CLAUSE_STATE = [None]


class _GlobalAt:
    """numpy's global generator rewound to the state it had when the current clause started"""
    def draw(self, f):
        import numpy as np
        cur = np.random.get_state()
        np.random.set_state(self.state)
        try:
            out = f()
            self.state = np.random.get_state()
        finally:
            np.random.set_state(cur)
        return out


def global_state():
    g = _GlobalAt()
    g.state = _CLAUSE_STATE[0]
    return g


def global_seeded(seed):
    import numpy as np
    g = _GlobalAt()
    cur = np.random.get_state()
    np.random.seed(seed)
    g.state = np.random.get_state()
    np.random.set_state(cur)
    return g


def g_normal(g, loc, scale, n=None):
    import numpy as np
    return g.draw(lambda: np.random.normal(loc, scale, n)), g


def g_laplace(g, loc, scale, n=None):
    import numpy as np
    return g.draw(lambda: np.random.laplace(loc, scale, n)), g


def g_uniform(g, lo, hi, n=None):
    import numpy as np
    return g.draw(lambda: np.random.uniform(lo, hi, n)), g


def independent(a, b):
    import numpy as np
    if isinstance(a, np.ndarray) and isinstance(b, np.ndarray):
        return a is not b and not np.shares_memory(a, b)
    return True


def card(S):
    return len(set(S))


def identity(n):
    import numpy as np
    return np.eye(int(n))


def diag_of(v):
    import numpy as np
    return np.diag(np.asarray(v, dtype=float))


def is_ndarray(x):
    import numpy as np
    return type(x) == np.ndarray


def unitri_nonsingular(W):
    return True


def acyclic_if_ranked(A, r):
    return True


def acyclic_if_ordered(A, L):
    return True


def least_exists(P, key):
    return True


def rank(A, x):
    return 0


def g_mvn(g, mean, cov, n):
    import numpy as np
    return g.draw(lambda: np.random.multivariate_normal(np.asarray(mean, dtype=float), np.asarray(cov, dtype=float), size=n)), g


def solve(A, b):
    import numpy as np
    return np.linalg.solve(np.asarray(A, dtype=float), np.asarray(b, dtype=float))


def nd_of(mean, cov):
    from sempler.normal_distribution import NormalDistribution
    return NormalDistribution(mean, cov)


def extensions_of(P):
    """brute force: all consistent extensions of the PDAG P (DAGs with the same skeleton and v-structures keeping P's directed edges)"""
    import itertools
    import numpy as np
    P = (np.asarray(P) != 0).astype(int)
    p = len(P)
    und = [(i, j) for i in range(p) for j in range(i) if P[i, j] and P[j, i]]

    def vstructs(A):
        out = set()
        for c in range(p):
            pa = [i for i in range(p) if A[i, c] and not A[c, i]]
            for a, b in itertools.combinations(pa, 2):
                if not A[a, b] and not A[b, a]:
                    out.add((min(a, b), c, max(a, b)))
        return out
    res = []
    for bits in itertools.product((0, 1), repeat=len(und)):
        G = P.copy()
        for (i, j), b in zip(und, bits):
            if b:
                G[i, j] = 0
            else:
                G[j, i] = 0
        if acyclic(G) and vstructs(G) == vstructs(P):
            res.append(G)
    return res


def acyclic(A):
    import numpy as np
    A = np.asarray(A)
    n = len(A)
    color = [0] * n

    def dfs(u):
        color[u] = 1
        for v in range(n):
            if A[u, v] != 0:
                if color[v] == 1 or (color[v] == 0 and not dfs(v)):
                    return False
        color[u] = 2
        return True
    return all(color[u] != 0 or dfs(u) for u in range(n))


def has_extension(P):
    return len(extensions_of(P)) > 0


def is_extension_of(G, P):
    import numpy as np
    G = (np.asarray(G) != 0).astype(int)
    return any((G == E).all() for E in extensions_of(P))


def _pat(G):
    import numpy as np
    return (np.asarray(G) != 0).astype(int)


def _vstructs(A):
    import itertools
    p = len(A)
    out = set()
    for c in range(p):
        pa = [i for i in range(p) if A[i, c] and not A[c, i]]
        for a, b in itertools.combinations(pa, 2):
            if not A[a, b] and not A[b, a]:
                out.add((min(a, b), c, max(a, b)))
    return out


def mec_of(A):
    """brute force Markov equivalence class: DAGs with the same skeleton and v-structures"""
    import numpy as np
    A = _pat(A)
    skel = ((A + A.T) != 0).astype(int)
    return extensions_of(skel) if False else [G for G in _orientations(skel) if acyclic(G) and _vstructs(G) == _vstructs(A)]


def _orientations(skel):
    import itertools
    import numpy as np
    p = len(skel)
    und = [(i, j) for i in range(p) for j in range(i) if skel[i, j]]
    for bits in itertools.product((0, 1), repeat=len(und)):
        G = np.zeros((p, p), dtype=int)
        for (i, j), b in zip(und, bits):
            if b:
                G[j, i] = 1
            else:
                G[i, j] = 1
        yield G


def imec_of(A, I):
    A = _pat(A)
    return [G for G in mec_of(A) if all((G[:, i] == A[:, i]).all() for i in I)]


def union_graph(Gs):
    import numpy as np
    return (np.sum([_pat(G) for G in Gs], axis=0) != 0).astype(int)


_COMP_CACHE = {}


def compelled(G, a, b):
    """the edge a -> b of the DAG G is directed a -> b in every member of its Markov equivalence class (brute force)"""
    P = _pat(G)
    key = (P.shape, P.tobytes())
    if key not in _COMP_CACHE:
        if len(_COMP_CACHE) > 64:
            _COMP_CACHE.clear()
        _COMP_CACHE[key] = [_pat(D) for D in mec_of(P)]
    return bool(P[a, b]) and all(D[a, b] for D in _COMP_CACHE[key])


def valid_edge_order(ordered):
    """Chickering's total order of the edges of a DAG, in sempler's convention (largest label = first edge): the labels are 1..m,
    each once, and SOME topological order `pos` of the nodes exists such that, by DESCENDING label, edges are sorted by pos(head)
    ascending and, for one head, by pos(tail) descending.  Checked exactly:
    the labels must come in one block per head, and the precedence constraints (graph edges, block order of the heads, tails
    inside a block) must be acyclic."""
    import numpy as np
    o = np.asarray(ordered)
    p = len(o)
    es = sorted((int(o[a, b]), a, b) for a in range(p) for b in range(p) if o[a, b] != 0)
    if [l for l, _, _ in es] != list(range(1, len(es) + 1)):
        return False
    es = es[::-1]       # sempler labels the edges in the reverse of Chickering's order (label_edges starts from the largest label)
    before = np.zeros((p, p), dtype=int)        # before[u, v]: u must precede v
    heads = []
    for _, a, b in es:
        before[a, b] = 1
        if not heads or heads[-1] != b:
            if b in heads:
                return False                     # the labels of one head are not contiguous
            heads.append(b)
    for h1, h2 in zip(heads, heads[1:]):
        before[h1, h2] = 1
    for (_, a, b), (_, a2, b2) in zip(es, es[1:]):
        if b == b2:
            before[a2, a] = 1                    # later label, same head: its tail comes earlier
    return acyclic(before)


def chickering_order(G, flip=False):
    """an edge order satisfying valid_edge_order, built independently of the library (own topological order)"""
    import numpy as np
    P = _pat(G)
    p = len(P)
    pos, left = {}, set(range(p))
    while left:
        srcs = [v for v in sorted(left, reverse=flip) if not any(P[u, v] for u in left)]
        pos[srcs[0]] = len(pos)
        left.discard(srcs[0])
    es = sorted(((pos[b], -pos[a]), a, b) for a in range(p) for b in range(p) if P[a, b])
    o = np.zeros((p, p), dtype=int)
    for k, (_, a, b) in enumerate(es):
        o[a, b] = len(es) - k      # sempler's convention: Chickering's first edge carries the largest label
    return o


def same_pattern(A, B):
    import numpy as np
    return np.asarray(A).shape == np.asarray(B).shape and bool((_pat(A) == _pat(B)).all())


def same_graph_set(R, Gs):
    import numpy as np
    R = [(_pat(G)).tobytes() for G in np.asarray(R)]
    Gs = [(_pat(G)).tobytes() for G in Gs]
    return len(R) == len(set(R)) and set(R) == set(Gs) and len(R) == len(Gs)


def enumerates_mec(R, A):
    return same_graph_set(R, mec_of(A))


def enumerates_imec(R, A, I):
    return same_graph_set(R, imec_of(A, I))


def enumerates_extensions(R, P):
    return same_graph_set(R, extensions_of(P))


def is_cpdag_of(C, A):
    return same_pattern(C, union_graph(mec_of(A)))


def is_icpdag_of(C, A, I):
    return same_pattern(C, union_graph(imec_of(A, I)))


def any_extension_cpdag(C, P):
    return any(same_pattern(C, union_graph(mec_of(G))) for G in extensions_of(P))


def reach(A, i, j):
    """directed reachability i ->* j along edges u -> v (A[u,v] != 0 and A[v,u] == 0), reflexive"""
    import numpy as np
    A = np.asarray(A)
    n = len(A)
    if not (0 <= i < n and 0 <= j < n):
        return False
    seen, stack = {i}, [i]
    while stack:
        u = stack.pop()
        for v in range(n):
            if A[u, v] != 0 and A[v, u] == 0 and v not in seen:
                seen.add(v); stack.append(v)
    return j in seen


def ucomp(A, i, j):
    import numpy as np
    A = np.asarray(A)
    n = len(A)
    if not (0 <= i < n and 0 <= j < n):
        return False
    seen, stack = {i}, [i]
    while stack:
        u = stack.pop()
        for v in range(n):
            if A[u, v] != 0 and A[v, u] != 0 and v not in seen:
                seen.add(v); stack.append(v)
    return j in seen


def closed_superset(*a):
    return True


def sd_paths(G, a, b):
    """all simple paths from a to b following directed edges forwards or undirected edges (order unspecified)"""
    import numpy as np
    G = np.asarray(G)
    n = len(G)
    out = []

    def go(u, path):
        if u == b:
            out.append(path + [u])
            return
        for v in range(n):
            if G[u, v] != 0 and v not in path and v != u:
                go(v, path + [u])
    go(a, [])
    return out


def same_list(a, b):
    return [int(x) for x in a] == [int(x) for x in b]


def same_path_set(R, P):
    r = [tuple(int(x) for x in p) for p in R]
    q = [tuple(int(x) for x in p) for p in P]
    return len(r) == len(set(r)) and set(r) == set(q) and len(r) == len(q)


def global_is(g):
    return True


def exact_sum(L):
    from fractions import Fraction
    return sum((Fraction(float(x)) for x in L), Fraction(0))


def prefix_round(n, ratios, i):
    return sum(round(n * r) for r in list(ratios)[:i])


def own_copies(new, original):
    """every callable held is the holder's own copy: a different object than the caller's, unless it is a plain function / builtin
    (deepcopy returns those unchanged; they carry no state of their own)"""
    import types
    return all(a is not b or isinstance(b, (types.FunctionType, types.BuiltinFunctionType, type(None))) or not hasattr(b, '__dict__')
               for a, b in zip(new, original))


def shuffle_state(k):
    raise NotImplementedError('the shuffle log exists only symbolically (see vkb.c17 / vkb.c13 for the concrete checks)')


def gen_state(g):
    raise NotImplementedError('generator states are compared only symbolically')


def adv_shuffle(s, n):
    raise NotImplementedError('generator states are compared only symbolically')


def same_state(a, b):
    raise NotImplementedError('generator states are compared only symbolically')


def shuffle_perm(k, r):
    raise NotImplementedError('the shuffle log exists only symbolically (see vkb.c17 for the concrete check)')


def count_change(*a):
    return True


def consecutive_even(p):
    return True


def is_list(x):
    return type(x) == list
