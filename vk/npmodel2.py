"""numpy array / python builtin model rules (part 2: indexing, where, reductions, builtins)."""
import z3
from .values import *   # noqa: F401,F403
from .npmodel import LAZY, cast, kind_of_scalar, kind_join, raise_py


def is_slice(ix):
    return isinstance(ix, tuple) and len(ix) == 4 and isinstance(ix[0], str) and ix[0] == 'slice'


def full_slice(ix):
    return is_slice(ix) and ix[1] is None and ix[2] is None and ix[3] is None


def idx_kind(M, ix, st):
    """classify one index component: 'int' | 'full' | 'slice' | 'intlist' (SArr/SList of ints) | 'mask' (1-d bool)"""
    if is_slice(ix):
        return 'full' if full_slice(ix) else 'slice'
    v = st.deref(ix)
    if tag(v) in LAZY:
        return 'intlist'
    if isinstance(v, SArr):
        return 'mask' if v.kind == 'bool' else 'intlist'
    if isinstance(v, SList):
        return 'intlist'
    if is_scalar(v):
        return 'int'
    raise Unsupported('index component %r' % (type(v),))


def as_intlist(M, ix, st):
    v = st.deref(ix)
    if tag(v) in LAZY:
        v = st.deref(M.materialise(v, st))
    if isinstance(v, SArr):
        if v.ndim != 1:
            raise Unsupported('multi-dimensional index array')
        return v.shape[0], v.get
    if isinstance(v, SList):
        return v.n, v.get
    raise Unsupported('int list index')


def where_enum(M, mask, st):
    """np.where(mask)[0] for 1-d mask: strictly increasing enumeration of the true positions"""
    n = z3.Int(fresh_name('nw'))
    g = z3.Function(fresh_name('wh'), z3.IntSort(), z3.IntSort())
    rk = z3.Function(fresh_name('rk'), z3.IntSort(), z3.IntSort())
    k, k2, x = bvar('k'), bvar('k'), bvar('x')
    N = mask.shape[0]
    st.assume(n >= 0)
    st.assume(n <= Z(N))
    st.assume(forall([k], IMPLIES(in_range(k, 0, n), AND(in_range(g(k), 0, N), M.ex.truth(mask.get(g(k)), st)))))
    st.assume(forall([k, k2], IMPLIES(AND(0 <= k, k < k2, k2 < n), g(k) < g(k2))))
    st.assume(forall([x], IMPLIES(AND(in_range(x, 0, N), M.ex.truth(mask.get(x), st)), AND(in_range(rk(x), 0, n), g(rk(x)) == x))))
    M.ex.use('A-NUMPY:where-1d enumerates true positions in increasing order')
    return SArr((n,), lambda kk: g(Z(kk)), 'int')


def where_enum2(M, mask, st):
    """fro, to = np.where(mask2d): row-major enumeration"""
    n = z3.Int(fresh_name('nw'))
    f = z3.Function(fresh_name('wfro'), z3.IntSort(), z3.IntSort())
    t = z3.Function(fresh_name('wto'), z3.IntSort(), z3.IntSort())
    rk = z3.Function(fresh_name('rk'), z3.IntSort(), z3.IntSort(), z3.IntSort())
    k, k2, i, j = bvar('k'), bvar('k'), bvar('i'), bvar('j')
    R, C = mask.shape
    tr = lambda a, b: M.ex.truth(mask.get(a, b), st)
    st.assume(n >= 0)
    st.assume(forall([k], IMPLIES(in_range(k, 0, n), AND(in_range(f(k), 0, R), in_range(t(k), 0, C), tr(f(k), t(k))))))
    st.assume(forall([k, k2], IMPLIES(AND(0 <= k, k < k2, k2 < n), OR(f(k) < f(k2), AND(f(k) == f(k2), t(k) < t(k2))))))
    st.assume(forall([i, j], IMPLIES(AND(in_range(i, 0, R), in_range(j, 0, C), tr(i, j)),
                                     AND(in_range(rk(i, j), 0, n), f(rk(i, j)) == i, t(rk(i, j)) == j))))
    st.assume(n == count_true(M, lambda a, b: tr(a, b), [R, C], st, 'nwhere'))
    M.ex.use('A-NUMPY:where-2d enumerates true positions in row-major order')
    return SArr((n,), lambda kk: f(Z(kk)), 'int'), SArr((n,), lambda kk: t(Z(kk)), 'int')


def free_consts(term, acc=None, seen=None):
    """uninterpreted constants occurring in a z3 term"""
    acc = set() if acc is None else acc
    seen = set() if seen is None else seen
    if not is_z3(term):
        return acc
    stack = [term]
    while stack:
        t = stack.pop()
        tid = t.get_id()
        if tid in seen:
            continue
        seen.add(tid)
        if z3.is_quantifier(t):
            stack.append(t.body())
            continue
        if z3.is_app(t):
            if t.num_args() == 0 and t.decl().kind() == z3.Z3_OP_UNINTERPRETED:
                acc.add(t)
            else:
                stack.extend(t.children())
    return acc


def count_instance(M, st, ps, pred2, dims2, name='cnt'):
    """ghost count  #{idx in box(dims) | pred}  as an uninterpreted function of the free parameters ps.
    L-CARD facts are asserted for all parameter values; instances with predicates that agree on the box have equal counts
    (extensionality, asserted pairwise against the earlier instances of the same path)."""
    f = z3.Function(fresh_name(name), *([z3.IntSort()] * (len(ps) + 1)))
    nd = len(dims2(ps))

    def facts(pv):
        dims = dims2(pv)
        pred = lambda *ix: pred2(pv, ix)
        c = f(*pv)
        vs = [bvar('c') for _ in dims]
        vs2 = [bvar('d') for _ in dims]
        box = AND(*[in_range(v, 0, d) for v, d in zip(vs, dims)])
        box2 = AND(*[in_range(v, 0, d) for v, d in zip(vs2, dims)])
        total = Z(dims[0])
        for d in dims[1:]:
            total = total * Z(d)
        out = [c >= 0, c <= total]
        any_ = exists(vs, AND(box, pred(*vs)))
        out.append((c == 0) == NOT(any_) if is_z3(any_) else ((c == 0) if any_ is False else (c > 0)))
        two = exists(vs + vs2, AND(box, box2, pred(*vs), pred(*vs2), OR(*[a != b for a, b in zip(vs, vs2)])))
        if is_z3(two):
            out.append((c >= 2) == two)
        all_ = forall(vs, IMPLIES(box, pred(*vs)))
        if is_z3(all_):
            out.append((c == total) == all_)
        if len(dims) == 2 and EQ(dims[0], dims[1]) is not False:
            n = Z(dims[0])
            sq = EQ(dims[0], dims[1])
            i, j = vs
            diag_false = forall([i], IMPLIES(in_range(i, 0, n), NOT(pred(i, i))))
            off_all = forall([i, j], IMPLIES(AND(box, i != j), pred(i, j)))
            out.append(IMPLIES(AND(sq, diag_false), AND(c <= n * (n - 1), (c == n * (n - 1)) == off_all)))
        # a box side that depends on a parameter may be negative for some parameter values: the facts hold for genuine boxes only
        # (found by the vacuity guard: `0 <= c <= total` for all parameter values is inconsistent when total can be negative)
        pids = {p_.get_id() for p_ in pv if is_z3(p_)}
        par_dims = [d for d in dims if is_z3(d) and any(x.get_id() in pids for x in free_consts(d))]
        if par_dims:
            return IMPLIES(AND(*[Z(d) >= 0 for d in par_dims]), AND(*out))
        return AND(*out)
    st.assume(forall(list(ps), facts(list(ps))))
    reg = st.ghost.get('counts', ())
    for (f2, np2, nd2, pred2b, dims2b) in reg:
        if np2 != len(ps) or nd2 != nd:
            continue
        pv = list(ps)
        d1, d2 = dims2(pv), dims2b(pv)
        vs = [bvar('c') for _ in d1]
        box = AND(*[in_range(v, 0, d) for v, d in zip(vs, d1)])
        agree = forall(vs, IMPLIES(box, Z(pred2(pv, vs)) == Z(pred2b(pv, vs))))
        st.assume(forall(pv, IMPLIES(AND(AND(*[EQ(a, b) for a, b in zip(d1, d2)]), agree), f(*pv) == f2(*pv))))
        if nd == 1 and is_z3(Z(d1[0]) - Z(d2[0])):
            # L-CARD (step): #{i < n+1 | P i} = #{i < n | P i} + [P n]   for two instances whose bounds differ by exactly one
            diff = z3.simplify(Z(d1[0]) - Z(d2[0]))
            if z3.is_int_value(diff) and abs(diff.as_long()) == 1:
                (fs, ds, preds), (fb, db, predb) = ((f2, d2, pred2b), (f, d1, pred2)) if diff.as_long() == 1 else ((f, d1, pred2), (f2, d2, pred2b))
                v = bvar('c')
                agree_s = forall([v], IMPLIES(in_range(v, 0, ds[0]), Z(preds(pv, [v])) == Z(predb(pv, [v]))))
                st.assume(forall(pv, IMPLIES(AND(Z(ds[0]) >= 0, agree_s), fb(*pv) == fs(*pv) + ITE(Z(predb(pv, [Z(ds[0])])), 1, 0)))
                          if pv else IMPLIES(AND(Z(ds[0]) >= 0, agree_s), fb() == fs() + ITE(Z(predb(pv, [Z(ds[0])])), 1, 0)))
                M.ex.use('L-CARD:count over n+1 indices = count over n indices + [P n] [Lean: Lemmas.count_succ]')
    st.ghost['counts'] = tuple(reg) + ((f, len(ps), nd, pred2, dims2),)
    M.ex.use('L-CARD:count facts (=0, >=2, =|box|, off-diagonal n(n-1), extensionality) [Lean: Lemmas.count_*, offdiag_count]')
    return f


def count_true(M, pred, dims, st, name='cnt'):
    f = count_instance(M, st, [], lambda pv, ix: pred(*ix), lambda pv: list(dims), name)
    return f()


def truthy(M, st):
    return lambda v: M.ex.truth(v, st)


def arr_sum(M, a, axis, st, node):
    # the sum of the same (unmodified) array value is the same term every time it is evaluated on a path
    memo = st.ghost.get('sum_memo', {})
    key = (id(a.get), repr(axis), tuple(str(s_) for s_ in a.shape))
    if key in memo:
        return memo[key]
    r = _arr_sum(M, a, axis, st, node)
    memo = dict(st.ghost.get('sum_memo', {}))
    memo[key] = r
    st.ghost['sum_memo'] = memo
    st.ghost.setdefault('keepalive', []).append(a)      # keep the array alive so that id() stays unique
    return r


def _arr_sum(M, a, axis, st, node):
    tr = truthy(M, st)
    if a.kind == 'obj':
        raise Unsupported('sum of object array')
    if axis is None:
        if a.kind == 'bool':
            return count_true(M, lambda *ix: tr(a.get(*ix)), a.shape, st)
        s = z3.Const(fresh_name('sum'), KIND_SORT[a.kind])
        vs = [bvar('s') for _ in a.shape]
        box = AND(*[in_range(v, 0, d) for v, d in zip(vs, a.shape)])
        nonneg = forall(vs, IMPLIES(box, Z(a.get(*vs)) >= 0))
        allz = forall(vs, IMPLIES(box, EQ(a.get(*vs), 0)))
        st.assume(IMPLIES(nonneg, AND(s >= 0, (s == 0) == allz)))
        if a.kind == 'int':
            # 0/1-valued int arrays: the sum is the count of non-zero entries
            zo = forall(vs, IMPLIES(box, OR(EQ(a.get(*vs), 0), EQ(a.get(*vs), 1))))
            c = count_true(M, lambda *ix: NOT(EQ(a.get(*ix), 0)), a.shape, st)
            st.assume(IMPLIES(zo, s == c))
        M.ex.use('A-NUMPY:sum uninterpreted (only: non-negative entries => sum=0 iff all zero; 0/1 entries => count)')
        return s
    if a.ndim == 2 and axis in (0, 1):
        other = a.shape[1 - axis]
        along = a.shape[axis]
        if a.kind == 'bool' or a.kind == 'int':
            sf = z3.Function(fresh_name('colsum'), z3.IntSort(), z3.IntSort())
            j, i = bvar('j'), bvar('i')
            el = (lambda ii, jj: a.get(ii, jj)) if axis == 0 else (lambda ii, jj: a.get(jj, ii))
            nz = lambda ii, jj: tr(el(ii, jj))
            cff = count_instance(M, st, [j], lambda pv, ix: nz(ix[0], pv[0]), lambda pv: [along], 'colcnt')
            cf = lambda jj: cff(Z(jj))
            if a.kind == 'bool':
                return SArr((other,), lambda jj: cf(Z(jj)), 'int')
            zo = forall([i, j], IMPLIES(AND(in_range(i, 0, along), in_range(j, 0, other)), OR(EQ(el(i, j), 0), EQ(el(i, j), 1))))
            st.assume(IMPLIES(zo, forall([j], IMPLIES(in_range(j, 0, other), sf(j) == cf(j)))))
            return SArr((other,), lambda jj: sf(Z(jj)), 'int')
        sf = z3.Function(fresh_name('colsum'), z3.IntSort(), z3.RealSort())
        j, i = bvar('j'), bvar('i')
        el = (lambda ii, jj: a.get(ii, jj)) if axis == 0 else (lambda ii, jj: a.get(jj, ii))
        st.assume(forall([j], IMPLIES(AND(in_range(j, 0, other), forall([i], IMPLIES(in_range(i, 0, along), Z(el(i, j)) >= 0))),
                                      (sf(j) == 0) == forall([i], IMPLIES(in_range(i, 0, along), EQ(el(i, j), 0))))))
        M.ex.use('A-NUMPY:sum uninterpreted (only: non-negative entries => sum=0 iff all zero; 0/1 entries => count)')
        return SArr((other,), lambda jj: sf(Z(jj)), 'float')
    raise Unsupported('sum over axis %r of %d-d array' % (axis, a.ndim))


def arr_all(M, a, st, any_=False):
    tr = truthy(M, st)
    if isinstance(a, MaskSel):
        vs = [bvar('a') for _ in a.src.shape]
        box = AND(*[in_range(v, 0, d) for v, d in zip(vs, a.src.shape)])
        sel = AND(box, tr(a.mask.get(*vs)))
        return exists(vs, AND(sel, tr(a.src.get(*vs)))) if any_ else forall(vs, IMPLIES(sel, tr(a.src.get(*vs))))
    vs = [bvar('a') for _ in a.shape]
    box = AND(*[in_range(v, 0, d) for v, d in zip(vs, a.shape)])
    if any_:
        return exists(vs, AND(box, tr(a.get(*vs))))
    return forall(vs, IMPLIES(box, tr(a.get(*vs))))


class MaskSel(SArr):
    """A[mask] with a boolean mask of A's shape: 1-d selection, kept lazy"""
    def __init__(self, src, mask, mask_id):
        self.src, self.mask, self.mask_id = src, mask, mask_id
        SArr.__init__(self, (z3.Int(fresh_name('nsel')),), self._get, src.kind)

    def _get(self, k):
        raise Unsupported('element access into a boolean-mask selection')


def arr_getitem(M, a, base, idx, st, node):
    ex = M.ex
    if not isinstance(idx, tuple) or is_slice(idx):
        idx = (idx,)
    # boolean mask of the full shape
    if len(idx) == 1 and not is_slice(idx[0]):
        v = st.deref(idx[0])
        if isinstance(v, SArr) and v.kind == 'bool' and v.ndim == a.ndim and a.ndim >= 1:
            same = M.shape_eq(a.shape, v.shape)
            ex.oblige(st, 'shape', same, node); st.assume(same)
            mid = (idx[0].oid, st.ver.get(idx[0].oid, 0)) if isinstance(idx[0], Ref) else None
            return st.alloc(MaskSel(a, v, mid))
        if isinstance(v, tuple) and len(v) == a.ndim and all(is_scalar(c) for c in v):
            idx = v      # a[(i, j)]
    if len(idx) > a.ndim:
        raise_py('IndexError')
    idx = tuple(idx) + tuple(('slice', None, None, None) for _ in range(a.ndim - len(idx)))
    kinds = [idx_kind(M, ix, st) for ix in idx]
    if all(k == 'int' for k in kinds):
        ii = []
        for ix, d in zip(idx, a.shape):
            ix = num(st.deref(ix))
            if isinstance(ix, int) and ix < 0:
                ex.oblige(st, 'index', Z(d) >= -ix, node)
                ii.append(Z(d) + ix if is_z3(d) else d + ix)
            else:
                ex.oblige(st, 'index', in_range(ix, 0, d), node)
                ii.append(ix)
        return a.get(*ii)
    nadv = sum(1 for k in kinds if k in ('intlist', 'mask'))
    if nadv > 1:
        # a[rows, cols] with two index arrays: pointwise pairing
        if a.ndim == 2 and kinds == ['intlist', 'intlist']:
            n1, g1 = as_intlist(M, idx[0], st); n2, g2 = as_intlist(M, idx[1], st)
            same = EQ(n1, n2); ex.oblige(st, 'shape', same, node); st.assume(same)
            k = bvar('k')
            ex.oblige(st, 'index', forall([k], IMPLIES(in_range(k, 0, n1), AND(in_range(g1(k), 0, a.shape[0]), in_range(g2(k), 0, a.shape[1])))), node)
            return st.alloc(SArr((n1,), lambda kk: a.get(g1(kk), g2(kk)), a.kind))
        raise Unsupported('several advanced indices')
    # build result dims
    out_shape, maps = [], []     # maps: per source dim, function of result indices
    mask_w = None
    pos = 0
    view = True
    for ix, k, d in zip(idx, kinds, a.shape):
        if k == 'int':
            iv = num(st.deref(ix))
            if isinstance(iv, int) and iv < 0:
                ex.oblige(st, 'index', Z(d) >= -iv, node)
                iv = Z(d) + iv if is_z3(d) else d + iv
            else:
                ex.oblige(st, 'index', in_range(iv, 0, d), node)
            maps.append(lambda res, iv=iv: iv)
        elif k == 'full':
            out_shape.append(d)
            maps.append(lambda res, p=pos: res[p]); pos += 1
        elif k == 'slice':
            _, lo, hi, step = ix
            if step not in (None, 1):
                raise Unsupported('slice step')
            lo = 0 if lo is None else num(lo)
            hi = d if hi is None else num(hi)
            # python clamps slices: [min(lo,d), min(hi,d)) for 0 <= lo
            if not is_z3(lo) and lo < 0 or (not is_z3(hi) and not is_z3(d) and hi < 0):
                raise Unsupported('negative slice bound')
            if is_z3(lo):
                ex.oblige(st, 'slice-nonneg', Z(lo) >= 0, node)
            if is_z3(hi) and hi is not d:
                ex.oblige(st, 'slice-nonneg', Z(hi) >= 0, node)
            clamp = lambda x: x if (x is d) else (min(x, d) if not is_z3(x) and not is_z3(d) else z3.If(Z(x) <= Z(d), Z(x), Z(d)))
            lo_c, hi_c = (lo if (not is_z3(lo) and lo == 0) else clamp(lo)), clamp(hi)
            ln = M.nonneg_diff(hi_c, lo_c)
            out_shape.append(ln)
            maps.append(lambda res, p=pos, lo_c=lo_c: (Z(res[p]) + Z(lo_c)) if not (not is_z3(lo_c) and lo_c == 0) else res[p]); pos += 1
        elif k == 'intlist':
            n1, g1 = as_intlist(M, ix, st)
            kq = bvar('k')
            if isinstance(n1, int):
                for c in range(n1):
                    ex.oblige(st, 'index', in_range(g1(c), 0, d), node)
            else:
                ex.oblige(st, 'index', forall([kq], IMPLIES(in_range(kq, 0, n1), in_range(g1(kq), 0, d))), node)
            out_shape.append(n1)
            maps.append(lambda res, p=pos, g1=g1: g1(res[p])); pos += 1
            view = False
        elif k == 'mask':
            mv = st.deref(ix)
            same = EQ(mv.shape[0], d); ex.oblige(st, 'shape', same, node); st.assume(same)
            w = where_enum(M, mv, st)
            mask_w = w
            out_shape.append(w.shape[0])
            maps.append(lambda res, p=pos, w=w: w.get(res[p])); pos += 1
            view = False
    res = SArr(tuple(out_shape), lambda *r: a.get(*[m(r) for m in maps]), a.kind)
    if kinds == ['full', 'mask'] and a.ndim == 2:
        mc = dict(st.ghost.get('mask_cols', {}))
        mc[id(res.get)] = mask_w
        st.ghost['mask_cols'] = mc
    if view and isinstance(base, Ref):
        root = base.root if base.origin == 'alias' and base.root is not None else base.oid
        note = 'view of ' + (base.note or M.ex.frame_roots.get(base.oid, 'object'))
        if base.oid in M.ex.frame_roots or (base.origin == 'alias' and base.root in M.ex.frame_roots):
            note = 'param-view ' + M.ex.frame_roots.get(base.oid, M.ex.frame_roots.get(base.root, ''))
        return st.alloc(res, 'alias', root=root, rootver=st.ver.get(root, 0), note=note)
    return st.alloc(res)


def arr_row(M, a, k, st):
    if a.ndim == 1:
        return a.get(k)
    return SArr(a.shape[1:], lambda *ix: a.get(k, *ix), a.kind)


def setitem_value(M, cont, idx, val, st, node, aug=None):
    """new content of container ``cont`` after  cont[idx] (op)= val"""
    ex = M.ex
    pv = st.deref(val)
    if isinstance(cont, SDict):
        if aug:
            raise Unsupported('augmented dict item')
        key = idx
        old = cont
        nv = ex.snapshot(val, st)
        nd_ = SDict(SSet(lambda x: OR(old.dom.member(x), EQ(x, key)), old.dom.elem),
                    lambda x: nv if EQ(x, key) is True else (old.val(x) if EQ(x, key) is False else _dict_ite(EQ(x, key), nv, old.val(x))), old.vtype)
        if getattr(old, 'keys_range', None) is not None:
            # assigning to an existing key keeps the key set (obligation: the key is present)
            ex.oblige(st, 'key', old.dom.member(key), node, text='item assignment to an existing key')
            nd_.keys_range = old.keys_range
            nd_.dom = old.dom
        return nd_
    if isinstance(cont, SList):
        if aug:
            raise Unsupported('augmented list item')
        ex.oblige(st, 'index', in_range(idx, 0, cont.n), node)
        nv = ex.snapshot(val, st)
        old = cont
        items = old.concrete_items()
        if items is not None and isinstance(idx, int):
            items = list(items); items[idx] = nv
            return SList.of(items, old.elem)
        return SList(old.n, lambda k: _val_ite(EQ(k, idx), nv, old.get(k)), old.elem)
    if not isinstance(cont, SArr):
        raise Unsupported('item assignment on %r' % (type(cont),))
    a = cont
    if tag(pv) in LAZY:
        pv = st.deref(M.materialise(pv, st))
    if isinstance(pv, SList):
        pv = M.to_array_like(pv, st)
    if not isinstance(idx, tuple) or is_slice(idx):
        idx = (idx,)
    vkind = pv.kind if isinstance(pv, SArr) else kind_of_scalar(pv)
    if aug and a.kind == 'int' and kind_join(a.kind, vkind, aug) == 'float':
        ex.oblige(st, 'no-exception:UFuncTypeError', False, node, text='in-place float arithmetic on an int array')
        raise_py('UFuncTypeError')

    def upd(oldv, newv):
        if aug:
            ex.spec += 1
            try:
                newv = ex.scalar_bin(aug, num(oldv), num(newv), st, node)
            finally:
                ex.spec -= 1
        if a.kind == 'obj':
            return newv
        return cast(newv, a.kind)

    # full-shape boolean mask
    if len(idx) == 1 and not is_slice(idx[0]):
        m = st.deref(idx[0])
        if isinstance(m, SArr) and m.kind == 'bool' and m.ndim == a.ndim:
            same = M.shape_eq(a.shape, m.shape); ex.oblige(st, 'shape', same, node); st.assume(same)
            tr = truthy(M, st)
            if isinstance(pv, MaskSel):
                mid = (idx[0].oid, st.ver.get(idx[0].oid, 0)) if isinstance(idx[0], Ref) else None
                if pv.mask_id is None or pv.mask_id != mid:
                    # two mask objects: the same semantics applies when they are point-wise equal (numpy pairs the selected
                    # elements in row-major order) - that equality is an obligation; nothing else is modelled
                    pm = pv.mask
                    if not (isinstance(pm, SArr) and pm.ndim == m.ndim):
                        raise Unsupported('mask assignment from a selection with a different mask')
                    ixs = [bvar('q') for _ in range(m.ndim)]
                    rng_ = AND(*[in_range(ix, 0, d) for ix, d in zip(ixs, m.shape)])
                    eqm = AND(M.shape_eq(pm.shape, m.shape), forall(ixs, IMPLIES(rng_, Z(tr(m.get(*ixs))) == Z(tr(pm.get(*ixs))))))
                    ex.oblige(st, 'mask-eq', eqm, node, text='the mask selecting the source equals the mask selecting the target')
                    st.assume(eqm)
                src = pv.src
                same2 = M.shape_eq(a.shape, src.shape); ex.oblige(st, 'shape', same2, node); st.assume(same2)
                return SArr(a.shape, lambda *ix: ITE(tr(m.get(*ix)), upd(a.get(*ix), src.get(*ix)), a.get(*ix)), a.kind)
            if is_scalar(pv):
                return SArr(a.shape, lambda *ix: ITE(tr(m.get(*ix)), upd(a.get(*ix), pv), a.get(*ix)), a.kind)
            raise Unsupported('mask assignment of an array')
        if isinstance(m, tuple) and len(m) == a.ndim and all(is_scalar(c) for c in m):
            idx = m
    idx = tuple(idx) + tuple(('slice', None, None, None) for _ in range(a.ndim - len(idx)))
    if len(idx) > a.ndim:
        raise_py('IndexError')
    kinds = [idx_kind(M, ix, st) for ix in idx]
    # per-dimension selectors: sel_d(i) -> Bool "position i of dim d is written", and pos_d(i) -> index into the value
    sels, poss, vdims = [], [], []
    nadv = sum(1 for k in kinds if k == 'intlist')
    if nadv == 2 and a.ndim == 2 and kinds == ['intlist', 'intlist']:
        n1, g1 = as_intlist(M, idx[0], st); n2, g2 = as_intlist(M, idx[1], st)
        same = EQ(n1, n2); ex.oblige(st, 'shape', same, node); st.assume(same)
        k = bvar('k')
        ex.oblige(st, 'index', forall([k], IMPLIES(in_range(k, 0, n1), AND(in_range(g1(k), 0, a.shape[0]), in_range(g2(k), 0, a.shape[1])))), node)
        if not is_scalar(pv):
            raise Unsupported('paired fancy assignment of an array')
        return SArr(a.shape, lambda i, j: ITE(exists([k], AND(in_range(k, 0, n1), EQ(g1(k), i), EQ(g2(k), j))), upd(a.get(i, j), pv), a.get(i, j)), a.kind)
    if nadv > 1:
        raise Unsupported('several advanced indices in assignment')
    for ix, k, d in zip(idx, kinds, a.shape):
        if k == 'int':
            iv = num(st.deref(ix))
            if isinstance(iv, int) and iv < 0:
                ex.oblige(st, 'index', Z(d) >= -iv, node)
                iv = Z(d) + iv if is_z3(d) else d + iv
            else:
                ex.oblige(st, 'index', in_range(iv, 0, d), node)
            sels.append(lambda i, iv=iv: EQ(i, iv)); poss.append(None)
        elif k == 'full':
            sels.append(lambda i: True); poss.append(lambda i: i); vdims.append(d)
        elif k == 'slice':
            _, lo, hi, step = ix
            if step not in (None, 1):
                raise Unsupported('slice step')
            lo = 0 if lo is None else num(lo)
            hi = d if hi is None else num(hi)
            if is_z3(lo): ex.oblige(st, 'slice-nonneg', Z(lo) >= 0, node)
            if is_z3(hi) and hi is not d: ex.oblige(st, 'slice-nonneg', Z(hi) >= 0, node)
            sels.append(lambda i, lo=lo, hi=hi: AND(Z(lo) <= Z(i), Z(i) < Z(hi)))
            poss.append(lambda i, lo=lo: Z(i) - Z(lo))
            vdims.append(M.nonneg_diff(hi if hi is d else (z3.If(Z(hi) <= Z(d), Z(hi), Z(d)) if (is_z3(hi) or is_z3(d)) else min(hi, d)), lo))
        elif k == 'intlist':
            n1, g1 = as_intlist(M, ix, st)
            kq = bvar('k')
            if isinstance(n1, int):
                for c in range(n1):
                    ex.oblige(st, 'index', in_range(g1(c), 0, d), node)
            else:
                ex.oblige(st, 'index', forall([kq], IMPLIES(in_range(kq, 0, n1), in_range(g1(kq), 0, d))), node)
            if isinstance(n1, int):
                sels.append(lambda i, n1=n1, g1=g1: OR(*[EQ(g1(c), i) for c in range(n1)]))
            else:
                sels.append(lambda i, n1=n1, g1=g1: exists([kq], AND(in_range(kq, 0, n1), EQ(g1(kq), i))))
            if is_scalar(pv):
                poss.append(None)
            else:
                # position of i in the index list: requires distinct indices (numpy: last write wins otherwise)
                dist = list_distinct(SList(n1, g1, INT))
                ex.oblige(st, 'fancy-assign-distinct', dist, node, text='index list of a fancy assignment has no repeated entries')
                st.assume(dist)
                pf = z3.Function(fresh_name('posof'), z3.IntSort(), z3.IntSort())
                st.assume(forall([kq], IMPLIES(in_range(kq, 0, n1), pf(g1(kq)) == kq)))
                poss.append(lambda i, pf=pf: pf(Z(i)))
            vdims.append(n1)
        elif k == 'mask':
            mv = st.deref(ix)
            same = EQ(mv.shape[0], d); ex.oblige(st, 'shape', same, node); st.assume(same)
            tr = truthy(M, st)
            sels.append(lambda i, mv=mv: tr(mv.get(i)))
            if is_scalar(pv):
                poss.append(None)
            else:
                raise Unsupported('1-d mask assignment of an array')
            vdims.append(None)
    if isinstance(pv, SArr):
        vd = [p for p in poss if p is not None]
        if pv.ndim == len(vd):
            bc = []
            for want, got in zip(vdims, pv.shape):
                one = EQ(got, 1)
                same = OR(EQ(want, got), one)          # numpy broadcasts a length-1 axis of the value
                ex.oblige(st, 'shape', same, node); st.assume(same)
                bc.append(one)
            def vget(ixs, bc=bc):
                ps = [p(i) for p, i in zip(poss, ixs) if p is not None]
                ps = [0 if one is True else (q if one is False else z3.If(Z(one), z3.IntVal(0), Z(q))) for q, one in zip(ps, bc)]
                return pv.get(*ps)
        elif pv.ndim == 0:
            vget = lambda ixs: pv.get()
        elif pv.ndim == 1 and len(vd) == 2:
            same = EQ(vdims[1], pv.shape[0]); ex.oblige(st, 'shape', same, node); st.assume(same)
            vget = lambda ixs: pv.get([p(i) for p, i in zip(poss, ixs) if p is not None][1])
        elif pv.ndim == 2 and len(vd) == 1:
            # (n,1) or (1,n) assigned to a 1-d slot
            vget = None
            one0, one1 = EQ(pv.shape[0], 1), EQ(pv.shape[1], 1)
            if one1 is True:
                vget = lambda ixs: pv.get([p(i) for p, i in zip(poss, ixs) if p is not None][0], 0)
                same = EQ(vdims[0], pv.shape[0]); ex.oblige(st, 'shape', same, node); st.assume(same)
            elif one0 is True:
                vget = lambda ixs: pv.get(0, [p(i) for p, i in zip(poss, ixs) if p is not None][0])
                same = EQ(vdims[0], pv.shape[1]); ex.oblige(st, 'shape', same, node); st.assume(same)
            else:
                raise Unsupported('2-d value assigned to 1-d slot')
        else:
            raise Unsupported('assignment rank mismatch')
    elif is_scalar(pv):
        vget = lambda ixs: pv
    elif pv is None and a.kind == 'obj':
        vget = lambda ixs: None
    elif a.kind == 'obj':
        vget = lambda ixs: pv
    else:
        raise Unsupported('assignment of %r into array' % (type(pv),))
    return SArr(a.shape, lambda *ixs: _val_ite(AND(*[s(i) for s, i in zip(sels, ixs)]), upd(a.get(*ixs), vget(ixs)), a.get(*ixs)), a.kind)


def _val_ite(c, a, b):
    if c is True: return a
    if c is False: return b
    if isinstance(a, tuple) and isinstance(b, tuple):
        return tuple(_val_ite(c, x, y) for x, y in zip(a, b))
    if is_scalar(a) and is_scalar(b):
        return ITE(c, a, b)
    if isinstance(a, SList) and isinstance(b, SList):
        return SList(ITE(c, a.n, b.n), lambda k: _val_ite(c, a.get(k), b.get(k)), a.elem or b.elem)
    if isinstance(a, SArr) and isinstance(b, SArr) and a.ndim == b.ndim:
        return SArr(tuple(ITE(c, x, y) for x, y in zip(a.shape, b.shape)), lambda *ix: ITE(c, a.get(*ix), b.get(*ix)), a.kind)
    raise Unsupported('conditional container value')


_dict_ite = _val_ite


def materialise(M, lazy, st):
    """turn a lazy iterable description into a heap list"""
    ex = M.ex
    tg = lazy[0]
    if tg == 'range':
        _, lo, hi, step = lazy
        if step == 1:
            n = M.nonneg_diff(hi, lo)
            return st.alloc(SList(n, (lambda k: Z(k) + Z(lo)) if (is_z3(lo) or lo != 0) else (lambda k: k), INT))
        if not any(is_z3(x) for x in (lo, hi, step)):
            return st.alloc(SList.of(list(range(lo, hi, step)), INT))
        if step == -1:
            n = M.nonneg_diff(lo, hi)
            return st.alloc(SList(n, lambda k: Z(lo) - Z(k), INT))
        raise Unsupported('symbolic stepped range')
    if tg == 'whereidx':
        _, mask, ax = lazy
        if mask.ndim == 1:
            w = where_enum(M, mask, st)
            return st.alloc(SList(w.shape[0], w.get, INT))
        raise Unsupported('where()[k] of a 2-d mask')
    if tg == 'zip':
        parts = []
        for p in lazy[1]:
            pv = st.deref(p)
            if tag(pv) in LAZY:
                pv = st.deref(materialise(M, pv, st))
            if isinstance(pv, SArr) and pv.ndim == 1:
                parts.append((pv.shape[0], pv.get, KIND_T.get(pv.kind)))
            elif isinstance(pv, SList):
                parts.append((pv.n, pv.get, pv.elem))
            else:
                raise Unsupported('zip of %r' % (type(pv),))
        n = parts[0][0]
        for p in parts[1:]:
            if EQ(n, p[0]) is not True:
                same = EQ(n, p[0])
                # zip truncates; we only model equal lengths
                ex.oblige(st, 'zip-equal-length', same, None, text='zip over equally long sequences')
                st.assume(same)
        return st.alloc(SList(n, lambda k: tuple(p[1](k) for p in parts), TTuple(*[p[2] for p in parts])))
    if tg == 'enumerate':
        src = st.deref(lazy[1])
        if tag(src) in LAZY:
            src = st.deref(materialise(M, src, st))
        if isinstance(src, SArr) and src.ndim == 1:
            src = SList(src.shape[0], src.get, KIND_T[src.kind])
        if not isinstance(src, SList):
            raise Unsupported('enumerate of %r' % (type(src),))
        return st.alloc(SList(src.n, lambda k: (k, src.get(k)), TTuple(INT, src.elem)))
    if tg == 'reversed':
        src = st.deref(lazy[1])
        if tag(src) in LAZY:
            src = st.deref(materialise(M, src, st))
        if not isinstance(src, SList):
            raise Unsupported('reversed of %r' % (type(src),))
        return st.alloc(SList(src.n, lambda k: src.get(Z(src.n) - 1 - Z(k)), src.elem))
    if tg == 'filter':
        _, fn, srcv = lazy
        src = st.deref(srcv)
        if tag(src) in LAZY:
            src = st.deref(materialise(M, src, st))
        if not isinstance(src, SList):
            raise Unsupported('filter over %r' % (type(src),))
        pred = lambda x: ex.truth(ex.call(fn, [x], {}, st, None), st)
        L = fresh_value(TList(src.elem), 'flt')
        h = z3.Function(fresh_name('fh'), z3.IntSort(), z3.IntSort())
        hi = z3.Function(fresh_name('fhi'), z3.IntSort(), z3.IntSort())
        k, k2 = bvar('k'), bvar('k')
        st.assume(Z(L.n) >= 0)
        st.assume(forall([k], IMPLIES(in_range(k, 0, L.n), AND(in_range(h(k), 0, src.n), EQ(L.get(k), src.get(h(k))), pred(src.get(h(k)))))))
        st.assume(forall([k, k2], IMPLIES(AND(0 <= k, k < k2, k2 < Z(L.n)), h(k) < h(k2))))
        st.assume(forall([k], IMPLIES(AND(in_range(k, 0, src.n), pred(src.get(k))), AND(in_range(hi(k), 0, L.n), h(hi(k)) == k))))
        ex.use('A-NUMPY:filter keeps exactly the elements satisfying the predicate, in order')
        return st.alloc(L)
    if tg == 'dictvalues':
        _, D, lo, hi = lazy
        n = M.nonneg_diff(hi, lo)
        return st.alloc(SList(n, lambda k: D.val((Z(k) + Z(lo)) if (is_z3(lo) or lo != 0) else k), D.vtype))
    if tg == 'items':
        d = lazy[1]
        keys = st.deref(M.dict_keys_list(d, st))
        return st.alloc(SList(keys.n, lambda k: (keys.get(k), d.val(keys.get(k))), TTuple(d.dom.elem, d.vtype)))
    if tg == 'combinations':
        _, S, r = lazy
        if r != 2:
            raise Unsupported('combinations(r != 2)')
        # iteration over unordered pairs: exactly one orientation of each pair, unspecified which
        ch = z3.Function(fresh_name('comb'), z3.IntSort(), z3.IntSort(), z3.BoolSort())
        a, b = bvar('a'), bvar('b')
        st.assume(forall([a, b], IMPLIES(ch(a, b), AND(S.member(a), S.member(b), a != b))))
        st.assume(forall([a, b], IMPLIES(AND(S.member(a), S.member(b), a != b), z3.Xor(ch(a, b), ch(b, a)))))
        ex.use('A-NUMPY:combinations(S,2) yields every unordered pair once (orientation unspecified)')
        return st.alloc(SSet(lambda x: ch(Z(x[0]), Z(x[1])), TTuple(INT, INT)))
    raise Unsupported('materialise ' + tg)


def register(M):
    from . import npmodel3
    M.arr_getitem = lambda a, base, idx, st, node: arr_getitem(M, a, base, idx, st, node)
    M.setitem_value = lambda cont, idx, val, st, node, aug=None: setitem_value(M, cont, idx, val, st, node, aug)
    M.arr_row = lambda a, k, st: arr_row(M, a, k, st)
    npmodel3.register(M)
