"""Verify one function against its contract: build symbolic parameters, run the
real body, emit post / raises / frame / freshness / cover obligations."""
import ast
import os
import z3
from .values import *   # noqa: F401,F403
from .engine import State, Exec, PyRaise
from .types_eval import eval_type


def NS_tagged(tag_, role):
    t = TOpaque(tag_)
    t.role = role
    return t


def make_param(ex, st, t, name, root=None):
    """symbolic parameter of sort t; containers are allocated as caller-owned ('param') objects"""
    facts = []
    if isinstance(t, TOpaque):
        if t.tag == 'none':
            return None
        if t.tag.startswith('obj:'):
            attrs = {}
            for an, at in getattr(t, 'attrs', {}).items():
                v = make_param(ex, st, at, '%s.%s' % (name, an), root=name)
                attrs[an] = st.deref(v) if isinstance(v, Ref) else v
            ref = st.alloc(SObj(t.cls, attrs), 'param')
            ex.frame_roots[ref.oid] = name
            return ref
        if t.tag == 'callable':
            return SFun('uf', name=name)
        if t.tag in ('seed', 'int_or_none'):
            raise Unsupported('sort %s must be case-split by the contract (cases=...)' % t.tag)
        if t.tag == 'str':
            return 'str'
        if t.tag == 'callables':
            # list of user callables (one per variable): element k is an opaque callable with role t.role and index k
            n = z3.Int(fresh_name(name + '_n'))
            st.assume(n >= 0)
            lst = SList(n, lambda k, role=t.role: SFun('uf', role=role, index=k), TOpaque('callable'))
            if root is not None:
                return lst
            ref = st.alloc(lst, 'param')
            ex.frame_roots[ref.oid] = name
            return ref
        if t.tag == 'dictcall':
            dom = fresh_value(TSet(INT), name + '_keys')
            ref = st.alloc(SDict(dom, lambda k, role=t.role: SFun('uf', role=role, index=k), TOpaque('callable')), 'param')
            ex.frame_roots[ref.oid] = name
            return ref
        if t.tag == 'dict_iv':
            dom = fresh_value(TSet(INT), name + '_keys')
            kf = z3.Function(fresh_name(name + '_kind'), z3.IntSort(), z3.IntSort())
            af = z3.Function(fresh_name(name + '_a'), z3.IntSort(), z3.RealSort())
            bf = z3.Function(fresh_name(name + '_b'), z3.IntSort(), z3.RealSort())
            D = SDict(dom, lambda k: IvVal(kf(Z(k)), af(Z(k)), bf(Z(k))), TOpaque('ivval'))
            ref = st.alloc(D, 'param')
            ex.frame_roots[ref.oid] = name
            if getattr(ex, 'want_dict_order', False):
                ex.np.dict_keys_list(D, st)       # the parameter's iteration order exists from the start (facts on the entry state)
            return ref
        return ('opaque', name)
    if isinstance(t, TTuple):
        return tuple(make_param(ex, st, e, '%s_%d' % (name, k), root) for k, e in enumerate(t.elts))
    if isinstance(t, TDict):
        dom = fresh_value(TSet(t.key), name + '_dom')
        vf = fresh_fun(t.val, name + '_val', 1, facts)
        for f in facts:
            st.assume(f)
        ref = st.alloc(SDict(dom, lambda k: vf(k), t.val), 'param')
        ex.frame_roots[ref.oid] = name
        return ref
    v = fresh_value(t, name, assume=facts)
    for f in facts:
        st.assume(f)
    if isinstance(v, CONTAINERS):
        if root is not None:
            return v
        ref = st.alloc(v, 'param')
        ex.frame_roots[ref.oid] = name
        return ref
    return v


def self_from_constructor(ex, prog, db, st, fi, contract):
    """build `self` by symbolically executing the REAL constructor on symbolic arguments (sorts and preconditions from the
    constructor's contract): the object then has exactly the attributes the current __init__ creates, so a change that makes
    two sites cooperate (state added in __init__, used in the method) is seen by the method's proof."""
    cls = fi.qualname.rsplit('.', 1)[0]
    iq = cls + '.__init__'
    ic = db.get(iq)
    ifi = prog.funcs.get(iq)
    if ic is None or ifi is None:
        raise Unsupported('self_from_init: no contract / constructor for ' + cls)
    icase = contract.options.get('init_case') or (db.cases_of(ic, 'quick')[0] if ic.options.get('cases') else {})
    if isinstance(icase, list):
        icase = icase[ex.init_case_index]
    obj = st.alloc(SObj(cls))
    env = {'self': obj}
    cparams = dict(ic.params)
    defaults = ifi.node.args.defaults
    real = [a.arg for a in ifi.node.args.args]
    for k, p in enumerate(real):
        if p == 'self':
            continue
        if p in icase:
            cv = icase[p]
            env[p] = None if cv == 'none' else (fresh_scalar(INT, 'init_' + p) if cv == 'int' else
                                               ((fresh_scalar(REAL, p + '_lo'), fresh_scalar(REAL, p + '_hi')) if cv == 'rpair' else
                                                (make_param(ex, st, TArr('float', 1), 'init_' + p) if cv == 'arr1' else (make_param(ex, st, TArr('int', 1), 'init_' + p) if cv == 'arr1i' else cv))))
        elif p in cparams:
            env[p] = make_param(ex, st, eval_type(cparams[p]), 'init_' + p)
        else:
            di = k - (len(real) - len(defaults))
            loc = State({}, st.heap, st.ver, st.pc, st.ghost)
            env[p] = ex.ev(defaults[di], loc)
            st.heap, st.ver = loc.heap, loc.ver
    ist = State(env, st.heap, st.ver, st.pc, st.ghost)
    for cl in ic.of('requires'):
        for a in cl.args:
            ist.assume(ex.truth(ex.evs(a, ist), ist))
    save_cur, save_mod = ex.cur, ex.modname_override
    ex.cur = ifi
    ex.cur_node_stack.append(ifi.node); ex.cur_qual_stack.append(iq)
    spec_save = ex.spec
    ex.spec += 1          # obligations of the constructor belong to its own verification, not to the method's
    try:
        outs = ex.exec_block(ifi.node.body, ist)
    finally:
        ex.spec = spec_save
        ex.cur_node_stack.pop(); ex.cur_qual_stack.pop()
        ex.cur, ex.modname_override = save_cur, save_mod
    normal = [(s2, k2, v2) for (s2, k2, v2) in outs if k2 in ('next', 'return')]
    if len(normal) != 1:
        raise Unsupported('self_from_init: constructor has %d normal paths for the chosen case' % len(normal))
    s2 = normal[0][0]
    st.heap, st.ver = s2.heap, s2.ver
    if st.pc is not s2.pc:
        st.pc[:] = s2.pc
    # everything created so far belongs to the caller / the model: the method must not modify it
    for oid in list(st.heap):
        ex.frame_roots.setdefault(oid, 'self' if oid == obj.oid else 'model or constructor-argument storage')
    return obj


class FunctionResult:
    def __init__(self, q):
        self.qualname = q
        self.obligations = []
        self.degraded = None
        self.params = {}
        self.paths = 0
        self.assumptions = set()
        self.pre_heap = {}


def inject_ghost_code(fi, contract):
    """ghost_code(at='entry' | after='<statement text>' | before='<statement text>', code='<python statements>'):
    sidecar ghost statements woven into a *copy* of the FunctionDef that the generator interprets (the file in /repo is untouched).
    Ghost code may only assign ghost_* names (or their elements) and may not call anything but len / np.zeros / range / set / list:
    it cannot influence the real computation.  An anchor that no longer occurs in the source degrades the function."""
    import copy
    node = copy.deepcopy(fi.node)
    for cl in contract.of('ghost_code'):
        code = ast.literal_eval(cl.kw['code'])
        stmts = ast.parse(code).body
        for stt in stmts:
            for n in ast.walk(stt):
                if isinstance(n, (ast.Assign, ast.AugAssign)):
                    for t in (n.targets if isinstance(n, ast.Assign) else [n.target]):
                        r = t
                        while isinstance(r, (ast.Subscript, ast.Attribute)):
                            r = r.value
                        if not (isinstance(r, ast.Name) and r.id.startswith('ghost_')):
                            raise Unsupported('ghost code assigns a program variable: %s' % ast.unparse(t))
                elif isinstance(n, ast.Call):
                    if ast.unparse(n.func) not in ('len', 'np.zeros', 'range', 'set', 'list', 'int'):
                        raise Unsupported('ghost code calls %s' % ast.unparse(n.func))
                elif isinstance(n, (ast.For, ast.While, ast.Return, ast.Raise, ast.Delete, ast.Global, ast.Nonlocal)):
                    raise Unsupported('ghost code contains control flow that could alter the real computation')
        if 'at' in cl.kw and ast.literal_eval(cl.kw['at']) == 'entry':
            body = node.body
            k = 1 if (body and isinstance(body[0], ast.Expr) and isinstance(body[0].value, ast.Constant)) else 0
            anchor = body[k] if k < len(body) else body[-1]
            for stt in stmts:
                for n in ast.walk(stt):
                    ast.copy_location(n, anchor) if hasattr(n, 'lineno') or isinstance(n, (ast.stmt, ast.expr)) else None
            body[k:k] = stmts
            continue
        where = 'after' if 'after' in cl.kw else 'before'
        alts = ast.literal_eval(cl.kw[where])
        alts = [alts] if isinstance(alts, str) else list(alts)       # alternative anchors, tried in order (robust against edits of one line)
        present = {ast.unparse(x) for x in ast.walk(node) if isinstance(x, ast.stmt)}
        anchor_txt = None
        for a in alts:
            t = ast.unparse(ast.parse(a).body[0])
            if t in present:
                anchor_txt = t
                break
        if anchor_txt is None:
            raise Unsupported('ghost code anchor %r not found in %s' % (alts[0], fi.qualname))
        done = False
        for parent in ast.walk(node):
            for fld in ('body', 'orelse', 'finalbody'):
                blk = getattr(parent, fld, None)
                if not isinstance(blk, list):
                    continue
                for k, stt in enumerate(blk):
                    if isinstance(stt, ast.stmt) and not any(stt is g for g in stmts) and ast.unparse(stt) == anchor_txt and not done:
                        for g in stmts:
                            for n in ast.walk(g):
                                if isinstance(n, (ast.stmt, ast.expr)):
                                    ast.copy_location(n, stt)
                        pos = k + 1 if where == 'after' else k
                        blk[pos:pos] = stmts
                        done = True
                        break
                if done:
                    break
            if done:
                break
        if not done:
            raise Unsupported('ghost code anchor %r not found in %s' % (anchor_txt, fi.qualname))
    ast.fix_missing_locations(node)
    import copy as _c
    fi2 = _c.copy(fi)
    fi2.node = node
    return fi2


def verify_function(prog, db, q, contract, case=None):
    case = case or {}
    import itertools
    from . import values as _V
    _V._ctr = itertools.count()      # deterministic symbol names per function (solver behaviour depends on them)
    ex = Exec(prog, db)
    fr = FunctionResult(q)
    fi = prog.funcs.get(q)
    if fi is None:
        fr.degraded = 'function %s no longer exists' % q
        return fr
    decs = [ast.unparse(d) for d in fi.node.decorator_list if ast.unparse(d) not in ('staticmethod',)]
    if decs:        # a decorator replaces the function by something the generator does not interpret (caches, wrappers)
        fr.degraded = 'function %s is wrapped by decorator(s) %s, which the VC generator does not interpret' % (q, ', '.join(decs))
        return fr
    if contract.of('ghost_code'):
        try:
            fi = inject_ghost_code(fi, contract)
        except Unsupported as u:
            fr.degraded = str(u)
            return fr
    ex.cur = fi
    ex.init_case_index = case.get('init', 0)
    if 'assign_shape' in case:
        st_ghost_assign = case['assign_shape']
    ex.case_tag = ('@' + ','.join('%s=%s' % (k, case[k]) for k in sorted(case))) if case else ''
    ex.cur_node_stack = [fi.node]
    ex.cur_qual_stack = [q]
    st = State()
    if 'assign_shape' in case:
        st.ghost['assign_shape'] = case['assign_shape']
    try:
        env = {}
        cparams = dict(contract.params)
        real_params = [a.arg for a in fi.node.args.args]
        defaults = fi.node.args.defaults
        for k, p in enumerate(real_params):
            if p == 'self' and contract.options.get('self_from_init'):
                env[p] = self_from_constructor(ex, prog, db, st, fi, contract)
                continue
            if p == 'init':
                continue
            if p in case:
                cv = case[p]
                if cv == 'none':
                    env[p] = None
                elif cv == 'int':
                    env[p] = fresh_scalar(INT, p)
                elif cv == 'gen':
                    from .rng_rules import ST
                    env[p] = st.alloc(SGen(z3.Const(fresh_name('genstate'), ST)))
                elif cv == 'real':
                    env[p] = fresh_scalar(REAL, p)
                elif cv == 'intlist':
                    env[p] = make_param(ex, st, TList(INT), p)
                elif cv == 'arrlist':
                    env[p] = make_param(ex, st, TList(TArr('float', 2)), p)
                elif cv == 'notarray':
                    env[p] = ('opaque', p)
                elif cv == 'arr1':
                    env[p] = make_param(ex, st, TArr('float', 1), p)
                elif cv == 'arr2':
                    env[p] = make_param(ex, st, TArr('float', 2), p)
                elif cv == 'pair':
                    env[p] = (fresh_scalar(INT, p + '_lo'), fresh_scalar(INT, p + '_hi'))
                elif cv == 'triple':
                    env[p] = (fresh_scalar(INT, p + '_a'), fresh_scalar(INT, p + '_b'), fresh_scalar(INT, p + '_c'))
                elif cv == 'dict':
                    env[p] = make_param(ex, st, eval_type(ast.parse('DictIv', mode='eval').body), p)
                elif isinstance(cv, str) and cv.startswith('dictcall:'):
                    env[p] = make_param(ex, st, NS_tagged('dictcall', cv.split(':', 1)[1]), p)
                elif cv == 'rpair':
                    env[p] = (fresh_scalar(REAL, p + '_lo'), fresh_scalar(REAL, p + '_hi'))
                elif cv == 'arr1':
                    env[p] = make_param(ex, st, TArr('float', 1), p)
                elif cv == 'empty_dict':
                    env[p] = st.alloc(SDict(SSet.empty(), lambda k: None), 'param')
                    ex.frame_roots[env[p].oid] = p
                else:
                    env[p] = cv
            elif p in cparams:
                ann = cparams[p]
                t = eval_type(ann)
                env[p] = make_param(ex, st, t, p)
            else:
                di = k - (len(real_params) - len(defaults))
                if di < 0:
                    raise Unsupported('parameter %s of %s has no sort in the contract' % (p, q))
                loc = State({}, st.heap, st.ver, st.pc, st.ghost)
                env[p] = ex.ev(defaults[di], loc)
                st.heap, st.ver = loc.heap, loc.ver
                if isinstance(env[p], Ref):
                    ex.frame_roots[env[p].oid] = 'default argument %s' % p
        for p in cparams:
            if p not in real_params:
                raise Unsupported('contract parameter %s is not a parameter of %s' % (p, q))
        for cl in contract.of('ghost'):
            for k2, v in cl.kw.items():
                env[k2] = make_param(ex, st, eval_type(v), k2)
        st.env = env
        fr.params = dict(env)
        for cl in contract.of('modifies'):
            for a in cl.args:
                if isinstance(a, ast.Name) and isinstance(env.get(a.id), Ref):
                    ex.frame_roots.pop(env[a.id].oid, None)
        for cl in contract.of('requires'):
            for a in cl.args:
                g = ex.truth(ex.evs(a, st), st)
                names = {n.id for n in ast.walk(a) if isinstance(n, ast.Name)} - set(db.specs) - set(ex.np.builtins) - set(ex.np.special_forms)
                if contract.options.get('self_from_init') and names == {'self'}:
                    ex.oblige(st, 'class-invariant', g, a, text='the constructor establishes ' + ast.unparse(a)[:120])
                st.assume(g)
        pre = {'env': dict(st.env), 'heap': dict(st.heap), 'ver': dict(st.ver)}
        st.ghost['pre_state'] = pre
        fr.pre_heap = dict(pre['heap'])
        ex.before_hooks = {}
        ex.allowed_exc = {cl.args[0].id for cl in contract.of('raises')}
        for cl in contract.of('hint'):
            at = ast.literal_eval(cl.kw['at']) if 'at' in cl.kw else 'return'
            if at.startswith('before:'):
                def hook(cur, cl=cl):
                    for a in cl.args:
                        h = State(dict(cur.env), cur.heap, cur.ver, cur.pc, cur.ghost)
                        try:
                            f = ex.truth(ex.evs(a, h), h)
                        except Unsupported as u:
                            if 'unbound name' in str(u):
                                continue
                            raise
                        cur.heap.update({k2: v2 for k2, v2 in h.heap.items() if k2 not in cur.heap})
                        cur.assume(f)
                ex.before_hooks.setdefault(at.split(':', 1)[1], []).append(hook)
        for cl in contract.of('check'):
            # check(<expr>, at='before:<callee>'): an assertion (obligation) at the program point just before that call
            at = ast.literal_eval(cl.kw['at'])
            def chook(cur, cl=cl):
                for a in cl.args:
                    h = State(dict(cur.env), cur.heap, cur.ver, cur.pc, cur.ghost)
                    g = ex.truth(ex.evs(a, h), h)
                    ex.oblige(cur, 'check', g, a, text='at %s: %s' % (ast.literal_eval(cl.kw['at']), ast.unparse(a)[:120]))
                    cur.assume(g)
            ex.before_hooks.setdefault(at.split(':', 1)[1], []).append(chook)
        o = ex.oblige(st, 'pre-sat', False, fi.node, text='precondition is satisfiable', expect='sat')
        outs = ex.exec_block(fi.node.body, st)
        rt = eval_type(contract.returns) if contract.returns is not None else None
        raises = {cl.args[0].id: cl for cl in contract.of('raises')}
        hints = contract.of('hint')
        for (s, kind, v) in outs:
            fr.paths += 1
            if kind == 'next':
                kind, v = 'return', None
            if kind in ('break', 'continue'):
                raise Unsupported('break/continue outside loop')
            loc = State(dict(pre['env']), s.heap, s.ver, s.pc, s.ghost)
            loc.env.update({k2: s.env[k2] for k2 in s.env if k2.startswith('entry_')})
            if kind == 'return':
                ex.oblige(s, 'cover:return', False, fi.node, text='return path reachable', expect='sat')
                loc.env['result'] = v
                if 'self' in pre['env']:
                    loc.env['self'] = pre['env']['self']
                for oid_, nm_ in sorted(ex.frame_roots.items()):
                    ex.oblige(s, 'frame:%s' % nm_, s.ver.get(oid_, 0) == pre['ver'].get(oid_, 0), fi.node, text='%s is not modified on this path' % nm_)
                for cl in contract.of('let'):
                    for k2, a in cl.kw.items():
                        loc.env[k2] = ex.evs(a, loc)
                apply_hints(ex, contract, 'return', loc, s)
                # ghost assertions over the locals of the path: each is an obligation, then a cut fact for what follows
                for cl in contract.of('lemma'):
                    for a in cl.args:
                        hh = dict(loc.heap)
                        hh.update(s.heap)
                        h = State(dict(s.env), hh, s.ver, s.pc, s.ghost)
                        h.env['result'] = v
                        for k2 in loc.env:
                            if k2 not in h.env:
                                h.env[k2] = loc.env[k2]
                        try:
                            g = ex.truth(ex.evs(a, h), h)
                        except Unsupported as u:
                            if 'unbound name' in str(u):
                                continue
                            raise
                        s.heap.update({k2: v2 for k2, v2 in h.heap.items() if k2 not in s.heap})
                        loc.heap.update({k2: v2 for k2, v2 in h.heap.items() if k2 not in loc.heap})
                        ex.oblige(s, 'lemma', g, a, text='ghost assertion ' + ast.unparse(a)[:140])
                        s.assume(g)
                for cl in contract.of('ensures'):
                    for a in cl.args:
                        g = ex.truth(ex.evs(a, loc), loc)
                        s.pc[:] = loc.pc
                        ex.oblige(s, 'post', g, a, text='ensures ' + ast.unparse(a)[:140])
                        s.assume(g)      # cut: later obligations of this path may use an ensures clause that has its own obligation
                for cl in contract.of('ensures_assumed'):
                    # a postcondition the callers rely on but that is NOT proved for this body: a stated assumption, bounded tier only
                    for a in cl.args:
                        ex.use('ASSUMED(post): %s ensures %s -- %s' % (q.rsplit('.', 1)[-1], ast.unparse(a)[:90], ast.literal_eval(cl.kw['why']) if 'why' in cl.kw else 'decided by the bounded tier only'))
                for cl in contract.of('ensures_exists'):
                    # existential over the named locals of the path (the witnesses); concretely they are computed by witness(...)
                    for a in cl.args:
                        hh = dict(loc.heap); hh.update(s.heap)
                        h = State(dict(s.env), hh, s.ver, s.pc, s.ghost)
                        h.env.update({k2: v2 for k2, v2 in loc.env.items() if k2 not in h.env or k2 in pre['env']})
                        h.env['result'] = v
                        g = ex.truth(ex.evs(a, h), h)
                        s.heap.update({k2: v2 for k2, v2 in h.heap.items() if k2 not in s.heap})
                        ex.oblige(s, 'post', g, a, text='ensures (witness: locals) ' + ast.unparse(a)[:130])
                        s.assume(g)
                for cl in contract.of('establishes'):
                    for k2, a in cl.kw.items():
                        want = ex.evs(a, loc)
                        have = ex.getattr_(loc.env['self'], k2, loc)
                        g = ex.truth(ex.np.builtins['defines']([have, want], {}, loc, a), loc)
                        ex.oblige(s, 'post', g, a, text='establishes self.%s == %s' % (k2, ast.unparse(a)[:120]))
                        s.assume(g)
                for exc, cl in raises.items():
                    if 'must' in cl.kw:
                        g = NOT(ex.truth(ex.evs(cl.kw['must'], loc), loc))
                        ex.oblige(s, 'post:no-%s' % exc, g, cl.kw['must'], text='normal return only when not (%s)' % ast.unparse(cl.kw['must'])[:120])
                    if 'when' in cl.kw:
                        g = NOT(ex.truth(ex.evs(cl.kw['when'], loc), loc))
                        s.pc[:] = loc.pc
                        ex.oblige(s, 'post:no-%s' % exc, g, cl.kw['when'], text='normal return only when not (%s)' % ast.unparse(cl.kw['when'])[:120])
                for cl in contract.of('reproducible'):
                    # C13: with an int seed the result (and any draw) depends on the seed only; unseeded calls depend on the incoming state
                    seeded = case.get('random_state') == 'int'
                    when = ex.truth(ex.evs(cl.kw['when'], loc), loc) if 'when' in cl.kw else True
                    if when is False:
                        continue
                    subject = v
                    if cl.args:
                        subject = tuple(ex.evs(a, loc) for a in cl.args)
                    det = deterministic(ex, loc if cl.args else s, subject)
                    if seeded:
                        ex.oblige(s, 'noninterference', IMPLIES(when, det), fi.node, text='seeded result is independent of numpy\'s global generator state and of fresh entropy')
                        if cl.kw.get('private') is not None and ast.literal_eval(cl.kw['private']):
                            ex.oblige(s, 'no-global-write', IMPLIES(when, not s.ghost.get('G_written', False)), fi.node, text='a private default_rng(seed) is used: the global generator is neither read nor reseeded')
                    elif case.get('random_state') == 'none' and ('nondegenerate' not in cl.kw or ast.literal_eval(cl.kw['nondegenerate'])):
                        ex.oblige(s, 'nondegenerate', IMPLIES(when, not det), fi.node, text='unseeded result depends on the incoming generator state / entropy')
                for cl in contract.of('functional'):
                    comp = ex.evs(cl.args[0], loc)
                    ex.oblige(s, 'deterministic', deterministic(ex, s, comp), fi.node, text='result is a function of the arguments: no generator state or entropy is read')
                for cl in contract.of('fresh'):
                    for a in cl.args:
                        if isinstance(a, ast.Name) and a.id == 'result':
                            check_fresh(ex, s, v, fi.node)
                        elif isinstance(a, ast.Attribute) and isinstance(a.value, ast.Name) and a.value.id in ('self', 'result'):
                            owner = pre['env'].get('self') if a.value.id == 'self' else v
                            src = s.ghost.get('attr_src', {}).get((owner.oid, a.attr)) if isinstance(owner, Ref) else None
                            if src is None:
                                ex.oblige(s, 'fresh:%s.%s' % (a.value.id, a.attr), False, fi.node, text='%s.%s is assigned a fresh object' % (a.value.id, a.attr))
                            else:
                                ok = src.origin == 'fresh' and src.oid not in ex.frame_roots
                                ex.oblige(s, 'fresh:%s.%s' % (a.value.id, a.attr), ok, fi.node,
                                          text='%s.%s shares no storage with arguments (%s)' % (a.value.id, a.attr, src.note or src.origin))
            else:
                for lcl in contract.of('let'):
                    for k2, a in lcl.kw.items():
                        try:
                            loc.env[k2] = ex.evs(a, loc)
                        except Unsupported as u:
                            if 'unbound name' not in str(u):
                                raise
                if v in raises:
                    cl = raises[v]
                    if 'may' in cl.kw:
                        g = ex.truth(ex.evs(cl.kw['may'], loc), loc)
                        ex.oblige(s, 'raises:%s' % v, g, cl.kw['may'], text='%s raised only when %s' % (v, ast.unparse(cl.kw['may'])[:120]))
                    if 'when' in cl.kw and 'assumed_on_raise' in cl.kw:
                        # the direction "raised => when" is NOT proved for this function: it is a stated assumption (decided by the
                        # bounded tier only); the direction "returned => not when" keeps its obligation above
                        ex.use('ASSUMED(raise side): %s raises %s only when %s -- %s' % (q.rsplit('.', 1)[-1], v, ast.unparse(cl.kw['when'])[:80], ast.literal_eval(cl.kw['assumed_on_raise'])))
                    elif 'when' in cl.kw:
                        apply_hints(ex, contract, 'raise', loc, s)
                        g = ex.truth(ex.evs(cl.kw['when'], loc), loc)
                        s.pc[:] = loc.pc
                        ex.oblige(s, 'raises:%s' % v, g, cl.kw['when'], text='%s raised only when %s' % (v, ast.unparse(cl.kw['when'])[:120]))
                else:
                    ex.oblige(s, 'no-other-exception', False, fi.node, text='no %s outside the contract' % v)
    except Unsupported as u:
        fr.degraded = str(u)
        import os
        if os.environ.get('VK_TRACE'):
            import traceback
            traceback.print_exc()
    except PyRaise as r:
        fr.degraded = 'uncaught model exception %s' % r.exc
    except z3.Z3Exception as e:
        fr.degraded = 'engine error (z3 sort mismatch while interpreting the code): %s' % (str(e)[:120],)
    except (ImportError, KeyError, AttributeError, TypeError, IndexError, ValueError, AssertionError, NotImplementedError, RecursionError) as e:
        import traceback
        tb = traceback.extract_tb(e.__traceback__)[-1]
        fr.degraded = 'engine error %s: %s (%s:%d)' % (type(e).__name__, str(e)[:100], tb.filename.rsplit('/', 1)[-1], tb.lineno)
    fr.obligations = ex.obls
    fr.assumptions = ex.assumptions
    return fr


def apply_hints(ex, contract, where, loc, s):
    """hint(<formula>, at='return'|'raise'): a lemma *instance* (definition unfolding or a cited / Lean-proved lemma, listed under
    assumptions) evaluated over the locals of the path; a hint mentioning a local that does not exist on this path is skipped"""
    for cl in contract.of('hint'):
        at = ast.literal_eval(cl.kw['at']) if 'at' in cl.kw else 'return'
        if at != where:
            continue
        for a in cl.args:
            s.heap.update({k2: v2 for k2, v2 in loc.heap.items() if k2 not in s.heap})      # cells of let-bound values
            h = State(dict(s.env), s.heap, s.ver, s.pc, s.ghost)
            if 'result' in loc.env:
                h.env['result'] = loc.env['result']
            for lcl in contract.of('let'):       # names bound by let(...) of the contract (do not shadow locals of the function)
                for k2 in lcl.kw:
                    if k2 in loc.env and k2 not in h.env:
                        h.env[k2] = loc.env[k2]
            try:
                f = ex.truth(ex.evs(a, h), h)
            except Unsupported as u:
                if 'unbound name' in str(u):
                    if os.environ.get('VK_DEBUG_HINTS'):
                        print('hint skipped:', u, ast.unparse(a)[:80])
                    continue
                raise
            s.pc[:] = h.pc
            s.assume(f)
            loc.pc = s.pc


def check_fresh(ex, s, v, node):
    def one(x, what):
        if isinstance(x, Ref):
            ok = x.origin == 'fresh' and x.oid not in ex.frame_roots
            ex.oblige(s, 'fresh:%s' % what, ok, node, text='%s shares no storage with arguments / model state (%s)' % (what, x.note or x.origin))
            pv = s.deref(x)
            if isinstance(pv, SObj):
                src = s.ghost.get('attr_src', {})
                for an in pv.attrs:
                    r = src.get((x.oid, an))
                    if r is not None:
                        one(r, '%s.%s' % (what, an))
        elif isinstance(x, tuple):
            for k, y in enumerate(x):
                one(y, '%s[%d]' % (what, k))
    one(v, 'result')


def deterministic(ex, s, v):
    """no constant of the RngState sort (global state G0, entropy, havoc) occurs in the value"""
    from .npmodel2 import free_consts
    from .rng_rules import ST
    terms = []

    def collect(x):
        x = s.deref(x) if isinstance(x, Ref) else x
        if is_z3(x):
            terms.append(x)
        elif isinstance(x, tuple):
            for y in x:
                collect(y)
        elif isinstance(x, SArr):
            vs = [bvar('d') for _ in x.shape]
            terms.extend([t for t in x.shape if is_z3(t)])
            try:
                terms.append(Z(num(x.get(*vs))))
            except Unsupported:
                pass
        elif isinstance(x, SList):
            k = bvar('d')
            if is_z3(x.n):
                terms.append(x.n)
            collect(x.get(k))
        elif isinstance(x, SSet):
            e = set_elem_var(x)
            m = x.member(e)
            if is_z3(m):
                terms.append(m)
        elif isinstance(x, SObj):
            for y in x.attrs.values():
                collect(y)
    collect(v)
    for t in terms:
        for c in free_consts(t):
            if c.sort() == ST:
                return False
    return True
