"""Built-in vocabulary of the contract DSL (symbolic interpretation).

The concrete interpretation of the same names lives in vk/dsl.py.
"""
import ast
import z3
from .values import *   # noqa: F401,F403


def register(M):
    ex = M.ex
    B = M.builtins
    SF = M.special_forms

    def b_iff(args, kw, st, node):
        a, b = ex.truth(args[0], st), ex.truth(args[1], st)
        if isinstance(a, bool) and isinstance(b, bool):
            return a == b
        return Z(a) == Z(b)
    B['iff'] = b_iff

    def sf_array_of(e, st):
        """array_of(n, m, lambda i, j: expr) / array_of(n, lambda i: expr)"""
        dims = [num(ex.ev(a, st)) for a in e.args[:-1]]
        lam = e.args[-1]
        if not isinstance(lam, ast.Lambda):
            raise Unsupported('array_of needs a lambda')
        vs = [bvar(a.arg) for a in lam.args.args]
        loc = st.fork()
        for a, v in zip(lam.args.args, vs):
            loc.env[a.arg] = v
        ex.bound_stack.extend(vs)
        try:
            val = ex.ev(lam.body, loc)
        finally:
            del ex.bound_stack[-len(vs):]
        from .npmodel2 import free_consts
        bound_ids = {v.get_id() for v in vs}
        for f in loc.pc[len(st.pc):]:
            if not any(c.get_id() in bound_ids for c in free_consts(f)):
                st.pc.append(f)
        from .engine import sync_ghost
        sync_ghost(st, loc.ghost)
        kind = 'bool' if is_bool(val) else ('int' if is_int(val) else 'float')
        kw = {k.arg: k.value for k in e.keywords}
        if 'kind' in kw:
            kind = ast.literal_eval(kw['kind'])
        from .npmodel import cast
        return st.alloc(SArr(tuple(dims), lambda *ix: cast(subst(val, list(zip(vs, ix))), kind), kind))
    SF['array_of'] = sf_array_of

    def sf_list_of(e, st):
        n = num(ex.ev(e.args[0], st))
        lam = e.args[1]
        v = bvar(lam.args.args[0].arg)
        loc = st.fork(); loc.env[lam.args.args[0].arg] = v
        val = ex.snapshot(ex.ev(lam.body, loc), loc)
        return st.alloc(SList(n, lambda k: subst(val, [(v, k)]), type_of(val)))
    SF['list_of'] = sf_list_of

    def sf_count(e, st):
        """count(n, lambda i: pred) / count(n, m, lambda i, j: pred): number of positions of the box satisfying pred"""
        from .npmodel2 import count_instance, free_consts
        dims = [num(ex.ev(a, st)) for a in e.args[:-1]]
        lam = e.args[-1]
        vs = [bvar(a.arg) for a in lam.args.args]
        loc = st.fork()
        for a, v in zip(lam.args.args, vs):
            loc.env[a.arg] = v
        val = Z(ex.truth(ex.ev(lam.body, loc), loc))
        fc = free_consts(val)
        for d in dims:
            fc |= free_consts(d) if is_z3(d) else set()
        ps = [b for b in ex.bound_stack if any(b.eq(c) for c in fc)]
        f = count_instance(M, st, ps, lambda pv, ix: subst(val, list(zip(ps, pv)) + list(zip(vs, ix))),
                           lambda pv: [subst(d, list(zip(ps, pv))) if is_z3(d) else d for d in dims], 'count')
        return f(*ps)
    SF['count'] = sf_count

    def b_card(args, kw, st, node):
        S = st.deref(args[0])
        if isinstance(S, SList):
            S = set_of_list(S)
        return M.set_card(S, st)
    B['card'] = b_card

    def b_count_change(args, kw, st, node):
        """L-CARD (one-point update): count_change(n, m, lambda i, j: Pold, lambda i, j: Pnew, a, b)
        if Pold and Pnew agree everywhere on the box except possibly at (a, b) then
        count(Pnew) - count(Pold) == [Pnew(a,b)] - [Pold(a,b)]"""
        from .npmodel2 import count_instance
        n, m = num(args[0]), num(args[1])
        Po = lambda i, j: ex.truth(ex.call(args[2], [i, j], {}, st, node), st)
        Pn = lambda i, j: ex.truth(ex.call(args[3], [i, j], {}, st, node), st)
        a, b = Z(num(args[4])), Z(num(args[5]))
        co = count_instance(M, st, [], lambda pv, ix: Po(ix[0], ix[1]), lambda pv: [n, m], 'cnt_old')()
        cn = count_instance(M, st, [], lambda pv, ix: Pn(ix[0], ix[1]), lambda pv: [n, m], 'cnt_new')()
        i, j = bvar('i'), bvar('j')
        agree = forall([i, j], IMPLIES(AND(in_range(i, 0, n), in_range(j, 0, m), OR(i != a, j != b)), Z(Po(i, j)) == Z(Pn(i, j))))
        one = lambda t: z3.If(Z(t), z3.IntVal(1), z3.IntVal(0))
        ex.use('L-CARD:one-point update of a predicate changes its count by the change at that point [Lean: Lemmas.count_update]')
        return IMPLIES(AND(in_range(a, 0, n), in_range(b, 0, m), agree), cn - co == one(Pn(a, b)) - one(Po(a, b)))
    B['count_change'] = b_count_change

    def b_consecutive_even(args, kw, st, node):
        """p (p - 1) is even  [Lean: Lemmas.consecutive_even]"""
        p = Z(num(args[0]))
        h = z3.Int(fresh_name('half'))
        ex.use('L-EVEN:p(p-1) is even [Lean: Lemmas.consecutive_even]')
        return p * (p - 1) == 2 * h
    B['consecutive_even'] = b_consecutive_even

    def b_card_le(args, kw, st, node):
        raise Unsupported('card_le')

    def b_is_int(args, kw, st, node):
        v = args[0]
        return (is_int(v) or is_bool(v)) and not isinstance(v, IvVal)
    B['is_int'] = b_is_int

    def b_distinct(args, kw, st, node):
        L = st.deref(args[0])
        if isinstance(L, SArr) and L.ndim == 1:
            L = SList(L.shape[0], L.get, KIND_T[L.kind])
        return list_distinct(L)
    B['distinct'] = b_distinct

    def b_same_array(args, kw, st, node):
        """same_array(A, B): equal shapes and entries"""
        a, b = M.as_arr(st, args[0]), M.as_arr(st, args[1])
        if a.ndim != b.ndim:
            return False
        vs = [bvar('e') for _ in a.shape]
        box = AND(*[in_range(v, 0, d) for v, d in zip(vs, a.shape)])
        return AND(M.shape_eq(a.shape, b.shape), forall(vs, IMPLIES(box, EQ(num(a.get(*vs)), num(b.get(*vs))))))
    B['same_array'] = b_same_array

    def b_defines(args, kw, st, node):
        a, b = st.deref(args[0]), st.deref(args[1])
        if isinstance(a, SArr) or isinstance(b, SArr):
            return b_same_array(args, kw, st, node)
        if isinstance(a, SList) and isinstance(b, SList):
            return ex.list_eq(a, b)
        if isinstance(a, SSet) and isinstance(b, SSet):
            return set_eq(a, b)
        return EQ(a, b)
    B['defines'] = b_defines

    def b_kind(args, kw, st, node):
        a = M.as_arr(st, args[0])
        return a.kind
    B['kind'] = b_kind

    # ---- acyclicity: opaque predicate over the reified matrix, with explicit elimination / introduction
    TOK = z3.DeclareSort('MatrixToken')
    ACYC = z3.Function('acyclic', TOK, z3.BoolSort())
    RK = z3.Function('rank', TOK, z3.IntSort(), z3.IntSort())

    def token_of(a, st):
        """a constant standing for the matrix value; tokens of entry-wise equal matrices are equal (extensionality, pairwise)"""
        reg = st.ghost.get('tokens', ())
        for (t, a2) in reg:
            if a2.get is a.get and a2.shape == a.shape:
                return t
        t = z3.Const(fresh_name('M'), TOK)
        i, j = bvar('i'), bvar('j')
        for (t2, a2) in reg:
            same = AND(M.shape_eq(a.shape, a2.shape),
                       forall([i, j], IMPLIES(AND(in_range(i, 0, a.shape[0]), in_range(j, 0, a.shape[1])), EQ(num(a.get(i, j)), num(a2.get(i, j))))))
            st.assume(IMPLIES(same, t == t2))
        st.ghost['tokens'] = tuple(reg) + ((t, a),)
        return t

    def b_acyclic(args, kw, st, node):
        a = M.as_arr(st, args[0])
        tok, n = token_of(a, st), Z(a.shape[0])
        t = ACYC(tok)
        u, v = bvar('u'), bvar('v')
        # elimination (definition): an acyclic graph has a ranking along which every edge increases
        st.assume(z3.Implies(t, forall([u, v], IMPLIES(AND(in_range(u, 0, n), in_range(v, 0, n), NOT(EQ(a.get(u, v), 0))), RK(tok, u) < RK(tok, v)))))
        ex.use('DEF:acyclic(A) := exists ranking r with r(u) < r(v) on every edge (skolemised elimination)')
        return t
    B['acyclic'] = b_acyclic

    def b_rank(args, kw, st, node):
        a = M.as_arr(st, args[0])
        return RK(token_of(a, st), Z(num(args[1])))
    B['rank'] = b_rank

    def b_acyclic_if_ranked(args, kw, st, node):
        """introduction: acyclic_if_ranked(A, r) with r a lambda x: int  -- (forall edges r(u)<r(v)) => acyclic(A)"""
        a = M.as_arr(st, args[0])
        r = args[1]
        tok, n = token_of(a, st), Z(a.shape[0])
        u, v = bvar('u'), bvar('v')
        ru, rv = ex.call(r, [u], {}, st, node), ex.call(r, [v], {}, st, node)
        ranked = forall([u, v], IMPLIES(AND(in_range(u, 0, n), in_range(v, 0, n), NOT(EQ(a.get(u, v), 0))), Z(ru) < Z(rv)))
        ex.use('DEF:acyclic introduction with an explicit ranking witness')
        return z3.Implies(ranked, ACYC(tok))
    B['acyclic_if_ranked'] = b_acyclic_if_ranked

    def b_acyclic_if_ordered(args, kw, st, node):
        """introduction with witness r(u) = position of u in L:  L lists every node exactly once and every edge points forward => acyclic(A)"""
        a = M.as_arr(st, args[0])
        L = st.deref(args[1])
        tok, n = token_of(a, st), Z(a.shape[0])
        k, k2, u = bvar('k'), bvar('k'), bvar('u')
        covers = forall([u], IMPLIES(in_range(u, 0, n), list_contains(L, u)))
        inrange = forall([k], IMPLIES(in_range(k, 0, L.n), in_range(L.get(k), 0, n)))
        fwd = forall([k, k2], IMPLIES(AND(in_range(k, 0, L.n), in_range(k2, 0, L.n), NOT(EQ(a.get(L.get(k), L.get(k2)), 0))), k < k2))
        ex.use('DEF:acyclic introduction with an explicit ranking witness')
        return z3.Implies(AND(covers, inrange, list_distinct(L), fwd), ACYC(tok))
    B['acyclic_if_ordered'] = b_acyclic_if_ordered

    def b_least_exists(args, kw, st, node):
        """L-MIN (Lean: Finset.exists_min_image): a non-empty finite set {x | P x} has a key-minimal element"""
        P, key = args
        x, m, w = bvar('x'), bvar('m'), bvar('w')
        Px = ex.truth(ex.call(P, [x], {}, st, node), st)
        Pm = ex.truth(ex.call(P, [m], {}, st, node), st)
        Pw = ex.truth(ex.call(P, [w], {}, st, node), st)
        km, kw_ = ex.call(key, [m], {}, st, node), ex.call(key, [w], {}, st, node)
        ex.use('L-MIN:non-empty finite set has a minimal element [Lean: Lemmas.finite_min]')
        return IMPLIES(exists([x], Px), exists([m], AND(Pm, forall([w], IMPLIES(Pw, Z(km) <= Z(kw_))))))
    B['least_exists'] = b_least_exists

    EXT = z3.Function('has_extension', TOK, z3.BoolSort())
    ISEXT = z3.Function('is_extension_of', TOK, TOK, z3.BoolSort())

    def b_has_extension(args, kw, st, node):
        a = M.as_arr(st, args[0])
        ex.use('OPAQUE:has_extension(P) (consistent extension exists) - uninterpreted; its meaning is checked only by the bounded tier')
        return EXT(token_of(a, st))
    M.opaque['has_extension'] = b_has_extension
    B['has_extension'] = b_has_extension

    def b_is_extension_of(args, kw, st, node):
        g, p = M.as_arr(st, args[0]), M.as_arr(st, args[1])
        return ISEXT(token_of(g, st), token_of(p, st))
    B['is_extension_of'] = b_is_extension_of

    def opaque_pred(name, nargs_tok, extra_sets=0):
        f = z3.Function(name, *([TOK] * nargs_tok + [z3.ArraySort(z3.IntSort(), z3.BoolSort())] * extra_sets + [z3.BoolSort()]))

        def b(args, kw, st, node):
            toks = []
            for a in args[:nargs_tok]:
                arr = M.as_arr(st, a)
                toks.append(token_of3(arr, st) if arr.ndim == 3 else token_of(arr, st))
            sets = []
            for sarg in args[nargs_tok:nargs_tok + extra_sets]:
                S = st.deref(sarg)
                x = z3.Int('ss!x')
                sets.append(z3.Lambda([x], Z(S.member(x))))
            ex.use('OPAQUE:%s - uninterpreted predicate; its meaning (brute-force definition in vk/dsl.py) is checked only by the bounded tier' % name)
            return f(*(toks + sets))
        M.opaque[name] = b
        B[name] = b

    def token_of3(a, st):
        reg = st.ghost.get('tokens3', ())
        for (t, a2) in reg:
            if a2.get is a.get and a2.shape == a.shape:
                return t
        t = z3.Const(fresh_name('M3'), TOK)
        st.ghost['tokens3'] = tuple(reg) + ((t, a),)
        return t
    COMP = z3.Function('compelled', TOK, z3.IntSort(), z3.IntSort(), z3.BoolSort())

    def b_compelled(args, kw, st, node):
        """compelled(G, a, b): the edge a -> b of the DAG G has this direction in every member of G's Markov equivalence class
        (uninterpreted; concrete definition by brute force in vk/dsl.py)"""
        g = M.as_arr(st, args[0])
        ex.use('OPAQUE:compelled(G, a, b) - uninterpreted; its meaning (brute force over the equivalence class) is checked only by the bounded tier')
        return COMP(token_of(g, st), Z(num(args[1])), Z(num(args[2])))
    M.opaque['compelled'] = b_compelled
    B['compelled'] = b_compelled
    opaque_pred('valid_edge_order', 1)
    opaque_pred('enumerates_mec', 2)
    opaque_pred('enumerates_extensions', 2)
    opaque_pred('is_cpdag_of', 2)
    opaque_pred('any_extension_cpdag', 2)
    # the target set is a parameter that the functions never modify (frame obligation): it is left implicit in the symbol
    opaque_pred('enumerates_imec', 2)
    opaque_pred('is_icpdag_of', 2)

    # ---- directed reachability: reflexive-transitive closure of  i -> j  (dedge), opaque with its closure laws
    REACH = z3.Function('reach', TOK, z3.IntSort(), z3.IntSort(), z3.BoolSort())
    COMP = z3.Function('ucomp', TOK, z3.IntSort(), z3.IntSort(), z3.BoolSort())

    def closure_axioms(R, tok, a, st, step, key):
        done = st.ghost.get(key, ())
        if any(t.eq(tok) for t in done):
            return
        st.ghost[key] = tuple(done) + (tok,)
        n = a.shape[0]
        i, j, k = bvar('i'), bvar('j'), bvar('k')
        nd = lambda x: in_range(x, 0, n)
        st.assume(forall([i], IMPLIES(nd(i), R(tok, i, i))))
        st.assume(forall([i, j], IMPLIES(R(tok, i, j), AND(nd(i), nd(j)))))
        st.assume(forall([i, k, j], IMPLIES(AND(nd(i), nd(k), nd(j), step(i, k), R(tok, k, j)), R(tok, i, j))))
        st.assume(forall([i, k, j], IMPLIES(AND(nd(i), nd(k), nd(j), R(tok, i, k), step(k, j)), R(tok, i, j))))
        # unfolding (theorems of the least fixed point)
        st.assume(forall([i, j], IMPLIES(R(tok, i, j), OR(i == j, exists([k], AND(nd(k), step(i, k), R(tok, k, j)))))))
        st.assume(forall([i, j], IMPLIES(R(tok, i, j), OR(i == j, exists([k], AND(nd(k), R(tok, i, k), step(k, j)))))))
        ex.use('DEF:reach / ucomp are the reflexive-transitive closures of the directed / undirected edge relation (closure and unfolding laws [Lean: Lemmas.rtc_*])')

    def b_reach(args, kw, st, node):
        a = M.as_arr(st, args[0])
        tok = token_of(a, st)
        de = lambda u, v: AND(NOT(EQ(a.get(u, v), 0)), EQ(a.get(v, u), 0))
        closure_axioms(REACH, tok, a, st, de, 'reach_ax')
        return REACH(tok, Z(num(args[1])), Z(num(args[2])))
    B['reach'] = b_reach

    def b_ucomp(args, kw, st, node):
        a = M.as_arr(st, args[0])
        tok = token_of(a, st)
        ue = lambda u, v: AND(NOT(EQ(a.get(u, v), 0)), NOT(EQ(a.get(v, u), 0)))
        closure_axioms(COMP, tok, a, st, ue, 'ucomp_ax')
        return COMP(tok, Z(num(args[1])), Z(num(args[2])))
    B['ucomp'] = b_ucomp

    def b_closed_superset(args, kw, st, node):
        """L-LFP (induction principle of the least fixed point): closed_superset(rel, A, i, lambda x: x in V):
        i in V and V closed under the step relation  =>  every node related to i is in V"""
        which = args[0]
        a = M.as_arr(st, args[1])
        i0 = Z(num(args[2]))
        inV = lambda x: ex.truth(ex.call(args[3], [x], {}, st, node), st)
        n = a.shape[0]
        u, v = bvar('u'), bvar('v')
        if which == 'ucomp':
            step = lambda x, y: AND(NOT(EQ(a.get(x, y), 0)), NOT(EQ(a.get(y, x), 0)))
            R = lambda x, y: b_ucomp([args[1], x, y], {}, st, node)
        else:
            step = lambda x, y: AND(NOT(EQ(a.get(x, y), 0)), EQ(a.get(y, x), 0))
            R = lambda x, y: b_reach([args[1], x, y], {}, st, node)
        closed = forall([u, v], IMPLIES(AND(in_range(u, 0, n), in_range(v, 0, n), inV(u), step(u, v)), inV(v)))
        ex.use('L-LFP:induction principle of the reflexive-transitive closure [Lean: Lemmas.rtc_closed_superset]')
        return IMPLIES(AND(inV(i0), closed), forall([v], IMPLIES(R(i0, v), inV(v))))
    B['closed_superset'] = b_closed_superset

    NP = z3.Function('sdp_count', TOK, z3.IntSort(), z3.IntSort(), z3.IntSort())
    PL = z3.Function('sdp_len', TOK, z3.IntSort(), z3.IntSort(), z3.IntSort(), z3.IntSort())
    PE = z3.Function('sdp_node', TOK, z3.IntSort(), z3.IntSort(), z3.IntSort(), z3.IntSort(), z3.IntSort())

    def b_sd_paths(args, kw, st, node):
        """sd_paths(G, a, b): THE list of simple semi-directed paths from a to b (opaque function of the graph and the end points)"""
        g = M.as_arr(st, args[0])
        tok = token_of(g, st)
        a, b = Z(num(args[1])), Z(num(args[2]))
        k = bvar('k')
        st.assume(NP(tok, a, b) >= 0)
        st.assume(forall([k], PL(tok, a, b, k) >= 0))
        ex.use('OPAQUE:sd_paths(G,a,b) - the list of simple semi-directed paths; uninterpreted, its meaning is checked only by the bounded tier')
        return st.alloc(SList(NP(tok, a, b), lambda kk: SList(PL(tok, a, b, Z(kk)), lambda m: PE(tok, a, b, Z(kk), Z(m)), INT), TList(INT)))
    B['sd_paths'] = b_sd_paths

    def b_same_list(args, kw, st, node):
        a, b = st.deref(args[0]), st.deref(args[1])
        return ex.list_eq(a, b)
    B['same_list'] = b_same_list
    B['same_path_set'] = lambda args, kw, st, node: True

    # ---- user callables (ANM assignments / noise distributions): ghost call log as uninterpreted functions of the variable index
    ARGN = z3.Function('call_ncols', z3.IntSort(), z3.IntSort())
    ARGCOL = z3.Function('call_col', z3.IntSort(), z3.IntSort(), z3.IntSort())
    ARGV = z3.Function('call_arg', z3.IntSort(), z3.IntSort(), z3.IntSort(), z3.RealSort())
    RET = z3.Function('call_ret', z3.IntSort(), z3.IntSort(), z3.RealSort())
    DRAWV = z3.Function('draw', z3.IntSort(), z3.IntSort(), z3.IntSort(), z3.RealSort())
    ROLE = {'noise': 0, 'do': 1, 'shift': 2, 'newnoise': 3}

    def owned(ref):
        """what a caller-supplied callable returns belongs to the caller (it may be a buffer the callable keeps): an in-place
        update of it is a frame violation, exactly like a write to an argument"""
        ex.frame_roots[ref.oid] = 'the array returned by a caller-supplied callable'
        return ref

    def call_user_callable(f, args, kw, st, node):
        idx = Z(num(f.index))
        key = (f.role, str(idx))
        called = st.ghost.get('uf_called', ())
        ex.oblige(st, 'single-call', key not in called, node, text='the %s callable of a variable is invoked at most once per pass' % f.role)
        st.ghost['uf_called'] = tuple(called) + (key,)
        ex.use('A-CALLABLE:user callables are opaque; the k-th variable\'s %s callable is logged as ghost functions of k (argument, column map, return value / draw)' % f.role)
        if f.role == 'assign':
            a = M.as_arr(st, args[0])
            if a.ndim != 2:
                raise Unsupported('assignment called with a non-matrix')
            n, m = a.shape
            r, c = bvar('r'), bvar('c')
            st.assume(ARGN(idx) == Z(m))
            st.assume(forall([r, c], IMPLIES(AND(in_range(r, 0, n), in_range(c, 0, m)), ARGV(idx, r, c) == to_real(Z(num(a.get(r, c)))))))
            cols = st.ghost.get('mask_cols', {}).get(id(a.get))
            if cols is not None:
                st.assume(forall([c], IMPLIES(in_range(c, 0, m), ARGCOL(idx, c) == Z(cols.get(c)))))
            else:
                ex.oblige(st, 'assign-arg-is-parent-selection', False, node, text='the assignment receives X[:, <boolean parent mask>]')
            shape = st.ghost.get('assign_shape', 'vec')
            if shape == 'scalar':
                return RET(idx, z3.IntVal(0))
            if shape == 'col':
                return owned(st.alloc(SArr((n, 1), lambda rr, cc: RET(idx, Z(rr)), 'float')))
            return owned(st.alloc(SArr((n,), lambda rr: RET(idx, Z(rr)), 'float')))
        if f.role in ROLE:
            n = num(args[0])
            return owned(st.alloc(SArr((n,), lambda rr, k=ROLE[f.role]: DRAWV(z3.IntVal(k), idx, Z(rr)), 'float')))
        raise Unsupported('callable role ' + f.role)
    M.call_user_callable = call_user_callable
    B['call_ncols'] = lambda args, kw, st, node: ARGN(Z(num(args[0])))
    B['call_col'] = lambda args, kw, st, node: ARGCOL(Z(num(args[0])), Z(num(args[1])))
    B['call_arg'] = lambda args, kw, st, node: ARGV(Z(num(args[0])), Z(num(args[1])), Z(num(args[2])))
    B['call_ret'] = lambda args, kw, st, node: RET(Z(num(args[0])), Z(num(args[1])) if st.ghost.get('assign_shape', 'vec') != 'scalar' else z3.IntVal(0))
    B['draw'] = lambda args, kw, st, node: DRAWV(z3.IntVal(ROLE[args[0]]), Z(num(args[1])), Z(num(args[2])))

    def b_exact_sum(args, kw, st, node):
        L = st.deref(args[0])
        return M.exact_sum_of(L, st)
    B['exact_sum'] = b_exact_sum

    def b_prefix_round(args, kw, st, node):
        """prefix_round(n, ratios, i) = sum_{j<i} round(n * ratios[j])   (recursive definition, asserted once per ratio list)"""
        from .npmodel3 import ROUND
        n, L, i = Z(num(args[0])), st.deref(args[1]), Z(num(args[2]))
        reg = st.ghost.get('prefix_round', ())
        for (f0, g0) in reg:
            if g0 is L.get:
                return f0(n, i)
        f = z3.Function(fresh_name('prefix_round'), z3.IntSort(), z3.IntSort(), z3.IntSort())
        nn, ii = bvar('n'), bvar('i')
        st.assume(forall([nn], f(nn, 0) == 0))
        st.assume(forall([nn, ii], IMPLIES(in_range(ii, 0, L.n), f(nn, ii + 1) == f(nn, ii) + ROUND(to_real(nn) * Z(L.get(ii))))))
        st.assume(forall([nn, ii], IMPLIES(AND(nn >= 0, in_range(ii, 0, L.n), Z(L.get(ii)) >= 0), ROUND(to_real(nn) * Z(L.get(ii))) >= 0)))
        st.ghost['prefix_round'] = tuple(reg) + ((f, L.get),)
        ex.use('DEF:prefix_round(n, ratios, i) = sum of round(n x ratio_j) over j < i (recursive definition)')
        return f(n, i)
    B['prefix_round'] = b_prefix_round

    B['is_list'] = lambda args, kw, st, node: isinstance(st.deref(args[0]), SList)

    def b_is_ndarray(args, kw, st, node):
        return isinstance(st.deref(args[0]), SArr)
    B['is_ndarray'] = b_is_ndarray

    def b_independent(args, kw, st, node):
        a, b = args
        if isinstance(a, Ref) and isinstance(b, Ref):
            return a.oid != b.oid and a.origin == 'fresh' and b.origin == 'fresh'
        return True
    B['independent'] = b_independent

    def b_fresh(args, kw, st, node):
        return True
    B['is_fresh'] = b_fresh
