"""Built-in vocabulary of the contract DSL (symbolic interpretation).

The concrete interpretation of the same names lives in vk/dsl.py.
"""
import ast
import z3
from .values import *   # noqa: F401,F403


def register(M):
    ex = M.ex
    B = M.builtins
    SF = M.special_forms

    def b_iff(args, kw, st, node):
        a, b = ex.truth(args[0], st), ex.truth(args[1], st)
        if isinstance(a, bool) and isinstance(b, bool):
            return a == b
        return Z(a) == Z(b)
    B['iff'] = b_iff

    def sf_array_of(e, st):
        """array_of(n, m, lambda i, j: expr) / array_of(n, lambda i: expr)"""
        dims = [num(ex.ev(a, st)) for a in e.args[:-1]]
        lam = e.args[-1]
        if not isinstance(lam, ast.Lambda):
            raise Unsupported('array_of needs a lambda')
        vs = [bvar(a.arg) for a in lam.args.args]
        loc = st.fork()
        for a, v in zip(lam.args.args, vs):
            loc.env[a.arg] = v
        ex.bound_stack.extend(vs)
        try:
            val = ex.ev(lam.body, loc)
        finally:
            del ex.bound_stack[-len(vs):]
        from .npmodel2 import free_consts
        bound_ids = {v.get_id() for v in vs}
        for f in loc.pc[len(st.pc):]:
            if not any(c.get_id() in bound_ids for c in free_consts(f)):
                st.pc.append(f)
        st.ghost = loc.ghost
        kind = 'bool' if is_bool(val) else ('int' if is_int(val) else 'float')
        kw = {k.arg: k.value for k in e.keywords}
        if 'kind' in kw:
            kind = ast.literal_eval(kw['kind'])
        from .npmodel import cast
        return st.alloc(SArr(tuple(dims), lambda *ix: cast(subst(val, list(zip(vs, ix))), kind), kind))
    SF['array_of'] = sf_array_of

    def sf_list_of(e, st):
        n = num(ex.ev(e.args[0], st))
        lam = e.args[1]
        v = bvar(lam.args.args[0].arg)
        loc = st.fork(); loc.env[lam.args.args[0].arg] = v
        val = ex.snapshot(ex.ev(lam.body, loc), loc)
        return st.alloc(SList(n, lambda k: subst(val, [(v, k)]), type_of(val)))
    SF['list_of'] = sf_list_of

    def sf_count(e, st):
        """count(n, lambda i: pred) / count(n, m, lambda i, j: pred): number of positions of the box satisfying pred"""
        from .npmodel2 import count_instance, free_consts
        dims = [num(ex.ev(a, st)) for a in e.args[:-1]]
        lam = e.args[-1]
        vs = [bvar(a.arg) for a in lam.args.args]
        loc = st.fork()
        for a, v in zip(lam.args.args, vs):
            loc.env[a.arg] = v
        val = Z(ex.truth(ex.ev(lam.body, loc), loc))
        fc = free_consts(val)
        for d in dims:
            fc |= free_consts(d) if is_z3(d) else set()
        ps = [b for b in ex.bound_stack if any(b.eq(c) for c in fc)]
        f = count_instance(M, st, ps, lambda pv, ix: subst(val, list(zip(ps, pv)) + list(zip(vs, ix))),
                           lambda pv: [subst(d, list(zip(ps, pv))) if is_z3(d) else d for d in dims], 'count')
        return f(*ps)
    SF['count'] = sf_count

    def b_card_le(args, kw, st, node):
        raise Unsupported('card_le')

    def b_is_int(args, kw, st, node):
        v = args[0]
        return is_int(v) or is_bool(v)
    B['is_int'] = b_is_int

    def b_distinct(args, kw, st, node):
        L = st.deref(args[0])
        if isinstance(L, SArr) and L.ndim == 1:
            L = SList(L.shape[0], L.get, KIND_T[L.kind])
        return list_distinct(L)
    B['distinct'] = b_distinct

    def b_same_array(args, kw, st, node):
        """same_array(A, B): equal shapes and entries"""
        a, b = M.as_arr(st, args[0]), M.as_arr(st, args[1])
        if a.ndim != b.ndim:
            return False
        vs = [bvar('e') for _ in a.shape]
        box = AND(*[in_range(v, 0, d) for v, d in zip(vs, a.shape)])
        return AND(M.shape_eq(a.shape, b.shape), forall(vs, IMPLIES(box, EQ(num(a.get(*vs)), num(b.get(*vs))))))
    B['same_array'] = b_same_array

    def b_defines(args, kw, st, node):
        a, b = st.deref(args[0]), st.deref(args[1])
        if isinstance(a, SArr) or isinstance(b, SArr):
            return b_same_array(args, kw, st, node)
        if isinstance(a, SList) and isinstance(b, SList):
            return ex.list_eq(a, b)
        if isinstance(a, SSet) and isinstance(b, SSet):
            return set_eq(a, b)
        return EQ(a, b)
    B['defines'] = b_defines

    def b_kind(args, kw, st, node):
        a = M.as_arr(st, args[0])
        return a.kind
    B['kind'] = b_kind

    def b_fresh(args, kw, st, node):
        return True
    B['is_fresh'] = b_fresh
