"""Loops: cut at the invariant given in the contract files (inductive, unbounded);
concrete-length loops without invariant are unrolled."""
import ast
import z3
from .values import *   # noqa: F401,F403
from .engine import sync_ghost
from .engine import State, fresh_like
from .npmodel import LAZY

UNROLL_MAX = 12
MUTATORS = {'append', 'pop', 'add', 'remove', 'extend', 'insert', 'update', 'discard', 'clear', 'sort', 'shuffle', 'fill', 'reverse'}


def loop_ordinal(ex, node):
    fn = ex.cur_node_stack[-1]
    loops = [n for n in ast.walk(fn) if isinstance(n, (ast.While, ast.For))]
    loops.sort(key=lambda n: (n.lineno, n.col_offset))
    return loops.index(node) + 1


def root_name(e):
    while isinstance(e, (ast.Subscript, ast.Attribute)):
        e = e.value
    return e.id if isinstance(e, ast.Name) else None


def modified(body):
    rebound, mutated, called = set(), set(), set()

    def tgt(t):
        if isinstance(t, ast.Name):
            rebound.add(t.id)
        elif isinstance(t, (ast.Tuple, ast.List)):
            for x in t.elts:
                tgt(x)
        elif isinstance(t, (ast.Subscript, ast.Attribute)):
            r = root_name(t)
            if r:
                mutated.add(r)
    for stmt in body:
        for n in ast.walk(stmt):
            if isinstance(n, ast.Assign):
                for t in n.targets:
                    tgt(t)
            elif isinstance(n, ast.AugAssign):
                tgt(n.target)
                if isinstance(n.target, ast.Name):
                    mutated.add(n.target.id)
            elif isinstance(n, ast.For):
                tgt(n.target)
            elif isinstance(n, ast.Call) and isinstance(n.func, ast.Attribute) and n.func.attr in MUTATORS:
                r = root_name(n.func.value)
                if r:
                    mutated.add(r)
            elif isinstance(n, ast.Call) and isinstance(n.func, ast.Attribute) and isinstance(n.func.value, ast.Name):
                called.add(n.func.value.id)
            elif isinstance(n, ast.ExceptHandler) and n.name:
                rebound.add(n.name)
    return rebound, mutated, called


def get_invariant(ex, node):
    k = loop_ordinal(ex, node)
    q = ex.cur_qual_stack[-1]
    return k, ex.db.invariants.get((q, k))


def inv_clauses(inv):
    return [(i, a) for i, a in enumerate(x for cl in inv.of('holds') for x in cl.args)]


def inv_decls(ex, inv):
    from .types_eval import eval_type
    d = {}
    for cl in inv.of('declare'):
        for k, v in cl.kw.items():
            d[k] = eval_type(v)
    return d


def eval_inv(ex, inv, st, extra):
    """evaluate invariant clauses in state st (+ extra bindings); returns list of (index, text, term)"""
    loc = State(dict(st.env, **extra), st.heap, st.ver, st.pc, st.ghost)
    out = []
    for nm, t in inv_decls(ex, inv).items():
        v = loc.env.get(nm)
        pv = loc.deref(v) if isinstance(v, Ref) else v
        if isinstance(pv, SList) and pv.elem is None and isinstance(t, TList):
            loc.env[nm] = loc.alloc(SList.of(pv.concrete_items() or [], t.elem) if pv.concrete_items() is not None else SList(pv.n, pv.get, t.elem))
    for cl in inv.of('let'):
        for k, v in cl.kw.items():
            loc.env[k] = ex.evs(v, loc)
    for i, a in inv_clauses(inv):
        out.append((i, ast.unparse(a), ex.truth(ex.evs(a, loc), loc)))
    st.heap, st.ver = loc.heap, loc.ver
    st.pc[:] = loc.pc        # facts introduced while evaluating spec text (count instances, enumerations) are axioms
    sync_ghost(st, loc.ghost)
    return out


def bind_heads(st, body):
    """head_<name>: value of a body-modified variable at the head of the current iteration (for hints about one step)"""
    rebound, mutated, called = modified(body)
    for nm in rebound | mutated:
        if nm in st.env:
            v = st.env[nm]
            st.env['head_' + nm] = st.alloc(st.deref(v)) if isinstance(v, Ref) else v


def apply_inv_hints(ex, inv, s, extra):
    """hint(...) clauses of an invariant: lemma instances about the step just executed (assumed before the preservation obligations)"""
    for cl in inv.of('hint'):
        for a in cl.args:
            loc = State(dict(s.env, **extra), s.heap, s.ver, s.pc, s.ghost)
            f = ex.truth(ex.evs(a, loc), loc)
            s.heap.update({k2: v2 for k2, v2 in loc.heap.items() if k2 not in s.heap})
            s.assume(f)


def oblige_inv(ex, st, kind, k, clauses, t, what):
    """one obligation per invariant clause; clause m may use clauses < m (each has its own obligation)"""
    base = list(st.pc)
    acc = []
    for (i, txt, g) in clauses:
        st.pc[:] = base + acc
        ex.oblige(st, '%s:L%d.%d' % (kind, k, i), g, t, text='loop %d invariant %s: %s' % (k, what, txt))
        if g is not True:
            acc.append(Z(g))
    st.pc[:] = base


def havoc(ex, st, body, inv, extra_rebound=()):
    rebound, mutated, called = modified(body)
    rebound |= set(extra_rebound)
    havoc_generators(ex, st, called, body)
    decls = inv_decls(ex, inv) if inv is not None else {}
    for nm in sorted(rebound | mutated):
        if nm not in st.env:
            continue
        cur = st.env[nm]
        pv = st.deref(cur)
        if isinstance(pv, SList) and pv.elem is None and nm in decls:
            pv = SList(pv.n, pv.get, decls[nm].elem)
        if isinstance(pv, tuple) and pv and isinstance(pv[0], str):
            raise Unsupported('havoc of lazy value %s' % nm)
        if isinstance(pv, SDict) and nm in mutated:
            if nm not in decls or not isinstance(decls[nm], TDict):
                raise Unsupported('loop mutates dict %s (declare its value type in the invariant)' % nm)
            facts = []
            vf = fresh_fun(decls[nm].val, nm + '_val', 1, facts)
            for f in facts:
                st.assume(f)
            nd = SDict(pv.dom, lambda kx, vf=vf: vf(kx), decls[nm].val)
            nd.keys_range = getattr(pv, 'keys_range', None)
            st.store(cur, nd)
            continue
        if isinstance(pv, (SObj, SFun, SGen, SDict)) or pv is None or isinstance(pv, str):
            if nm in rebound and nm not in mutated and (pv is None or isinstance(pv, str)):
                raise Unsupported('loop rebinds %s from a non-numeric value' % nm)
            continue
        if nm in decls and not isinstance(pv, CONTAINERS):
            facts = []
            nv = fresh_value(decls[nm], nm, assume=facts)
            for f in facts:
                st.assume(f)
        else:
            nv = fresh_like(pv, nm, st)
        if isinstance(cur, Ref):
            if nm in rebound:
                if nm in mutated and (cur.origin != 'fresh'):
                    raise Unsupported('loop rebinds and mutates %s which aliases caller storage' % nm)
                if isinstance(nv, SArr) and nm in rebound:
                    # a rebound array may change shape
                    nv = fresh_value(nv.type(), nm, assume=st.pc)
                st.env[nm] = st.alloc(nv)
            else:
                st.store(cur, nv)       # same object, unknown content (frame obligations arise at the real writes)
        else:
            st.env[nm] = nv


def havoc_generators(ex, st, called, body):
    """a Generator used inside the loop: its state at the loop head is an unknown *function of the entry state*
    (draws stay deterministic in the seed); the global generator likewise when the body may draw from it"""
    from .rng_rules import ST, F, global_state, set_global
    for nm in sorted(called):
        v = st.env.get(nm)
        pv = st.deref(v) if isinstance(v, Ref) else v
        if isinstance(pv, SGen) and isinstance(v, Ref):
            k = z3.Int(fresh_name('iter'))
            st.store(v, SGen(F('loop_state', ST, z3.IntSort(), ST)(pv.state, k)))
    src = ast.unparse(ast.Module(list(body), []))
    if 'np.random.' in src or '(n)' in src or any(isinstance(st.deref(x) if isinstance(x, Ref) else x, SFun) for x in st.env.values()):
        k = z3.Int(fresh_name('iter'))
        g = global_state(st)
        st.ghost['G'] = F('loop_state', ST, z3.IntSort(), ST)(g, k)


def exec_while(ex, t, st):
    if t.orelse:
        raise Unsupported('while/else')
    k, inv = get_invariant(ex, t)
    if inv is None:
        return unroll_while(ex, t, st)
    q = ex.cur_qual_stack[-1]
    entry = {'entry_' + nm: v for nm, v in st.env.items()}
    oblige_inv(ex, st, 'inv-init', k, eval_inv(ex, inv, st, entry), t, 'holds on entry')
    hv = st.fork()
    hv.env.update(entry)
    havoc(ex, hv, t.body, inv)
    for (i, txt, g) in eval_inv(ex, inv, hv, {}):
        hv.assume(g)
    c = ex.truth(ex.ev(t.test, hv), hv)
    res = [(sx, 'raise', exc) for (sx, exc) in hv.side]
    hv.side = []
    b = hv.fork()
    b.assume(c)
    bind_heads(b, t.body)
    dec0 = None
    if inv.of('decreases'):
        loc = State(b.env, b.heap, b.ver, b.pc, b.ghost)
        dec0 = ex.evs(inv.of('decreases')[0].args[0], loc)
    exits = []
    for (s, kind, v) in ex.exec_block(t.body, b):
        if kind in ('next', 'continue'):
            apply_inv_hints(ex, inv, s, {})
            oblige_inv(ex, s, 'inv-preserved', k, eval_inv(ex, inv, s, {}), t, 'preserved')
            if dec0 is not None:
                loc = State(s.env, s.heap, s.ver, s.pc, s.ghost)
                dec1 = ex.evs(inv.of('decreases')[0].args[0], loc)
                ex.oblige(s, 'variant:L%d' % k, AND(Z(dec0) >= 0, Z(dec1) < Z(dec0)), t, text='loop %d variant decreases' % k)
        elif kind == 'break':
            exits.append((s, 'next', None))
        else:
            res.append((s, kind, v))
    after = hv.fork()
    after.assume(NOT(c))
    drop_entry(after)
    for (s, _, _) in exits:
        drop_entry(s)
    return res + exits + [(after, 'next', None)]


def drop_entry(s):
    for nm in [n for n in s.env if n.startswith('entry_')]:
        pass   # entry_ names stay readable by later invariants; harmless


def unroll_while(ex, t, st):
    states = [st]
    out = []
    for it in range(UNROLL_MAX + 1):
        nxt = []
        for s in states:
            c = ex.truth(ex.ev(t.test, s), s)
            out += [(sx, 'raise', exc) for (sx, exc) in s.side]
            s.side = []
            if c is False:
                out.append((s, 'next', None))
                continue
            if c is not True:
                raise Unsupported('while loop %d of %s has no invariant' % (loop_ordinal(ex, t), ex.cur_qual_stack[-1]))
            for (s2, kind, v) in ex.exec_block(t.body, s):
                if kind in ('next', 'continue'):
                    nxt.append(s2)
                elif kind == 'break':
                    out.append((s2, 'next', None))
                else:
                    out.append((s2, kind, v))
        states = nxt
        if not states:
            return out
    raise Unsupported('while loop exceeds the unrolling bound and has no invariant')


def iter_kind(ex, itv, st):
    pv = st.deref(itv)
    if tag(pv) == 'range' and pv[3] == 1:
        lo, hi = pv[1], pv[2]
        n = ex.np.nonneg_diff(hi, lo)
        return 'index', n, (lambda k: (Z(k) + Z(lo)) if (is_z3(k) or is_z3(lo)) else k + lo) if (is_z3(lo) or lo != 0) else (lambda k: k)
    if tag(pv) == 'range' and pv[3] == -1:       # range(hi, lo, -1): hi, hi-1, ..., lo+1
        hi, lo = pv[1], pv[2]
        n = ex.np.nonneg_diff(hi, lo)
        return 'index', n, (lambda k: (Z(hi) - Z(k)) if (is_z3(k) or is_z3(hi)) else hi - k)
    if tag(pv) in LAZY:
        pv = st.deref(ex.np.materialise(pv, st))
    if isinstance(pv, SList):
        return 'index', pv.n, pv.get
    if isinstance(pv, SArr):
        if pv.ndim == 1:
            return 'index', pv.shape[0], pv.get
        return 'index', pv.shape[0], (lambda k: SArr(pv.shape[1:], lambda *ix: pv.get(k, *ix), pv.kind))
    if isinstance(pv, SSet):
        return 'set', pv, None
    if isinstance(pv, SDict):
        return 'set', pv.dom, None
    if isinstance(pv, tuple):
        return 'index', len(pv), (lambda k: pv[k])
    raise Unsupported('for loop over %r' % (type(pv),))


def exec_for(ex, t, st):
    if t.orelse:
        raise Unsupported('for/else')
    k, inv = get_invariant(ex, t)
    itv = ex.ev(t.iter, st)
    res = [(sx, 'raise', exc) for (sx, exc) in st.side]
    st.side = []
    kind, dom, get = iter_kind(ex, itv, st)
    if inv is None:
        if kind == 'index' and isinstance(dom, int) and dom <= UNROLL_MAX:
            return res + unroll_for(ex, t, st, dom, get)
        raise Unsupported('for loop %d of %s has no invariant' % (k, ex.cur_qual_stack[-1]))
    tnames = [n.id for n in ast.walk(t.target) if isinstance(n, ast.Name)]
    entry = {'entry_' + nm: v for nm, v in st.env.items()}
    if kind == 'index':
        n = dom
        itl = st.alloc(SList(n, get, None))
        init_extra = {**entry, '_k': 0, '_n': n, '_iter': itl, '_k%d' % k: 0, '_iter%d' % k: itl}
        oblige_inv(ex, st, 'inv-init', k, eval_inv(ex, inv, st, init_extra), t, 'holds on entry')
        hv = st.fork()
        hv.env.update(entry)
        havoc(ex, hv, t.body, inv)
        kk = z3.Int(fresh_name('_k'))
        hv.env['_k'], hv.env['_n'], hv.env['_iter'] = kk, n, itl
        hv.env['_k%d' % k], hv.env['_iter%d' % k] = kk, itl
        hv.assume(AND(0 <= kk, kk <= Z(n)))
        for (i, txt, g) in eval_inv(ex, inv, hv, {}):
            hv.assume(g)
        b = hv.fork()
        b.assume(kk < Z(n))
        bind_heads(b, t.body)
        ex.bind_target(t.target, get(kk), b)
        if isinstance(t.target, ast.Name) and isinstance(itv, Ref) and isinstance(b.env.get(t.target.id), Ref):
            root = itv.root if itv.origin == 'alias' and itv.root is not None else itv.oid
            if root in ex.frame_roots:
                el = b.deref(b.env[t.target.id])
                b.env[t.target.id] = b.alloc(el, 'alias', root=root, rootver=b.ver.get(root, 0), note='param element of ' + ex.frame_roots[root])
        exits = []
        for (s, kd, v) in ex.exec_block(t.body, b):
            if kd in ('next', 'continue'):
                apply_inv_hints(ex, inv, s, {})
                oblige_inv(ex, s, 'inv-preserved', k, eval_inv(ex, inv, s, {'_k': kk + 1, '_k%d' % k: kk + 1}), t, 'preserved')
            elif kd == 'break':
                exits.append((s, 'next', None))
            else:
                res.append((s, kd, v))
        after = hv.fork()
        after.assume(kk == Z(n))
        # python leaves the loop variable bound to the last element (unknown here)
        for nm in tnames:
            after.env.pop(nm, None) if nm not in st.env else None
        return res + exits + [(after, 'next', None)]
    # ---- iteration over a set: arbitrary order
    S = dom
    empty = SSet.empty(S.elem)
    e0, s0 = st.alloc(empty), st.alloc(S)
    init_extra = {**entry, '_done': e0, '_iter': s0, '_done%d' % k: e0, '_iter%d' % k: s0}
    oblige_inv(ex, st, 'inv-init', k, eval_inv(ex, inv, st, init_extra), t, 'holds on entry')
    hv = st.fork()
    hv.env.update(entry)
    havoc(ex, hv, t.body, inv)
    D = fresh_value(TSet(S.elem), '_done')
    hv.env['_done'], hv.env['_iter'] = hv.alloc(D), hv.alloc(S)
    hv.env['_done%d' % k], hv.env['_iter%d' % k] = hv.env['_done'], hv.env['_iter']
    hv.assume(set_subset(D, S))
    for (i, txt, g) in eval_inv(ex, inv, hv, {}):
        hv.assume(g)
    b = hv.fork()
    x = fresh_value(S.elem, '_x')
    b.assume(S.member(x)); b.assume(NOT(D.member(x)))
    bind_heads(b, t.body)
    ex.bind_target(t.target, x, b)
    exits = []
    for (s, kd, v) in ex.exec_block(t.body, b):
        if kd in ('next', 'continue'):
            D2 = SSet(lambda y, D=D, x=x: OR(D.member(y), EQ(y, x)), S.elem)
            apply_inv_hints(ex, inv, s, {})
            d2r = s.alloc(D2)
            oblige_inv(ex, s, 'inv-preserved', k, eval_inv(ex, inv, s, {'_done': d2r, '_done%d' % k: d2r}), t, 'preserved')
        elif kd == 'break':
            exits.append((s, 'next', None))
        else:
            res.append((s, kd, v))
    after = hv.fork()
    after.assume(set_eq(D, S))
    return res + exits + [(after, 'next', None)]


def unroll_for(ex, t, st, n, get):
    states = [st]
    out = []
    for k in range(n):
        nxt = []
        for s in states:
            ex.bind_target(t.target, get(k), s)
            for (s2, kd, v) in ex.exec_block(t.body, s):
                if kd in ('next', 'continue'):
                    nxt.append(s2)
                elif kd == 'break':
                    out.append((s2, 'next', None))
                else:
                    out.append((s2, kd, v))
        states = nxt
    return out + [(s, 'next', None) for s in states]
