"""dev helper: verify selected functions and print verdicts"""
import os, sys, time
from vk.engine import Program
from vk.contracts import ContractDB
from vk.verify import verify_function
from vk import smt

FILES = {'sempler.utils': '/repo/sempler/utils.py', 'sempler.lganm': '/repo/sempler/lganm.py', 'sempler.anm': '/repo/sempler/anm.py',
         'sempler.normal_distribution': '/repo/sempler/normal_distribution.py', 'sempler.generators': '/repo/sempler/generators.py',
         'sempler.noise': '/repo/sempler/noise.py', 'sempler.functions': '/repo/sempler/functions.py', 'sempler.semi': '/repo/sempler/semi.py'}

if __name__ == '__main__':
    import os
    repo = os.environ.get('VK_REPO', '/repo')
    prog = Program({k: v.replace('/repo', repo) for k, v in FILES.items()})
    db = ContractDB().load_dir(os.path.join(os.path.dirname(os.path.dirname(os.path.abspath(__file__))), 'contracts'))
    names = sys.argv[1:] or sorted(db.contracts)
    for q in names:
        flt = os.environ.get('VK_CASE')
        for c, case in [(c, case) for c in db.contracts[q] for case in db.cases_of(c) if not flt or all(x in str(sorted(case.items())) for x in flt.split(';'))]:
            t = time.time()
            fr = verify_function(prog, db, q, c, case=case)
            if fr.degraded:
                print('DEGRADED', q, fr.degraded)
            if os.environ.get('VK_ONLY'):
                fr.obligations = [o for o in fr.obligations if any(x in o.id for x in os.environ['VK_ONLY'].split(';'))]
            res = smt.discharge(fr.obligations, timeout=int(os.environ.get('VK_TMO', '20')), retry_timeout=int(os.environ.get('VK_RETRY', '90')))
            bad = 0
            for o, r in zip(fr.obligations, res):
                ok = (r.verdict == 'unsat') if o.expect == 'unsat' else (r.verdict != 'unsat')
                if not ok or os.environ.get('VK_V'):
                    print('  %-4s %-60s %-8s %-6s %.2fs rl=%d  %s' % ('ok' if ok else 'FAIL', o.id, r.verdict, r.backend, r.secs, r.rl, o.meta['text'][:90]))
                bad += not ok
            print('%s%s: %d obligations, %d failed, %d paths, %.1fs' % (q, case or '', len(res), bad, fr.paths, time.time() - t))
