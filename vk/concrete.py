"""Concrete interpretation of the contract files (runs under /venv/bin/python, numpy + real sempler).

The *same clause text* that vk.engine turns into VCs is compiled and evaluated
on real inputs: used (i) to replay solver counterexamples, (ii) to search small
input domains for a failing input when an obligation fails, (iii) as the
bounded stand-in (tier B) for functions whose loops are out of deductive reach.
Never counted as proof.
"""
import ast
import copy
import importlib
import itertools
import json
import os
import random
import sys

import numpy as np

sys.path.insert(0, os.path.dirname(os.path.dirname(os.path.abspath(__file__))))
from vk import dsl                      # noqa: E402
from vk.contracts import ContractDB     # noqa: E402


def _acyclic(A):
    A = np.asarray(A)
    n = len(A)
    color = [0] * n

    def dfs(u):
        color[u] = 1
        for v in range(n):
            if A[u, v] != 0:
                if color[v] == 1 or (color[v] == 0 and not dfs(v)):
                    return False
        color[u] = 2
        return True
    return all(color[u] != 0 or dfs(u) for u in range(n))


dsl.acyclic = _acyclic


class _LazyImplies(ast.NodeTransformer):
    """implies(a, b) must not evaluate b when a is false (b may index out of range)"""
    def visit_Call(self, n):
        self.generic_visit(n)
        if isinstance(n.func, ast.Name) and n.func.id == 'implies' and len(n.args) == 2:
            return ast.BoolOp(ast.Or(), [ast.UnaryOp(ast.Not(), n.args[0]), ast.Call(ast.Name('bool', ast.Load()), [n.args[1]], [])])
        return n


class Ctx:
    post_state = None

    def __init__(self, contracts_dir, repo=None):
        self.db = ContractDB().load_dir(contracts_dir)
        self.ns = {k: getattr(dsl, k) for k in dir(dsl) if not k.startswith('_')}
        self.ns['acyclic'] = _acyclic
        self.ns['np'] = np
        # spec functions: compile from the contract files (plain python)
        for name, fn in self.db.specs.items():
            f2 = _LazyImplies().visit(copy.deepcopy(fn))
            f2.decorator_list = []
            mod = ast.Module([f2], [])
            ast.fix_missing_locations(mod)
            exec(compile(mod, '<spec %s>' % name, 'exec'), self.ns)
        self.ns.update(self.db.consts)

    def resolve(self, q):
        parts = q.split('.')
        for k in range(len(parts) - 1, 0, -1):
            try:
                obj = importlib.import_module('.'.join(parts[:k]))
            except ImportError:
                continue
            for p in parts[k:]:
                obj = getattr(obj, p)
            return obj
        raise ImportError(q)

    def ev(self, node, env):
        node = _LazyImplies().visit(copy.deepcopy(node))
        ast.fix_missing_locations(node)
        code = compile(ast.Expression(node), '<clause>', 'eval')
        g = dict(self.ns)
        g.update(env)
        if self.post_state is not None:
            np.random.set_state(self.post_state)     # every clause sees the generator as the call left it
        return eval(code, g)

    def check_call(self, q, kwargs, contract=None, ghost=None):
        """run the real function on kwargs and evaluate the contract. returns dict(status=..., clause=...)
        status: 'pre-false' | 'ok' | 'violated'"""
        c = contract or self.db.get(q)
        fn = self.resolve(q)
        env = dict(kwargs)
        old = {k: copy.deepcopy(v) for k, v in kwargs.items()}
        old.update(ghost or {})
        self.ns['old'] = lambda x: x      # parameters are bound to their entry values in env (see below)
        for cl in c.of('requires'):
            for a in cl.args:
                try:
                    if not self.ev(a, dict(old)):
                        return {'status': 'pre-false'}
                except Exception:
                    return {'status': 'pre-false'}
        raises = {cl.args[0].id: cl for cl in c.of('raises')}
        self.post_state = None
        dsl._CLAUSE_STATE[0] = np.random.get_state()        # global_state(): numpy's global generator at function entry
        try:
            result = fn(**kwargs)
            exc = None
        except Exception as e:        # noqa: BLE001
            result, exc = None, e
        self.post_state = np.random.get_state()
        # frame: arguments unchanged (modifies() clauses exempt their targets)
        exempt = {ast.unparse(a) for cl in c.of('modifies') for a in cl.args}
        for k, v in kwargs.items():
            if k in exempt:
                continue
            if callable(v) and not hasattr(v, '__dict__'):
                continue
            if type(v).__name__ == 'Generator':
                if not (v.bit_generator.state == old[k].bit_generator.state):
                    return {'status': 'violated', 'clause': 'frame:%s' % k, 'observed': 'generator argument %s was advanced' % k}
                continue
            if not _same(v, old[k]):
                return {'status': 'violated', 'clause': 'frame:%s' % k, 'observed': 'argument %s was modified' % k}
        env_post = dict(old)
        for k in exempt:
            if k in kwargs:
                env_post[k] = kwargs[k]
        for cl in c.of('let'):          # lets that do not mention the result are available to the raises clauses
            for k2, a in cl.kw.items():
                try:
                    env_post[k2] = self.ev(a, env_post)
                except NameError:
                    pass
        if exc is not None:
            name = type(exc).__name__
            if name not in raises:
                return {'status': 'violated', 'clause': 'no-other-exception', 'observed': '%s: %s' % (name, str(exc)[:200])}
            w = raises[name].kw.get('when')
            if w is not None and not self.ev(w, env_post):
                return {'status': 'violated', 'clause': 'raises:%s when %s' % (name, ast.unparse(w)), 'observed': 'raised although the condition is false'}
            return {'status': 'ok', 'outcome': name}
        for name, cl in raises.items():
            w = cl.kw.get('when')
            if w is not None and self.ev(w, env_post):
                return {'status': 'violated', 'clause': 'raises:%s when %s' % (name, ast.unparse(w)), 'observed': 'returned %s although the condition holds' % _short(result)}
        env_post['result'] = result
        for cl in c.of('let'):
            for k2, a in cl.kw.items():
                env_post[k2] = self.ev(a, env_post)
        for cl in c.of('ensures') + c.of('ensures_assumed'):
            for a in cl.args:
                try:
                    ok = self.ev(a, env_post)
                except Exception as e:    # noqa: BLE001
                    return {'status': 'violated', 'clause': 'ensures ' + ast.unparse(a), 'observed': 'clause evaluation failed: %r on result %s' % (e, _short(result))}
                if not ok:
                    return {'status': 'violated', 'clause': 'ensures ' + ast.unparse(a), 'observed': 'result %s' % _short(result)}
        for cl in c.of('witness'):
            for k2, a in cl.kw.items():
                env_post[k2] = self.ev(a, env_post)
        for cl in c.of('ensures_exists'):
            for a in cl.args:
                try:
                    ok = self.ev(a, env_post)
                except Exception as e:    # noqa: BLE001
                    return {'status': 'violated', 'clause': 'ensures ' + ast.unparse(a), 'observed': 'clause evaluation failed: %r on result %s' % (e, _short(result))}
                if not ok:
                    return {'status': 'violated', 'clause': 'ensures ' + ast.unparse(a), 'observed': 'result %s' % _short(result)}
        for cl in c.of('establishes'):
            for k2, a in cl.kw.items():
                want = self.ev(a, env_post)
                have = getattr(kwargs['self'], k2, None)
                if not dsl.defines(have, want):
                    return {'status': 'violated', 'clause': 'establishes self.%s == %s' % (k2, ast.unparse(a)), 'observed': 'self.%s = %s' % (k2, _short(have))}
        for cl in c.of('fresh'):
            for k, v in kwargs.items():
                if isinstance(v, np.ndarray) and isinstance(result, np.ndarray) and np.shares_memory(v, result):
                    return {'status': 'violated', 'clause': 'fresh:result', 'observed': 'result shares memory with argument %s' % k}
            if isinstance(result, np.ndarray) and result.size > 0:
                # a fresh result is also not the object an identical earlier / later call hands out (memoised or cached arrays)
                st = np.random.get_state()
                try:
                    again = fn(**{k: copy.deepcopy(v) for k, v in old.items() if k in kwargs})
                except Exception:      # noqa: BLE001
                    again = None
                np.random.set_state(st)
                if isinstance(again, np.ndarray) and np.shares_memory(again, result):
                    return {'status': 'violated', 'clause': 'fresh:result', 'observed': 'two identical calls return arrays sharing memory'}
                # ... nor an object the library keeps (a cache that stores what it hands out): when the function is deterministic
                # (the repeat equals the first answer), the caller scribbles over both answers and asks a third time
                if isinstance(again, np.ndarray) and again.shape == result.shape and again.dtype == result.dtype and again.dtype.kind in 'fiub' and _same(again, result) and result.flags.writeable and not ('random_state' in kwargs and kwargs['random_state'] is None):
                    snap = result.copy()
                    try:
                        result[...] = (~result) if result.dtype.kind == 'b' else result + 7
                        again[...] = (~again) if again.dtype.kind == 'b' else again + 7
                        st = np.random.get_state()
                        third = fn(**{k: copy.deepcopy(v) for k, v in old.items() if k in kwargs})
                        np.random.set_state(st)
                    except Exception:      # noqa: BLE001
                        third = None
                    finally:
                        result[...] = snap
                    if isinstance(third, np.ndarray) and third.shape == snap.shape and not _same(third, snap):
                        return {'status': 'violated', 'clause': 'fresh:result', 'observed': 'after the caller modified the returned array in place, an identical call returns %s instead of %s (the library kept a reference to what it handed out)' % (_short(third), _short(snap))}
        return {'status': 'ok', 'outcome': 'return'}


def _nontrivial(v):
    if isinstance(v, np.ndarray):
        return bool(np.any(v != 0))
    if isinstance(v, (int, float)) and not isinstance(v, bool):
        return v != 0
    if isinstance(v, (set, list, tuple, dict)):
        return len(v) > 0
    if hasattr(v, '__dict__'):
        return any(_nontrivial(x) for x in vars(v).values())
    return False


def _same(a, b):
    if isinstance(a, np.ndarray) or isinstance(b, np.ndarray):
        try:
            return np.asarray(a).shape == np.asarray(b).shape and bool(np.all(np.asarray(a) == np.asarray(b)))
        except Exception:
            return False
    if isinstance(a, (list, tuple)) and isinstance(b, (list, tuple)):
        return len(a) == len(b) and all(_same(x, y) for x, y in zip(a, b))
    if isinstance(a, dict) and isinstance(b, dict):
        return a.keys() == b.keys() and all(_same(a[k], b[k]) for k in a)
    if hasattr(a, '__dict__') and hasattr(b, '__dict__') and type(a) is type(b):
        return _same(vars(a), vars(b))
    try:
        return bool(a == b)
    except Exception:
        return a is b


def _same_shapes(a, b):
    has = False
    for n in b:
        if isinstance(b[n], np.ndarray):
            if not (isinstance(a.get(n), np.ndarray) and a[n].shape == b[n].shape and a[n].dtype == b[n].dtype and a[n].flags.writeable):
                return False
            has = True
    return has


def _short(x):
    s = repr(x)
    return s if len(s) < 300 else s[:300] + '...'


# ------------------------------------------------------------------------ inputs by sort

def gen_values(sort_src, rng, p_hint, budget):
    """small-input domain for one parameter, by its declared sort (text of the annotation)"""
    s = sort_src.replace(' ', '')
    if s == 'Int':
        return list(range(-1, 5)) + [6, 10]
    if s == 'Bool':
        return [False, True]
    if s == 'Real':
        return [0.0, 1.0, -1.5, 0.5, 2.0]
    if s in ('Arr2', 'Arr2i'):
        dt = float if s == 'Arr2' else int
        out = []
        for p in (1, 2):
            for ent in itertools.product((0, 1, -1, 2), repeat=p * p):
                out.append(np.array(ent, dtype=dt).reshape(p, p))
        # entries of tiny / huge magnitude: only the non-zero pattern may matter
        if dt is float:
            for tiny in (1e-9, -1e-12, 1e-300, 1e9):
                out.append(np.array([[tiny]]))
                out.append(np.array([[0.0, 1.0], [tiny, 0.0]]))
                out.append(np.array([[0.0, tiny], [0.0, 0.0]]))
                out.append(np.array([[0.0, 1.0, 0.0], [0.0, 0.0, tiny], [-tiny, 0.0, 0.0]]))
                out.append(np.array([[0.0, tiny, 1.0], [0.0, 0.0, -tiny], [0.0, 0.0, 0.0]]))
        # p = 3: every binary matrix with zero diagonal, every signed DAG weighting over {0, 1, -1}
        off = [(i, j) for i in range(3) for j in range(3) if i != j]
        for bits in itertools.product((0, 1), repeat=6):
            M = np.zeros((3, 3), dtype=dt)
            for (i, j), b in zip(off, bits):
                M[i, j] = b
            out.append(M)
        for perm in itertools.permutations(range(3)):
            for w in itertools.product((0, 1, -1), repeat=3):
                M = np.zeros((3, 3), dtype=dt)
                M[0, 1], M[0, 2], M[1, 2] = w
                out.append(M[list(perm), :][:, list(perm)])
        # long thin graphs (depth matters for reachability / closure algorithms): relabelled chains and chains with a chord, p = 6, 7, 9
        for p in (6, 7, 9):
            for rep in range(2):
                M = np.zeros((p, p), dtype=dt)
                for i in range(p - 1):
                    M[i, i + 1] = 1 if (dt is int or rep == 0) else rng.choice((1, -1, 0.5, 2))
                if rep == 1:
                    M[0, p - 1] = 1
                perm = list(range(p))
                if rep == 1:
                    rng.shuffle(perm)
                out.append(M[perm, :][:, perm])
        # node labels of 8 and above: a python set of small ints iterates in hash order, which is no longer increasing there
        # ({1, 8} -> 8, 1; {3, 9} -> 9, 3): colliders / parent sets mixing labels below and above 8, as DAG, weighted DAG and PDAG
        for (p, edges, und) in ((10, [(1, 3), (9, 3), (8, 2), (1, 2), (3, 5), (9, 5), (0, 9)], [(4, 6)]),
                                (9, [(1, 2), (8, 2), (1, 0), (8, 0), (2, 0)], []),
                                (12, [(3, 1), (9, 1), (10, 4), (2, 4), (11, 7), (3, 7), (8, 7)], [(5, 6), (0, 5)]),
                                (9, [(1, 7)], [(1, 2), (2, 8)]), (9, [], [(7, 8)]), (10, [(0, 1)], [(1, 9), (8, 9), (5, 8)]), (11, [(4, 10)], [(8, 10), (2, 9), (3, 9)])):
            M = np.zeros((p, p), dtype=dt)
            for (a, b) in edges:
                M[a, b] = 1
            out.append(M.copy())
            for (a, b) in und:
                M[a, b] = M[b, a] = 1
            out.append(M.copy())
            if dt is float:
                Wm = np.zeros((p, p))
                for k, (a, b) in enumerate(edges):
                    Wm[a, b] = (1.0, -1.0, 0.5, -2.0)[k % 4]
                out.append(Wm)
        # p = 4: seeded sample of signed DAG weightings (weights +-1, 1/2, 2) and of binary PDAGs
        for _ in range(budget):
            p = 4
            kind = rng.random()
            if kind < 0.6:
                vals = (0, 1, -1) if rng.random() < 0.7 else (0, 1, -1, 0.5, -2)
                M = np.zeros((p, p))
                for i in range(p):
                    for j in range(i + 1, p):
                        M[i, j] = rng.choice(vals)
                perm = list(range(p)); rng.shuffle(perm)
                M = M[perm, :][:, perm]
            else:
                dens = rng.choice((0.3, 0.5, 0.8))
                M = np.array([[1 if (i != j and rng.random() < dens) else 0 for j in range(p)] for i in range(p)], dtype=float)
            if dt is int:
                M = np.round(M).astype(int)
            out.append(M.astype(dt))
        return out
    if s == 'Arr2o':
        # edge-ordered DAGs (input of label_edges): every acyclic matrix of the Arr2 domain, ordered by two independent constructions
        out = []
        for M in gen_values('Arr2', rng, p_hint, budget):
            if M.shape[0] == M.shape[1] and _acyclic(M):
                out.append(dsl.chickering_order(M))
                if len(M) >= 3:
                    out.append(dsl.chickering_order(M, flip=True))
        return out
    if s == 'SetOf(Int)':
        return [set(c) for r in range(0, 4) for c in itertools.combinations(range(4), r)]
    if s == 'DictIv':
        return _iv_dicts()
    if s.startswith('Obj('):
        cls = ast.literal_eval(ast.parse(sort_src, mode='eval').body.args[0])
        if cls.endswith('LGANM'):
            from sempler.lganm import LGANM
            if 'W=' not in s:
                return [object.__new__(LGANM)]
            out = []
            for p in (1, 2, 3):
                for rep in range(4):
                    W = np.zeros((p, p))
                    for i in range(p):
                        for j in range(i + 1, p):
                            W[i, j] = rng.choice((0, 1, -1, 0.5, -2, 3))
                    perm = list(range(p)); rng.shuffle(perm)
                    W = W[perm, :][:, perm]
                    mu = np.array([rng.choice((0, 1, -2, 3)) for _ in range(p)], dtype=float)
                    var = np.array([rng.choice((1, 2, 3, 0.5)) for _ in range(p)], dtype=float)
                    if rep == 3:     # integer-typed model arrays
                        W, mu, var = np.round(W).astype(int), mu.astype(int), np.ceil(var).astype(int)
                    if rep == 2:     # tiny noise variances
                        var = var * 1e-10
                    out.append(LGANM(W, mu, var))
                    if rep == 1:     # a model constructed with a seed: later unseeded calls must still follow the global generator
                        out.append(LGANM(W, mu, var, random_state=0))
                        out.append(LGANM(W, (0, 1), (1, 2), random_state=5))
            return out
        if cls.endswith('BayesianNetwork'):
            import sempler.semi as semi
            if 'e=' not in s:
                return [object.__new__(semi.BayesianNetwork)]
            out = []
            for e in (1, 2, 3):
                o = object.__new__(semi.BayesianNetwork)
                o.e = e
                out.append(o)
            return out
        if cls.endswith('NormalDistribution'):
            from sempler.normal_distribution import NormalDistribution
            if 'mean=' not in s:
                return [object.__new__(NormalDistribution)]
            out = []
            for p in (1, 2, 3, 4):
                for _ in range(3):
                    L = np.array([[rng.choice((-2, -1, 0, 1, 2, 0.5)) if j <= i else 0 for j in range(p)] for i in range(p)], dtype=float)
                    C = L @ L.T + np.eye(p) * rng.choice((0.5, 1, 2))
                    m = np.array([rng.choice((-3, -1, 0, 2, 0.5)) for _ in range(p)], dtype=float)
                    out.append(NormalDistribution(m, C))
                    if _ == 0:      # the same law in very small / large units
                        out.append(NormalDistribution(m * 1e-5, C * 1e-10))
                        out.append(NormalDistribution(m * 1e3, C * 1e6))
                # integer-typed parameters (numpy keeps the dtype of the arrays it is given)
                Li = np.array([[rng.choice((-1, 0, 1, 2)) if j <= i else 0 for j in range(p)] for i in range(p)], dtype=int)
                out.append(NormalDistribution(np.array([rng.choice((-3, 1, 0, 2)) for _ in range(p)], dtype=int), Li @ Li.T + np.eye(p, dtype=int)))
            return out
        raise KeyError(sort_src)
    if s == 'Arr1i':
        out = [np.array(v, dtype=int) for n in (0, 1, 2, 3) for v in itertools.permutations(range(4), n)]
        out += [np.array(v, dtype=int) for v in ((0, 0), (1, 1, 2), (2, 0, 2), (4,), (-1,))]
        return out
    if s in ('Arr1',):
        return [np.array(v, dtype=float) for n in (0, 1, 2, 3) for v in itertools.product((0, 1.5, -2), repeat=n)] + [np.array([0.5]), np.array([0.25, 2.5])]
    raise KeyError(sort_src)


def _iv_dicts():
    vals = [None, (0.5, 0.25), (2, 3), 1.5, 4, (-1.0, 0.0)]
    out = []
    for combo in itertools.product(range(len(vals)), repeat=3):
        d = {k: vals[c] for k, c in enumerate(combo) if vals[c] is not None}
        out.append(d)
        if len(d) >= 2:       # the same interventions listed in another (non-ascending) order
            out.append(dict(reversed(list(d.items()))))
        if len(d) == 3:
            out.append({2: d[2], 0: d[0], 1: d[1]})
    return out


def search(ctx, q, seed=0, budget=300, max_calls=20000, stop_on_first=True):
    """evaluate the contract of q concretely over a small-input domain. returns (stats, first witness or None)"""
    c = ctx.db.get(q)
    rng = random.Random(seed)
    names = [p for p, _ in c.params]
    gnames = [(k, v) for cl in c.of('ghost') for k, v in cl.kw.items()]
    cases = c.options.get('cases') or {}
    import inspect
    try:
        real = set(inspect.signature(ctx.resolve(q)).parameters)
    except (TypeError, ValueError):
        real = None
    # case names that are not parameters of the real function (e.g. `init`: which constructor case `self` comes from, `assign_shape`)
    # only steer the symbolic verification; concretely the object domain already contains every kind of model
    cnames = sorted(k for k in cases if real is None or k in real)
    names = names + cnames
    try:
        doms = [gen_values(ast.unparse(a), rng, None, budget) for _, a in c.params]
        for cn in cnames:
            vals = []
            for cv in cases[cn]:
                vals += {'int': [0, 1, 2, 3, 42], 'none': [None], 'empty_dict': [{}], 'dict': _iv_dicts(), 'gen': [np.random.default_rng(5)], 'arrlist': [[np.zeros((3, 2)), np.ones((1, 2))], [np.zeros((2, 3))], [], [np.zeros((2, 2)), np.zeros((2, 3))]], 'real': [2.5, -1.0], 'intlist': [[2, 3], [1], [2, 3, 4], [0, 1], [], [5, -1]], 'notarray': ['x', 5, (1, 2)],
                         'arr2': [np.array([[0, 1.0], [0, 0]]), np.array([[0, 1.0, 1], [0, 0, -1], [0, 0, 0]]), np.array([[0, 1.0], [1, 0]]), np.array([[0, 1.0, 0], [0, 0, 0]])], 'rpair': [(0, 1), (0.5, 0.5), (-2.0, -1.0)], 'arr1': [np.array(v, dtype=float) for k in (1, 2, 3) for v in itertools.product((1, 2.5), repeat=k)] + [np.array([1, 2])], 'pair': [(a, b) for a in range(0, 4) for b in range(a, 5)], 'triple': [(1, 2, 3), (0, 0, 0)]}.get(cv, [cv]) if isinstance(cv, str) else [cv]
            doms.append(vals)
        doms += [gen_values(ast.unparse(a), rng, None, budget) for _, a in gnames]
    except KeyError as e:
        return {'calls': 0, 'skipped': 'no generator for sort %s' % e}, None
    total = 1
    for d in doms:
        total *= len(d)
    calls = nontriv = 0
    seen = set()
    witness = None

    def combos():
        if total <= max_calls:
            yield from itertools.product(*doms)
        else:
            for _ in range(max_calls):
                yield tuple(rng.choice(d) for d in doms)
    prev = None          # the argument objects of the last admissible call (history probe below)
    nprobe = 0
    for combo in combos():
        kwargs = {n: copy.deepcopy(v) for n, v in zip(names, combo)}
        ghost = {g[0]: v for g, v in zip(gnames, combo[len(names):])}
        if prev is not None and _same_shapes(prev[0], kwargs):
            nprobe += 1
            if nprobe % 2 == 0:
                # history probe: the SAME argument objects as in the call just made, overwritten in place with the current values;
                # the contract must hold again (results may depend on the current contents only, never on object identity / earlier calls)
                reused = {}
                for n in kwargs:
                    if isinstance(kwargs[n], np.ndarray):
                        np.copyto(prev[0][n], kwargs[n])
                        reused[n] = prev[0][n]
                    else:
                        reused[n] = copy.deepcopy(kwargs[n])
                r2 = ctx.check_call(q, reused, c, ghost)
                if r2['status'] == 'violated' and witness is None:
                    witness = {'function': q, 'inputs': {n: _jsonable(v) for n, v in zip(names, combo)}, 'ghost': {g[0]: _jsonable(v) for g, v in zip(gnames, combo[len(names):])},
                               'history_inplace': prev[1], 'clause': r2['clause'], 'observed': r2['observed'] + ' (after an earlier call on the same array objects holding other contents)'}
                    if stop_on_first:
                        break
                prev = None
        r = ctx.check_call(q, kwargs, c, ghost)
        if r['status'] == 'pre-false':
            continue
        calls += 1
        if r['status'] == 'ok':
            prev = (kwargs, {n: _jsonable(v) for n, v in zip(names, combo)})
        key = repr([(n, _jsonable(v)) for n, v in zip(names, combo)])
        if key not in seen:
            seen.add(key)
            if any(_nontrivial(v) for v in combo):
                nontriv += 1
        if r['status'] == 'violated' and witness is None:
            witness = {'function': q, 'inputs': {n: _jsonable(v) for n, v in zip(names, combo)}, 'ghost': {g[0]: _jsonable(v) for g, v in zip(gnames, combo[len(names):])},
                       'clause': r['clause'], 'observed': r['observed']}
            if stop_on_first:
                break
    # inputs beyond the small domain that a size-dependent branch may need (each evaluated once)
    for kw in EXTRA_CASES.get(q, []):
        if witness is not None and stop_on_first:
            break
        kwargs = {k: copy.deepcopy(v) for k, v in kw.items() if real is None or k in real or k in [n for n, _ in c.params]}
        r = ctx.check_call(q, kwargs, c, {})
        if r['status'] == 'pre-false':
            continue
        calls += 1
        nontriv += 1
        if r['status'] == 'violated' and witness is None:
            witness = {'function': q, 'inputs': {n: _jsonable(v) for n, v in kwargs.items()}, 'ghost': {}, 'clause': r['clause'], 'observed': r['observed']}
    return {'calls': calls, 'distinct_nontrivial': nontriv, 'domain': total + len(EXTRA_CASES.get(q, []))}, witness


def _k6_one_directed():
    M = np.ones((6, 6)) - np.eye(6)
    M[4, 5] = 0          # 5 -> 4 directed, every other pair undirected
    return M


def _dense6():
    M = np.ones((6, 6)) - np.eye(6)
    M[0, 1] = M[1, 0] = 0        # 0 and 1 not adjacent
    M[2, 3] = 0                  # 3 -> 2
    M[0, 5] = 0                  # 5 -> 0
    return M


EXTRA_CASES = {
    # large sparse graphs (a fast path for big p would only be reached here); contract = the exact entry-by-entry draw formula
    'sempler.generators.dag_avg_deg': [dict(p=600, k=30.0, w_min=0.5, w_max=2.0, return_ordering=False, random_state=3),
                                       dict(p=520, k=3.0, w_min=1.0, w_max=1.0, return_ordering=True, random_state=0),
                                       dict(p=64, k=63.0, w_min=-2.0, w_max=-1.0, return_ordering=True, random_state=1)],
    'sempler.generators.dag_full': [dict(p=130, w_min=0.5, w_max=2.0, return_ordering=True, random_state=2)],
    # many undirected edges (more than 2^11 candidate orientations): the complete graph on 6 nodes with one edge directed from the
    # higher to the lower label, and a 6-node PDAG with 12 undirected edges and a directed triangle side
    'sempler.utils.all_dags': [dict(pdag=_k6_one_directed()), dict(pdag=_dense6())],
}


def _jsonable(v):
    if isinstance(v, np.ndarray):
        return {'ndarray': v.tolist(), 'dtype': str(v.dtype)}
    if isinstance(v, set):
        return {'set': sorted(v)}
    if isinstance(v, tuple):
        return {'tuple': [_jsonable(x) for x in v]}
    if isinstance(v, (np.integer,)):
        return int(v)
    if isinstance(v, (np.floating,)):
        return float(v)
    if isinstance(v, dict):
        return {'dict': [[_jsonable(k), _jsonable(x)] for k, x in v.items()]}
    if isinstance(v, list):
        return [_jsonable(x) for x in v]
    if type(v).__name__ == 'Generator':
        return {'generator': 'numpy.random.default_rng(5)'}
    if hasattr(v, '__dict__') and type(v).__module__.startswith('sempler'):
        return {'obj': type(v).__module__ + '.' + type(v).__name__, 'attrs': {k: _jsonable(x) for k, x in vars(v).items()}}
    return v


def _unjson(v):
    if isinstance(v, dict):
        if 'ndarray' in v:
            return np.array(v['ndarray'], dtype=v.get('dtype', 'float64'))
        if 'set' in v:
            return set(v['set'])
        if 'tuple' in v:
            return tuple(_unjson(x) for x in v['tuple'])
        if 'dict' in v:
            return {(_hashable(_unjson(k))): _unjson(x) for k, x in v['dict']}
        if 'generator' in v:
            return np.random.default_rng(5)
        if 'obj' in v:
            mod, cls = v['obj'].rsplit('.', 1)
            o = object.__new__(getattr(importlib.import_module(mod), cls))
            for k, x in v.get('attrs', {}).items():
                setattr(o, k, _unjson(x))
            return o
    if isinstance(v, list):
        return [_unjson(x) for x in v]
    return v


def _hashable(k):
    return tuple(k) if isinstance(k, list) else k


def replay(ctx, wit):
    for q0 in wit.get('mixed_after') or []:       # witness found in the cross-function pass: re-create the history first
        search(ctx, q0, seed=0, budget=20, max_calls=int(os.environ.get('VK_MIXED_CALLS', '400')), stop_on_first=False)
    kwargs = {k: _unjson(v) for k, v in wit['inputs'].items()}
    ghost = {k: _unjson(v) for k, v in (wit.get('ghost') or {}).items()}
    c = ctx.db.get(wit['function'])
    gn = [k for cl in c.of('ghost') for k in cl.kw]
    if gn and not ghost:        # candidate from a solver model: ghost values may be among the inputs
        ghost = {k: kwargs.pop(k) for k in gn if k in kwargs}
        for k in gn:
            ghost.setdefault(k, 3)
    kwargs = {k: v for k, v in kwargs.items() if k not in gn}
    if wit.get('history_inplace'):
        first = {k: _unjson(v) for k, v in wit['history_inplace'].items() if k not in gn}
        ctx.check_call(wit['function'], first, ghost=ghost)
        for k in kwargs:
            if isinstance(kwargs[k], np.ndarray):
                np.copyto(first[k], kwargs[k])
                kwargs[k] = first[k]
    return ctx.check_call(wit['function'], kwargs, ghost=ghost)


def main(argv):
    """concrete.py search <qualname> [seed] | replay <file> | candidates <qualname> <file-with-candidate-inputs>"""
    here = os.path.dirname(os.path.dirname(os.path.abspath(__file__)))
    ctx = Ctx(os.path.join(here, 'contracts'))
    if argv[0] == 'search':
        out = {}
        seed = int(argv[1])
        for q in argv[2:]:
            stats, wit = search(ctx, q, seed=seed, budget=int(os.environ.get('VK_BUDGET', '300')))
            out[q] = {'stats': stats, 'witness': wit}
        print(json.dumps(out))
    elif argv[0] == 'mixed':
        # history across functions: all functions of the property once more in ONE process, in reverse order, few calls each -
        # state shared between functions (module-level caches, memo tables) shows up as a contract failure of the later one
        out = {}
        seed = int(argv[1])
        for q in reversed(argv[2:]):
            stats, wit = search(ctx, q, seed=seed, budget=20, max_calls=int(os.environ.get('VK_MIXED_CALLS', '400')))
            if wit is not None:
                wit['observed'] = wit.get('observed', '') + ' (in one process after the other functions of the property had been called)'
                wit['mixed_after'] = [x for x in reversed(argv[2:])][:list(reversed(argv[2:])).index(q)]
            out[q] = {'stats': stats, 'witness': wit}
        print(json.dumps(out))
    elif argv[0] == 'replay':
        wit = json.load(open(argv[1]))
        if 'witness' in wit:
            wit = wit['witness']
        r = replay(ctx, wit)
        print(json.dumps(r))
        return 1 if r['status'] == 'violated' else 0
    elif argv[0] == 'candidates':
        q = argv[1]
        cands = json.load(open(argv[2]))
        for cand in cands:
            wit = {'function': q, 'inputs': cand}
            try:
                r = replay(ctx, wit)
            except Exception as e:      # noqa: BLE001
                continue
            if r['status'] == 'violated':
                wit.update(clause=r['clause'], observed=r['observed'])
                print(json.dumps({'witness': wit}))
                return 0
        print(json.dumps({'witness': None}))
    return 0


if __name__ == '__main__':
    sys.exit(main(sys.argv[1:]))
