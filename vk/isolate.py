"""Run the verification of each function in its own forked process: a fresh z3
context per function makes solver behaviour independent of what was verified
before (observed: the same VC goes from 5 s to `unknown` otherwise)."""
import json
import os
import select
import time
import traceback


def _child(task, build):
    q, ci, opts = task
    try:
        from vk.verify import verify_function
        from vk import smt, cex
        prog, db = build()
        c = db.contracts[q][ci]
        fr = verify_function(prog, db, q, c, case=opts.get('case'))
        kinds = opts.get('kinds')
        if kinds:
            fr.obligations = [o for o in fr.obligations if o.expect != 'unsat' or any(o.meta['kind'].startswith(k) for k in kinds)]
        om = cex.make_on_model(fr.params, fr.pre_heap)
        res = smt.discharge(fr.obligations, timeout=opts['timeout'], seed=opts['seed'], on_model=om, retry_timeout=opts['retry'],
                            procs=opts['procs'], use_cvc5=opts.get('cvc5', True), want_hash=opts.get('want_hash', False), hints=opts.get('hints'))
        mod = q.rsplit('.', 1)[0]
        while mod not in prog.sha and '.' in mod:
            mod = mod.rsplit('.', 1)[0]
        return {'q': q, 'degraded': fr.degraded, 'paths': fr.paths, 'assumptions': sorted(fr.assumptions), 'sha256': prog.sha.get(mod, ''),
                'obligations': [{'id': o.id, 'expect': o.expect, 'meta': o.meta, 'hyps': len(o.hyps), 'verdict': r.verdict, 'backend': r.backend,
                                 'secs': r.secs, 'reason': r.reason, 'model': r.model, 'rl': r.rl, 'h': r.h} for o, r in zip(fr.obligations, res)]}
    except BaseException:
        return {'q': q, 'error': traceback.format_exc()}


def run(tasks, build, jobs=3, progress=None):
    """tasks: list of (qualname, contract index, opts). returns results in order"""
    results = [None] * len(tasks)
    pending = list(range(len(tasks)))
    running = {}
    while pending or running:
        while pending and len(running) < jobs:
            i = pending.pop(0)
            r, w = os.pipe()
            pid = os.fork()
            if pid == 0:
                os.close(r)
                out = _child(tasks[i], build)
                data = json.dumps(out, default=str).encode()
                try:
                    while data:
                        n = os.write(w, data)
                        data = data[n:]
                finally:
                    os._exit(0)
            os.close(w)
            running[r] = (pid, i, b'')
        rl, _, _ = select.select(list(running), [], [], 0.5)
        for fd in rl:
            pid, i, buf = running[fd]
            chunk = os.read(fd, 1 << 20)
            if chunk:
                running[fd] = (pid, i, buf + chunk)
                continue
            os.close(fd)
            os.waitpid(pid, 0)
            del running[fd]
            try:
                results[i] = json.loads(buf.decode())
            except Exception:
                results[i] = {'q': tasks[i][0], 'error': 'worker died without output'}
            if progress:
                progress(i + 1, len(tasks))
    return results
