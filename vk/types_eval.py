"""Sort annotations of the contract DSL -> type descriptors."""
import ast
from .values import *   # noqa: F401,F403


def _obj(cls, **attrs):
    t = TOpaque('obj:' + cls)
    t.attrs = attrs
    t.cls = cls
    return t


def _tagged(tag, role):
    t = TOpaque(tag)
    t.role = role
    return t


NS = {
    'Int': INT, 'Real': REAL, 'Bool': BOOL,
    'Arr1': TArr('float', 1), 'Arr2': TArr('float', 2), 'Arr3': TArr('float', 3),
    'Arr1i': TArr('int', 1), 'Arr2i': TArr('int', 2), 'Arr2o': TArr('int', 2), 'Arr1b': TArr('bool', 1), 'Arr2b': TArr('bool', 2),
    'SetOf': lambda e: TSet(e), 'ListOf': lambda e: TList(e), 'Tup': lambda *e: TTuple(*e),
    'DictOf': lambda k, v: TDict(k, v),
    'NoneType': TOpaque('none'), 'Opaque': TOpaque('opaque'), 'Callable': TOpaque('callable'),
    'Gen': TOpaque('gen'), 'Seed': TOpaque('seed'), 'Obj': _obj, 'Str': TOpaque('str'),
    'IntOrNone': TOpaque('int_or_none'), 'DictIv': TOpaque('dict_iv'),
    'Callables': lambda role: _tagged('callables', role), 'DictCall': lambda role: _tagged('dictcall', role),
}


def eval_type(node):
    if node is None:
        return None
    if isinstance(node, T):
        return node
    return eval(compile(ast.Expression(node), '<sort>', 'eval'), dict(NS))
