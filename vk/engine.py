"""AST -> verification-condition generator (DESIGN.md §2).

Forward symbolic execution of the *real* FunctionDef bodies read from /repo's
working tree: one path per branch, loops cut at invariants, calls replaced by
the callee's contract.  Emits ``Obligation`` objects (hyps |- goal) that
vk.smt discharges.
"""
import ast
import z3
from .values import *          # noqa: F401,F403
from . import values as V


class Obligation:
    def __init__(self, oid, hyps, goal, meta):
        self.id, self.hyps, self.goal, self.meta = oid, hyps, goal, meta
        self.expect = 'unsat'     # 'unsat' = must be discharged; 'sat' = vacuity guard (cover / pre-sat / canary)


class PyRaise(Exception):
    """an exception raised while *evaluating an expression* on the current path"""
    def __init__(self, exc, note=''):
        self.exc, self.note = exc, note


class State:
    def __init__(self, env=None, heap=None, ver=None, pc=None, ghost=None):
        self.env = dict(env or {})
        self.heap = dict(heap or {})
        self.ver = dict(ver or {})
        # pc and ghost are shared by reference between the views of one path (State(...)); fork() copies them
        self.pc = pc if pc is not None else []
        self.ghost = ghost if ghost is not None else {}
        self.side = []            # side exits produced while evaluating an expression: (state, exc)

    def fork(self):
        return State(self.env, self.heap, self.ver, list(self.pc), dict(self.ghost))

    def assume(self, f):
        if f is True:
            return
        self.pc.append(Z(f))

    def alloc(self, val, origin='fresh', **kw):
        oid = uid()
        self.heap[oid] = val
        self.ver[oid] = 0
        return Ref(oid, origin, **kw)

    def deref(self, v):
        if isinstance(v, Ref):
            if v.origin == 'alias' and v.root is not None and self.ver.get(v.root, 0) != v.rootver:
                raise Unsupported('stale view/alias of a mutated object')
            return self.heap[v.oid]
        return v

    def store(self, ref, val):
        self.heap[ref.oid] = val
        self.ver[ref.oid] = self.ver.get(ref.oid, 0) + 1


def sync_ghost(st, g):
    """ghost state is shared by reference between the views of a path: update in place, never rebind"""
    if st.ghost is not g:
        st.ghost.clear()
        st.ghost.update(g)


def wrap(st, v, origin='fresh', **kw):
    """containers live on the heap"""
    if isinstance(v, CONTAINERS):
        return st.alloc(v, origin, **kw)
    return v


class FuncInfo:
    def __init__(self, qualname, module, node, cls=None):
        self.qualname, self.module, self.node, self.cls = qualname, module, node, cls


class Program:
    """the parsed source files of /repo (re-read on every run)"""
    def __init__(self, files):
        import hashlib
        self.modules, self.funcs, self.sha, self.consts, self.imports, self.classes = {}, {}, {}, {}, {}, {}
        for modname, path in files.items():
            src = open(path).read()
            self.sha[modname] = hashlib.sha256(src.encode()).hexdigest()
            tree = ast.parse(src, path)
            self.modules[modname] = tree
            self.imports[modname] = {}
            self.consts[modname] = {}
            for n in tree.body:
                if isinstance(n, ast.FunctionDef):
                    self.funcs['%s.%s' % (modname, n.name)] = FuncInfo('%s.%s' % (modname, n.name), modname, n)
                elif isinstance(n, ast.ClassDef):
                    self.classes['%s.%s' % (modname, n.name)] = n
                    for m in n.body:
                        if isinstance(m, ast.FunctionDef):
                            q = '%s.%s.%s' % (modname, n.name, m.name)
                            self.funcs[q] = FuncInfo(q, modname, m, n.name)
                elif isinstance(n, ast.Import):
                    for a in n.names:
                        self.imports[modname][a.asname or a.name.split('.')[0]] = a.name if a.asname else a.name.split('.')[0]
                elif isinstance(n, ast.ImportFrom):
                    for a in n.names:
                        self.imports[modname][a.asname or a.name] = '%s.%s' % (n.module, a.name)
                elif isinstance(n, ast.Assign) and len(n.targets) == 1 and isinstance(n.targets[0], ast.Name):
                    try:
                        self.consts[modname][n.targets[0].id] = ast.literal_eval(n.value)
                    except Exception:
                        pass


EXC_NAMES = {'ValueError', 'TypeError', 'IndexError', 'KeyError', 'AssertionError', 'Exception', 'ZeroDivisionError',
             'UFuncTypeError', 'LinAlgError', 'AttributeError', 'NotImplementedError', 'RuntimeError'}


class Exec:
    def __init__(self, program, db):
        self.prog, self.db = program, db
        self.obls = []
        self.spec = 0                 # >0: evaluating specification text (no obligations)
        self.cur = None               # FuncInfo under verification
        self.counters = {}
        self.assumptions = set()      # names of model rules / lemmas used
        self.notes = []
        self.call_depth = 0
        self.frame_roots = {}         # oid -> description, objects the function must not modify
        self.bound_stack = []         # quantifier-bound variables in scope (innermost last)
        self.cur_node_stack = []      # FunctionDef being interpreted (innermost last)
        self.cur_qual_stack = []
        from . import npmodel
        self.np = npmodel.Models(self)

    # ------------------------------------------------------------------ obligations
    def oblige(self, st, kind, goal, node=None, text=None, expect='unsat'):
        if self.spec:
            return
        k = self.counters.get(kind, 0)
        self.counters[kind] = k + 1
        oid = '%s%s/%s#%d' % (self.cur.qualname if self.cur else '?', getattr(self, 'case_tag', ''), kind, k)
        if goal is True and expect == 'unsat':
            # trivially true: still counted, discharged syntactically
            pass
        meta = {'func': self.cur.qualname if self.cur else '?', 'kind': kind, 'line': getattr(node, 'lineno', None),
                'text': text or (ast.unparse(node)[:160] if node is not None else '')}
        parts = split_goal(Z(goal)) if expect == 'unsat' else [('', Z(goal))]
        o = None
        for suffix, g in parts:
            o = Obligation(oid + suffix, list(st.pc), g, dict(meta))
            o.expect = expect
            self.obls.append(o)
        return o

    def use(self, name):
        self.assumptions.add(name)

    # ------------------------------------------------------------------ names
    def resolve_module_attr(self, modname, name):
        """what does bare ``name`` mean inside module ``modname``?"""
        q = '%s.%s' % (modname, name)
        if q in self.prog.funcs:
            return ('func', q)
        if q in self.prog.classes:
            return ('class', q)
        if name in self.prog.imports.get(modname, {}):
            tgt = self.prog.imports[modname][name]
            if tgt in self.prog.modules:
                return ('module', tgt)
            if tgt in self.prog.funcs:
                return ('func', tgt)
            if tgt in self.prog.classes:
                return ('class', tgt)
            return ('ext', tgt)
        if name in self.prog.consts.get(modname, {}):
            return ('const', self.prog.consts[modname][name])
        return None

    # ------------------------------------------------------------------ expressions
    def ev(self, e, st):
        m = getattr(self, 'e_' + type(e).__name__, None)
        if m is None:
            raise Unsupported('expression %s' % type(e).__name__)
        return m(e, st)

    def evs(self, e, st):
        """evaluate specification text (no obligations, total functions)"""
        self.spec += 1
        try:
            return self.ev(e, st)
        finally:
            self.spec -= 1

    def e_Constant(self, e, st):
        return e.value

    def e_Name(self, e, st):
        nm = e.id
        if nm in st.env:
            return st.env[nm]
        if nm in self.db.specs:
            return ('spec', nm)
        if nm in self.db.consts and self.spec:
            return self.db.consts[nm]
        if self.cur is not None:
            r = self.resolve_module_attr(self.modname, nm)
            if r is not None:
                return r[1] if r[0] == 'const' else r
        if nm in ('True', 'False', 'None'):
            return {'True': True, 'False': False, 'None': None}[nm]
        if nm in self.np.builtins or nm in self.np.special_forms or nm in EXC_NAMES or nm in ('object', 'bool', 'int', 'float', 'str', 'tuple', 'list', 'set', 'dict', 'super'):
            return ('builtin', nm)
        if not self.spec and self.cur_node_stack:
            fn = self.cur_node_stack[-1]
            if any(isinstance(n, ast.Name) and n.id == nm and isinstance(n.ctx, ast.Store) for n in ast.walk(fn)):
                raise PyRaise('UnboundLocalError', nm)      # a local that is not assigned on this path
        raise Unsupported('unbound name %s' % nm)

    def e_Tuple(self, e, st):
        return tuple(self.ev(x, st) for x in e.elts)

    def e_List(self, e, st):
        items = [self.snapshot(self.ev(x, st), st) for x in e.elts]
        return st.alloc(SList.of(items))

    def e_Set(self, e, st):
        items = [self.ev(x, st) for x in e.elts]
        el = type_of(items[0]) if items else INT
        S = SSet(lambda x, items=items: OR(*[EQ(x, it) for it in items]), el)
        S.display_items = items
        return st.alloc(S)

    def e_Dict(self, e, st):
        if e.keys:
            raise Unsupported('non-empty dict display')
        return st.alloc(SDict(SSet.empty(), lambda k: None))

    def snapshot(self, v, st):
        """value stored inside another container: pure snapshot (nested identity is not modelled)"""
        if isinstance(v, Ref):
            val = st.deref(v)
            st.ghost.setdefault('escaped', set())
            st.ghost['escaped'] = st.ghost['escaped'] | {v.oid}
            return val
        if isinstance(v, tuple):
            return tuple(self.snapshot(x, st) for x in v)
        return v

    def e_Lambda(self, e, st):
        return SFun('lambda', args=[a.arg for a in e.args.args], body=e.body, env=dict(st.env), modname=self.modname)

    def e_IfExp(self, e, st):
        c = self.truth(self.ev(e.test, st), st)
        if c is True:
            return self.ev(e.body, st)
        if c is False:
            return self.ev(e.orelse, st)
        n0 = len(st.pc)
        s1 = st.fork(); s1.assume(c)
        a = self.ev(e.body, s1)
        export_facts(s1, st, n0, [c])
        n1 = len(st.pc)
        s2 = st.fork(); s2.assume(NOT(c))
        b = self.ev(e.orelse, s2)
        export_facts(s2, st, n1, [NOT(c)])
        st.heap.update({k: v for k, v in s1.heap.items() if k not in st.heap})
        st.heap.update({k: v for k, v in s2.heap.items() if k not in st.heap})
        st.side += s1.side + s2.side
        return self.ite_val(c, a, b, st)

    def ite_val(self, c, a, b, st):
        if isinstance(a, tuple) and isinstance(b, tuple) and len(a) == len(b):
            return tuple(self.ite_val(c, x, y, st) for x, y in zip(a, b))
        if is_scalar(a) and is_scalar(b):
            return ITE(c, a, b)
        raise Unsupported('conditional expression over containers')

    def e_UnaryOp(self, e, st):
        v = self.ev(e.operand, st)
        if isinstance(e.op, ast.Not):
            return NOT(self.truth(v, st))
        if isinstance(e.op, ast.USub):
            pv = st.deref(v)
            if isinstance(pv, SArr):
                return st.alloc(SArr(pv.shape, lambda *ix: -Z(num(pv.get(*ix))), 'int' if pv.kind == 'bool' else pv.kind))
            return -v if not is_z3(v) else -num(v)
        if isinstance(e.op, ast.UAdd):
            return v
        raise Unsupported('unary op')

    def e_BoolOp(self, e, st):
        vals = []
        cur = st
        forks = []
        for k, x in enumerate(e.values):
            v = self.ev(x, cur)
            t = self.truth(v, cur)
            vals.append((v, t))
            if (t is False and isinstance(e.op, ast.And)) or (t is True and isinstance(e.op, ast.Or)):
                break       # python short-circuits: the remaining operands are not evaluated
            if k < len(e.values) - 1:
                nxt = cur.fork()
                g = t if isinstance(e.op, ast.And) else NOT(t)
                nxt.assume(g)
                forks.append((nxt, len(nxt.pc), g))
                cur = nxt
        guards = [g for _, _, g in forks]
        for (f, n0, g) in forks:
            st.side += f.side
        if forks:
            last = forks[-1][0]
            export_facts(last, st, len(st.pc), guards)
            st.heap.update({k: v for k, v in last.heap.items() if k not in st.heap})
        ts = [t for _, t in vals]
        if all(is_bool(v) for v, _ in vals):
            return AND(*ts) if isinstance(e.op, ast.And) else OR(*ts)
        # python returns an OPERAND (`seed or 42` is seed unless seed is falsy): for scalar operands the value is modelled exactly
        if all(is_scalar(v) for v, _ in vals):
            res = vals[-1][0]
            for v, t in reversed(vals[:-1]):
                take = t if isinstance(e.op, ast.Or) else NOT(t)
                res = v if take is True else (res if take is False else ITE(take, v, res))
            return res
        if all(isinstance(t, bool) for t in ts):
            for v, t in vals:
                if t is (isinstance(e.op, ast.Or)):
                    return v
            return vals[-1][0]
        # containers / None with a symbolic truth value: only the truth value is modelled (sound where the result is used as a condition)
        return AND(*ts) if isinstance(e.op, ast.And) else OR(*ts)

    def truth(self, v, st):
        v = st.deref(v) if isinstance(v, Ref) else v
        if v is None:
            return False
        if isinstance(v, bool):
            return v
        if isinstance(v, (int, float)):
            return v != 0
        if isinstance(v, str):
            return len(v) > 0
        if is_z3(v):
            return v if z3.is_bool(v) else v != 0
        if isinstance(v, tuple):
            return len(v) > 0
        if isinstance(v, SList):
            return v.n > 0 if not isinstance(v.n, int) else v.n > 0
        if isinstance(v, SSet):
            return set_nonempty(v)
        if isinstance(v, SDict):
            return set_nonempty(v.dom)
        if isinstance(v, SArr):
            if v.ndim == 0 or all(isinstance(s, int) and s == 1 for s in v.shape):
                return self.truth(v.get(*([0] * v.ndim)), st)
            raise Unsupported('truth value of an array')
        if isinstance(v, (SObj, SFun, SGen)):
            return True
        raise Unsupported('truth of %r' % (v,))

    # -- comparisons
    def e_Compare(self, e, st):
        left = self.ev(e.left, st)
        res = []
        for op, c in zip(e.ops, e.comparators):
            right = self.ev(c, st)
            res.append(self.compare(op, left, right, st, e))
            left = right
        return AND(*res) if len(res) > 1 else res[0]

    def compare(self, op, a, b, st, node=None):
        on = type(op).__name__
        if on in ('Is', 'IsNot'):
            r = self.is_same(a, b, st)
            return r if on == 'Is' else NOT(r)
        if on in ('In', 'NotIn'):
            r = self.contains(b, a, st)
            return r if on == 'In' else NOT(r)
        pa_, pb = st.deref(a), st.deref(b)
        if tag(pa_) == 'typeof' or tag(pb) == 'typeof':
            tv, other = (pa_, pb) if tag(pa_) == 'typeof' else (pb, pa_)
            if tag(other) not in ('builtin', 'ext', 'class'):
                raise Unsupported('type() compared with %r' % (other,))
            r = self.np.has_type(tv[1], other[1], True)
            if on == 'Eq': return r
            if on == 'NotEq': return NOT(r)
            raise Unsupported('ordering of types')
        if isinstance(pa_, SArr) or isinstance(pb, SArr):
            return self.np.elementwise_cmp(on, pa_, pb, st, node)
        if isinstance(pa_, V.SSet) or isinstance(pb, V.SSet):
            if not (isinstance(pa_, SSet) and isinstance(pb, SSet)):
                if on == 'Eq': return False
                if on == 'NotEq': return True
                raise Unsupported('set compared with non-set')
            if on == 'Eq': return set_eq(pa_, pb)
            if on == 'NotEq': return NOT(set_eq(pa_, pb))
            if on == 'LtE': return set_subset(pa_, pb)
            if on == 'GtE': return set_subset(pb, pa_)
            raise Unsupported('strict set comparison')
        if isinstance(pa_, SList) or isinstance(pb, SList):
            if isinstance(pa_, SList) and isinstance(pb, SList) and on in ('Eq', 'NotEq'):
                r = self.list_eq(pa_, pb)
                return r if on == 'Eq' else NOT(r)
            raise Unsupported('list comparison')
        if isinstance(pa_, tuple) or isinstance(pb, tuple):
            if on == 'Eq': return EQ(pa_, pb)
            if on == 'NotEq': return NOT(EQ(pa_, pb))
            if isinstance(pa_, tuple) and isinstance(pb, tuple) and len(pa_) == len(pb) == 2 and on in ('Lt', 'Gt', 'LtE', 'GtE'):
                strict = {'Lt': lambda x, y: Z(num(x)) < Z(num(y)), 'Gt': lambda x, y: Z(num(x)) > Z(num(y))}[on[:2]]
                last = {'Lt': strict, 'Gt': strict, 'LtE': lambda x, y: Z(num(x)) <= Z(num(y)), 'GtE': lambda x, y: Z(num(x)) >= Z(num(y))}[on]
                return OR(strict(pa_[0], pb[0]), AND(EQ(pa_[0], pb[0]), last(pa_[1], pb[1])))
            raise Unsupported('tuple ordering')
        if on == 'Eq': return EQ(pa_, pb)
        if on == 'NotEq': return NOT(EQ(pa_, pb))
        if isinstance(pa_, str) or isinstance(pb, str):
            if isinstance(pa_, str) and isinstance(pb, str):
                return {'Lt': pa_ < pb, 'LtE': pa_ <= pb, 'Gt': pa_ > pb, 'GtE': pa_ >= pb}[on]
            raise Unsupported('str ordering')
        if not is_scalar(pa_) or not is_scalar(pb):
            raise Unsupported('ordering of %r / %r' % (type(pa_), type(pb)))
        x, y = num(pa_), num(pb)
        if not is_z3(x) and not is_z3(y):
            return {'Lt': x < y, 'LtE': x <= y, 'Gt': x > y, 'GtE': x >= y}[on]
        x, y = Z(x), Z(y)
        return {'Lt': x < y, 'LtE': x <= y, 'Gt': x > y, 'GtE': x >= y}[on]

    def list_eq(self, a, b):
        ia, ib = a.concrete_items(), b.concrete_items()
        if ia is not None and ib is not None:
            return len(ia) == len(ib) and AND(*[EQ(x, y) for x, y in zip(ia, ib)])
        if ia is not None and len(ia) == 0:
            return Z(b.n) == 0
        if ib is not None and len(ib) == 0:
            return Z(a.n) == 0
        k = bvar('k')
        return AND(Z(a.n) == Z(b.n), forall([k], IMPLIES(in_range(k, 0, a.n), EQ(a.get(k), b.get(k)))))

    def is_same(self, a, b, st):
        if a is None or b is None:
            if a is None and b is None:
                return True
            other = b if a is None else a
            if tag(other) == 'maybe_none':
                return other[1]
            return False
        if isinstance(a, Ref) and isinstance(b, Ref):
            return a.oid == b.oid
        if isinstance(a, bool) and isinstance(b, bool):
            return a == b
        raise Unsupported('is-comparison')

    def contains(self, cont, x, st):
        c = st.deref(cont)
        if tag(x) == 'typeof':
            items = c.concrete_items() if isinstance(c, SList) else (list(c) if isinstance(c, tuple) else None)
            if items is None:
                raise Unsupported('type() membership in a symbolic container')
            return OR(*[self.np.has_type(x[1], it[1], True) for it in items])
        if isinstance(c, SSet):
            return c.member(x)
        if isinstance(c, SList):
            return list_contains(c, x)
        if isinstance(c, SDict):
            return c.dom.member(x)
        if isinstance(c, tuple):
            return OR(*[EQ(x, it) for it in c])
        if isinstance(c, SArr) and c.ndim == 1:
            k = bvar('k')
            return exists([k], AND(in_range(k, 0, c.shape[0]), EQ(c.get(k), x)))
        raise Unsupported('membership in %r' % (type(c),))

    # -- arithmetic
    def e_BinOp(self, e, st):
        a, b = self.ev(e.left, st), self.ev(e.right, st)
        return self.binop(type(e.op).__name__, a, b, st, e)

    def binop(self, on, a, b, st, node=None):
        pa_, pb = st.deref(a), st.deref(b)
        if isinstance(pa_, SArr) or isinstance(pb, SArr):
            return st.alloc(self.np.elementwise_bin(on, pa_, pb, st, node))
        if isinstance(pa_, SSet) and isinstance(pb, SSet):
            if on == 'BitAnd': r = SSet(lambda x: AND(pa_.member(x), pb.member(x)), pa_.elem)
            elif on == 'BitOr': r = SSet(lambda x: OR(pa_.member(x), pb.member(x)), pa_.elem)
            elif on == 'Sub': r = SSet(lambda x: AND(pa_.member(x), NOT(pb.member(x))), pa_.elem)
            else: raise Unsupported('set op ' + on)
            if on == 'Sub' and getattr(pa_, 'from_range', False):
                r.from_range = True       # still a set of ints taken from one range(...): see A-SETORDER in b_list
                if getattr(pa_, 'range_bounds', None) is not None and len(getattr(pb, 'display_items', ())) == 1 and getattr(pa_, 'range_removed', None) is None:
                    r.range_bounds, r.range_removed = pa_.range_bounds, pb.display_items[0]
            self.np.card_lemmas(on, pa_, pb, r, st)
            return st.alloc(r)
        if isinstance(pa_, SList) and isinstance(pb, SList) and on == 'Add':
            return st.alloc(self.np.list_concat(pa_, pb))
        if isinstance(pa_, SList) and on == 'Mult' and is_int(pb):
            return st.alloc(self.np.list_repeat(pa_, pb, st))
        if isinstance(pa_, str) and on == 'Mod':
            return 'fmt'
        if isinstance(pa_, str) and isinstance(pb, str) and on == 'Add':
            return pa_ + pb
        if isinstance(pa_, str):
            return 'fmt'
        if not is_scalar(pa_) or not is_scalar(pb):
            raise Unsupported('binop %s on %r, %r' % (on, type(pa_), type(pb)))
        return self.scalar_bin(on, num(pa_), num(pb), st, node)

    def scalar_bin(self, on, x, y, st, node=None):
        conc = not is_z3(x) and not is_z3(y)
        if on == 'Add': return x + y if conc else Z(x) + Z(y)
        if on == 'Sub': return x - y if conc else Z(x) - Z(y)
        if on == 'Mult': return x * y if conc else Z(x) * Z(y)
        if on == 'Div':
            self.oblige(st, 'div-nonzero', NOT(EQ(y, 0)), node)
            if conc:
                if y == 0:
                    raise PyRaise('ZeroDivisionError')
                from fractions import Fraction
                r = Fraction(x) / Fraction(y)
                return int(r) if r.denominator == 1 and isinstance(x, int) and isinstance(y, int) and False else (float(r) if r.denominator & (r.denominator - 1) == 0 else to_real(x) / to_real(y))
            return to_real(Z(x)) / to_real(Z(y))
        if on == 'Pow':
            if conc:
                return x ** y
            if not is_z3(y) and y == 2:
                return Z(x) * Z(x)
            if not is_z3(y) and y == 0.5:
                return self.np.sqrt(Z(x), st)
            if not is_z3(x) and x == 2 and is_int(y):
                return self.np.pow2(y, st)
            raise Unsupported('symbolic power')
        if on == 'FloorDiv':
            if conc: return x // y
            if is_int(x) and is_int(y):
                self.oblige(st, 'div-nonzero', NOT(EQ(y, 0)), node)
                return Z(x) / Z(y)   # z3 int division (euclidean == floor for positive divisor)
            raise Unsupported('floor division of reals')
        if on == 'Mod':
            if conc: return x % y
            if is_int(x) and is_int(y):
                return Z(x) % Z(y)
            raise Unsupported('mod of reals')
        raise Unsupported('scalar binop ' + on)

    # -- attribute / subscript
    def e_Attribute(self, e, st):
        base = self.ev(e.value, st)
        return self.getattr_(base, e.attr, st, e)

    def getattr_(self, base, attr, st, node=None):
        if tag(base) == 'module':
            r = self.resolve_in_module(base[1], attr)
            if r is None:
                raise Unsupported('unknown attribute %s.%s' % (base[1], attr))
            return r
        if tag(base) == 'ext':
            full = base[1] + '.' + attr
            if full in self.prog.modules:
                return ('module', full)
            if full in self.prog.funcs:
                return ('func', full)
            if full in self.prog.classes:
                return ('class', full)
            return ('ext', full)
        pv = st.deref(base)
        if isinstance(pv, SObj):
            if attr in pv.attrs:
                v = pv.attrs[attr]
                if isinstance(v, CONTAINERS):
                    # reading a container attribute: an alias of storage owned by the object
                    return st.alloc(v, 'alias', root=base.oid, rootver=st.ver.get(base.oid, 0), note='%s.%s' % (pv.cls, attr))
                return v
            q = '%s.%s' % (pv.cls, attr)
            if q in self.prog.funcs:
                return ('bound', q, base)
            raise PyRaise('AttributeError', attr)
        if isinstance(pv, SArr):
            return self.np.arr_attr(pv, base, attr, st)
        return ('method', base, attr)

    def resolve_in_module(self, modname, attr):
        if modname in self.prog.modules:
            r = self.resolve_module_attr(modname, attr)
            if r is not None:
                return r[1] if r[0] == 'const' else r
            return None
        return ('ext', modname + '.' + attr)

    def e_Subscript(self, e, st):
        base = self.ev(e.value, st)
        idx = self.ev_index(e.slice, st)
        return self.getitem(base, idx, st, e)

    def ev_index(self, s, st):
        if isinstance(s, ast.Slice):
            return ('slice', None if s.lower is None else self.ev(s.lower, st), None if s.upper is None else self.ev(s.upper, st),
                    None if s.step is None else self.ev(s.step, st))
        if isinstance(s, ast.Tuple):
            return tuple(self.ev_index(x, st) for x in s.elts)
        return self.ev(s, st)

    def getitem(self, base, idx, st, node=None):
        if tag(base) in ('whereres',):
            return self.np.where_item(base, idx, st)
        pv = st.deref(base)
        if isinstance(pv, IvVal):
            if idx == 0: return pv.a
            if idx == 1: return pv.b
            raise Unsupported('index into an intervention value')
        if isinstance(pv, tuple):
            if isinstance(idx, int):
                return pv[idx]
            if tag(idx) == 'slice':
                return pv[slice(idx[1], idx[2], idx[3])]
            raise Unsupported('symbolic tuple index')
        if isinstance(pv, SList):
            r = self.np.list_getitem(pv, idx, st, node)
            return self.as_alias(r, base, st)
        if isinstance(pv, SDict):
            self.oblige(st, 'key', pv.dom.member(idx), node)
            return self.as_alias(pv.val(idx), base, st)
        if isinstance(pv, SArr):
            r = self.np.arr_getitem(pv, base, idx, st, node)
            return r
        if isinstance(pv, str):
            return 'str'
        raise Unsupported('subscript of %r' % (type(pv),))

    def as_alias(self, v, base, st):
        if isinstance(v, CONTAINERS):
            root = base.oid if isinstance(base, Ref) else None
            return st.alloc(v, 'alias', root=root, rootver=st.ver.get(root, 0) if root is not None else None, note='element')
        return v

    # -- comprehensions
    def comp_bind(self, gens, st, k=0, guard=None, bvars=None):
        """evaluate comprehension generators with fresh bound variables.
        returns (state, bound vars, guard term)"""
        raise NotImplementedError

    def iter_domain(self, itv, st):
        """describe an iterable for quantification: returns (vars, guard, element) """
        pv = st.deref(itv)
        if tag(pv) == 'range':
            _, lo, hi, step = pv
            if step != 1:
                raise Unsupported('quantifying over a stepped range')
            v = bvar('i')
            return [v], in_range(v, lo, hi), v
        if tag(pv) in ('whereidx', 'zip', 'enumerate', 'reversed', 'filter', 'items', 'combinations'):
            pv = st.deref(self.np.materialise(pv, st))
        if isinstance(pv, SSet):
            x = set_elem_var(pv)
            return qvars(x), pv.member(x), x
        if isinstance(pv, SList):
            k = bvar('k')
            return [k], in_range(k, 0, pv.n), pv.get(k)
        if isinstance(pv, SArr) and pv.ndim == 1:
            k = bvar('k')
            return [k], in_range(k, 0, pv.shape[0]), pv.get(k)
        if isinstance(pv, SArr) and pv.ndim >= 2:
            k = bvar('k')
            sub = SArr(pv.shape[1:], lambda *ix: pv.get(k, *ix), pv.kind)
            return [k], in_range(k, 0, pv.shape[0]), sub
        if isinstance(pv, SDict):
            x = set_elem_var(pv.dom)
            return qvars(x), pv.dom.member(x), x
        if isinstance(pv, tuple):
            raise Unsupported('quantifying over a tuple')
        raise Unsupported('iteration over %r' % (type(pv),))

    def bind_target(self, tgt, val, st):
        if isinstance(tgt, ast.Name):
            st.env[tgt.id] = val if not isinstance(val, CONTAINERS) else st.alloc(val)
        elif isinstance(tgt, (ast.Tuple, ast.List)):
            pv = st.deref(val)
            if isinstance(pv, SArr) and pv.ndim == 1 and isinstance(pv.shape[0], int):
                pv = tuple(pv.get(k) for k in range(pv.shape[0]))
            if isinstance(pv, SList) and isinstance(pv.n, int):
                pv = tuple(pv.get(k) for k in range(pv.n))
            if not isinstance(pv, tuple) or len(pv) != len(tgt.elts):
                raise Unsupported('unpacking of %r' % (type(pv),))
            for t, x in zip(tgt.elts, pv):
                self.bind_target(t, x, st)
        else:
            raise Unsupported('binding target')

    def comp_eval(self, e, elt, st):
        """common part of comprehensions: returns (vars, guard, element value, local state)"""
        loc = st.fork()
        allvars, guards = [], []
        depth0 = len(self.bound_stack)
        for g in e.generators:
            itv = self.ev(g.iter, loc)
            vs, guard, el = self.iter_domain(itv, loc)
            pit = loc.deref(itv)
            loc.last_range = (pit[1], pit[2]) if tag(pit) == 'range' and pit[3] == 1 else None
            allvars += vs
            self.bound_stack.extend(vs)
            guards.append(guard)
            loc.assume(guard)
            self.bind_target(g.target, el, loc)
            for c in g.ifs:
                t = self.truth(self.ev(c, loc), loc)
                guards.append(t)
                loc.assume(t)
        try:
            val = self.ev(elt, loc) if elt is not None else None
        finally:
            del self.bound_stack[depth0:]
        st.side += loc.side
        sync_ghost(st, loc.ghost)
        # axioms introduced inside (count facts ...) are closed formulas: keep them
        from .npmodel2 import free_consts
        bound_ids = {v.get_id() for v in allvars}
        guard_ids = {Z(g).get_id() for g in guards if not (g is True)}
        for f in loc.pc[len(st.pc):]:
            if f.get_id() in guard_ids:
                continue        # the comprehension's own range / filter conditions are not facts of the enclosing path
            if not any(c.get_id() in bound_ids for c in free_consts(f)):
                st.pc.append(f)
        return allvars, AND(*guards), val, loc

    def e_GeneratorExp(self, e, st):
        vs, guard, val, loc = self.comp_eval(e, e.elt, st)
        return ('genexp', vs, guard, val, loc)

    def e_SetComp(self, e, st):
        vs, guard, val, loc = self.comp_eval(e, e.elt, st)
        val = self.snapshot(val, loc)
        return st.alloc(self.np.set_builder(vs, guard, val))

    def e_ListComp(self, e, st):
        # [f(x) for x in <list|range|array>]  (no filter)  -> mapped list; over a set -> enumerate the set first
        if len(e.generators) == 1 and not e.generators[0].ifs:
            g = e.generators[0]
            itv = self.ev(g.iter, st)
            pv = st.deref(itv)
            if tag(pv) in ('whereidx', 'zip', 'enumerate', 'reversed', 'filter', 'items', 'combinations'):
                pv = st.deref(self.np.materialise(pv, st))
            if isinstance(pv, SSet):
                pv = st.deref(self.np.list_of_set(pv, st))
            if tag(pv) == 'range':
                _, lo, hi, step = pv
                if step != 1:
                    raise Unsupported('stepped range in comprehension')
                n = self.np.nonneg_diff(hi, lo)
                src_get = lambda k: Z(lo) + Z(k) if (is_z3(lo) or lo != 0) else k
            elif isinstance(pv, SList):
                n, src_get = pv.n, pv.get
            elif isinstance(pv, SArr) and pv.ndim == 1:
                n, src_get = pv.shape[0], pv.get
            elif isinstance(pv, tuple):
                items = []
                for x in pv:
                    loc = st.fork(); self.bind_target(g.target, x, loc)
                    items.append(self.snapshot(self.ev(e.elt, loc), loc)); st.side += loc.side
                return st.alloc(SList.of(items))
            else:
                raise Unsupported('list comprehension over %r' % (type(pv),))
            if isinstance(n, int):
                items = []
                for k in range(n):
                    loc = st.fork(); self.bind_target(g.target, src_get(k), loc)
                    items.append(self.snapshot(self.ev(e.elt, loc), loc)); st.side += loc.side
                return st.alloc(SList.of(items))
            k = bvar('k')
            loc = st.fork()
            loc.assume(in_range(k, 0, n))
            self.bind_target(g.target, src_get(k), loc)
            # obligations raised inside hold for an arbitrary k in range
            val = self.snapshot(self.ev(e.elt, loc), loc)
            st.side += loc.side
            if is_scalar(val) or isinstance(val, tuple):
                return st.alloc(SList(n, lambda kk, val=val, k=k: subst(val, [(k, kk)]), type_of(val)))
            if isinstance(val, SArr):
                return st.alloc(SList(n, lambda kk, val=val, k=k: SArr(tuple(subst(s, [(k, kk)]) for s in val.shape),
                                                                       lambda *ix: subst(val.get(*ix), [(k, kk)]), val.kind), val.type()))
            if isinstance(val, SFun) and val.kind == 'uf':
                extra = {'copied': True} if getattr(val, 'copied', False) else {}
                return st.alloc(SList(n, lambda kk, val=val, k=k: SFun('uf', role=val.role, index=subst(val.index, [(k, kk)]), **extra), TOpaque('callable')))
            raise Unsupported('list comprehension producing %r' % (type(val),))
        raise Unsupported('list comprehension with filter / several generators')

    # ------------------------------------------------------------------ calls
    def e_Call(self, e, st):
        if (not self.spec and isinstance(e.func, ast.Attribute) and e.func.attr in ('append', 'add') and isinstance(e.func.value, ast.Subscript)
                and len(e.args) == 1 and not e.keywords):
            rd, wr = self.lvalue(e.func.value, st)
            cont = rd()
            x = self.snapshot(self.ev(e.args[0], st), st)
            if isinstance(cont, SList) and e.func.attr == 'append':
                el = cont.elem or type_of(x)
                items = cont.concrete_items()
                if items is not None:
                    wr(SList.of(items + [x], el))
                else:
                    from .npmodel2 import _val_ite
                    wr(SList(Z(cont.n) + 1, lambda k, cont=cont, x=x: _val_ite(EQ(k, cont.n), x, cont.get(k)), el))
                return None
            if isinstance(cont, SSet) and e.func.attr == 'add':
                wr(SSet(lambda y, cont=cont, x=x: OR(cont.member(y), EQ(y, x)), cont.elem))
                return None
            raise Unsupported('method %s on a subscripted %r' % (e.func.attr, type(cont)))
        f = self.ev(e.func, st)
        # spec-level special forms that need unevaluated arguments
        if tag(f) == 'builtin' and f[1] in self.np.special_forms:
            return self.np.special_forms[f[1]](e, st)
        args = [self.ev(a, st) for a in e.args]
        kw = {k.arg: self.ev(k.value, st) for k in e.keywords}
        return self.call(f, args, kw, st, e)

    def call(self, f, args, kw, st, node=None):
        if isinstance(f, SFun):
            return self.call_fun(f, args, kw, st, node)
        if isinstance(f, Ref):
            pf = st.deref(f)
            if isinstance(pf, SFun):
                return self.call_fun(pf, args, kw, st, node)
        if not isinstance(f, tuple):
            raise Unsupported('call of %r' % (f,))
        tg = tag(f)
        if tg == 'builtin':
            return self.np.call_builtin(f[1], args, kw, st, node)
        if tg == 'ext':
            return self.np.call_ext(f[1], args, kw, st, node)
        if tg == 'method':
            return self.np.call_method(f[1], f[2], args, kw, st, node)
        if tg == 'spec':
            return self.call_spec(f[1], args, kw, st, node)
        if tg == 'func':
            return self.call_repo(f[1], args, kw, st, node)
        if tg == 'bound':
            return self.call_repo(f[1], [f[2]] + args, kw, st, node)
        if tg == 'class':
            return self.call_class(f[1], args, kw, st, node)
        raise Unsupported('call of %r' % (f[:2],))

    def call_fun(self, f, args, kw, st, node):
        if f.kind == 'lambda':
            loc = State(f.env, st.heap, st.ver, st.pc, st.ghost)
            for nm, a in zip(f.args, args):
                loc.env[nm] = a
            save = self.modname_override
            self.modname_override = f.modname
            try:
                r = self.ev(f.body, loc)
            finally:
                self.modname_override = save
            st.heap, st.ver = loc.heap, loc.ver
            if st.pc is not loc.pc:
                st.pc[:] = loc.pc
            sync_ghost(st, loc.ghost)
            st.side += loc.side
            return r
        if f.kind == 'py':
            return f.fn(args, kw, st, node)
        if f.kind == 'uf':
            return self.np.call_user_callable(f, args, kw, st, node)
        raise Unsupported('call of function value ' + f.kind)

    modname_override = None

    @property
    def modname(self):
        return self.modname_override or (self.cur.module if self.cur else None)

    def call_spec(self, name, args, kw, st, node):
        fn = self.db.specs[name]
        if name in self.np.opaque:
            return self.np.opaque[name](args, kw, st, node)
        loc = State({}, st.heap, st.ver, st.pc, st.ghost)
        params = [a.arg for a in fn.args.args]
        defaults = fn.args.defaults
        for k, p in enumerate(params):
            if k < len(args):
                loc.env[p] = args[k]
            elif p in kw:
                loc.env[p] = kw[p]
            else:
                d = defaults[k - (len(params) - len(defaults))]
                loc.env[p] = self.evs(d, loc)
        self.spec += 1
        try:
            body = [s for s in fn.body if not (isinstance(s, ast.Expr) and isinstance(s.value, ast.Constant))]
            for s in body[:-1]:
                if isinstance(s, ast.Assign) and len(s.targets) == 1:
                    self.bind_target(s.targets[0], self.ev(s.value, loc), loc)
                else:
                    raise Unsupported('spec function bodies are assignments followed by a return')
            if not isinstance(body[-1], ast.Return):
                raise Unsupported('spec function must end in return')
            r = self.ev(body[-1].value, loc)
        finally:
            self.spec -= 1
        st.heap, st.ver = loc.heap, loc.ver
        return r

    # -- repo functions: contract or inlining
    def call_repo(self, q, args, kw, st, node):
        if not self.spec:
            for h in getattr(self, 'before_hooks', {}).get(q.rsplit('.', 1)[-1], []):
                h(st)
        c = self.db.get(q)
        if c is not None:
            return self.apply_contract(c, q, args, kw, st, node)
        if self.spec:
            raise Unsupported('spec text calls uncontracted function ' + q)
        return self.inline(q, args, kw, st, node)

    def call_class(self, q, args, kw, st, node):
        init = q + '.__init__'
        c = self.db.get(init)
        if c is not None:
            obj = st.alloc(SObj(q))
            self.apply_contract(c, init, [obj] + args, kw, st, node, self_obj=obj)
            return obj
        if init in self.prog.funcs:
            obj = st.alloc(SObj(q))
            self.inline(init, [obj] + args, kw, st, node)
            return obj
        raise Unsupported('construction of ' + q)

    def bind_args(self, fnode, args, kw, st, q):
        params = [a.arg for a in fnode.args.args]
        defaults = fnode.args.defaults
        env = {}
        for k, p in enumerate(params):
            if k < len(args):
                env[p] = args[k]
            elif p in kw:
                env[p] = kw[p]
            else:
                di = k - (len(params) - len(defaults))
                if di < 0:
                    raise PyRaise('TypeError', 'missing argument %s' % p)
                loc = State({}, st.heap, st.ver, st.pc, st.ghost)
                env[p] = self.ev(defaults[di], loc)
                st.heap, st.ver = loc.heap, loc.ver
        extra = set(kw) - set(params)
        if extra or len(args) > len(params):
            if fnode.args.vararg is None and fnode.args.kwarg is None:
                raise PyRaise('TypeError', 'unexpected arguments')
        return env

    def inline(self, q, args, kw, st, node):
        fi = self.prog.funcs[q]
        if any(ast.unparse(d) != 'staticmethod' for d in fi.node.decorator_list):
            raise Unsupported('inlined callee %s is wrapped by a decorator' % q)
        if self.call_depth > 6:
            raise Unsupported('inlining depth (recursive function without contract?) ' + q)
        env = self.bind_args(fi.node, args, kw, st, q)
        loc = State(env, st.heap, st.ver, st.pc, st.ghost)
        save_cur_mod = self.modname_override
        self.modname_override = fi.module
        self.call_depth += 1
        self.cur_node_stack.append(fi.node); self.cur_qual_stack.append(q)
        try:
            outs = self.exec_block(fi.node.body, loc, q)
        finally:
            self.call_depth -= 1
            self.cur_node_stack.pop(); self.cur_qual_stack.pop()
            self.modname_override = save_cur_mod
        normal = [(s, k, v) for (s, k, v) in outs if k in ('return', 'next')]
        for (s, k, v) in outs:
            if k == 'raise':
                st.side.append((s, v))
        if len(normal) != 1:
            raise Unsupported('inlined call to %s has %d normal paths (give it a contract)' % (q, len(normal)))
        s, k, v = normal[0]
        st.heap, st.ver = s.heap, s.ver
        if st.pc is not s.pc:
            st.pc[:] = s.pc
        sync_ghost(st, s.ghost)
        st.side += s.side
        return v if k == 'return' else None

    # -- contracts at call sites
    def spec_env(self, c, args, kw, st, q):
        case_params = set((c.options.get('cases') or {}).keys())
        extra = {k: v for k, v in kw.items() if k in case_params}
        env = self.bind_args(c.fn, args, {k: v for k, v in kw.items() if k not in case_params}, st, q)
        # parameters that the contract case-splits on are ordinary parameters of the real function
        fi = self.prog.funcs.get(q)
        if fi is not None and case_params:
            real = [a.arg for a in fi.node.args.args]
            defaults = fi.node.args.defaults
            for cp in case_params:
                if cp in extra:
                    env[cp] = extra[cp]
                elif cp in real:
                    k = real.index(cp)
                    if k < len(args) and cp not in env:
                        env[cp] = args[k]
                    elif cp not in env:
                        di = k - (len(real) - len(defaults))
                        loc = State({}, st.heap, st.ver, st.pc, st.ghost)
                        env[cp] = self.ev(defaults[di], loc) if di >= 0 else None
                        st.heap, st.ver = loc.heap, loc.ver
        return env

    def apply_contract(self, c, q, args, kw, st, node, self_obj=None):
        from .types_eval import eval_type
        env = self.spec_env(c, args, kw, st, q)
        loc = State(env, st.heap, st.ver, st.pc, st.ghost)
        self.use('contract:' + q)
        # 1. preconditions are obligations of the caller
        for cl in c.of('requires'):
            for a in cl.args:
                g = self.truth(self.evs(a, loc), loc)
                self.oblige(st, 'call-pre:%s' % q.split('.', 1)[1] if q.startswith('sempler.') else 'call-pre:' + q, g, node,
                            text='%s  [requires %s]' % (ast.unparse(node)[:80] if node is not None else q, ast.unparse(a)[:100]))
                st.assume(g)
        loc.pc = st.pc
        # 2. exceptional outcomes (exact: raised iff `when`)
        for cl in c.of('raises'):
            exc = cl.args[0].id
            when = self.truth(self.evs(cl.kw['when'], loc), loc) if 'when' in cl.kw else None
            if when is None:
                w = fresh_scalar(BOOL, 'raises_' + exc)
                if 'must' in cl.kw:
                    st.assume(IMPLIES(self.truth(self.evs(cl.kw['must'], loc), loc), w))
                if 'may' in cl.kw:
                    st.assume(IMPLIES(w, self.truth(self.evs(cl.kw['may'], loc), loc)))
            else:
                w = when
            if w is False:
                continue
            s2 = st.fork()
            s2.assume(w)
            s2.side = []
            st.side.append((s2, exc))
            st.assume(NOT(w))
        loc.pc = st.pc
        # 3. frame: havoc what the callee may modify
        for cl in c.of('modifies'):
            for a in cl.args:
                tgt = self.evs(a, loc)
                if isinstance(tgt, Ref) and self_obj is not None and tgt.oid == self_obj.oid:
                    continue        # constructor: the attributes are defined by establishes(...)
                if isinstance(tgt, Ref):
                    old = st.deref(tgt)
                    self.write_ref(tgt, fresh_like(old, 'mod', st), st, node, 'callee %s modifies' % q)
                elif tag(tgt) == 'ext':
                    self.np.havoc_global(tgt[1], st)
        loc.heap, loc.ver = st.heap, st.ver
        # 4. result
        for cl in c.of('let'):          # lets that do not mention the result are available to the defining clauses
            for k2, a in cl.kw.items():
                try:
                    loc.env[k2] = self.evs(a, loc)
                except Unsupported as u:
                    if 'unbound name' not in str(u):
                        raise
        rt = eval_type(c.returns) if c.returns is not None else None
        result = None
        post = []
        defined = False
        for cl in c.of('ensures') + c.of('ensures_assumed'):
            for a in cl.args:
                d = self.definitional(a, loc, rt)
                if d is not None and not defined:
                    result = d
                    defined = True
                else:
                    post.append(a)
        if not defined and rt is not None and not isinstance(rt, TOpaque):
            facts = []
            result = fresh_value(rt, 'res_' + q.rsplit('.', 1)[-1], assume=facts)
            for fct in facts:
                st.assume(fct)
        if isinstance(rt, TOpaque) and rt.tag == 'none':
            result = None
        if isinstance(rt, TOpaque) and rt.tag.startswith('obj:') and not defined:
            facts = []
            attrs = {an: fresh_value(at, 'res_' + an, assume=facts) for an, at in getattr(rt, 'attrs', {}).items()}
            for fct in facts:
                st.assume(fct)
            result = SObj(rt.cls, attrs)
        if isinstance(result, CONTAINERS):
            result = st.alloc(result)
        elif isinstance(result, tuple):
            result = tuple(st.alloc(x) if isinstance(x, CONTAINERS) else x for x in result)
        loc.heap, loc.ver = st.heap, st.ver
        loc.env['result'] = result
        if self_obj is not None:
            loc.env['self'] = self_obj
        for cl in c.of('let'):
            for k2, a in cl.kw.items():
                if k2 not in loc.env:
                    loc.env[k2] = self.evs(a, loc)
        for cl in c.of('functional'):       # functional(<result component>, 'name', shape-expr, args...): result is a function of args
            tgt = st.deref(self.evs(cl.args[0], loc))
            name = ast.literal_eval(cl.args[1])
            tok = self.np.fun_token(name, [self.evs(a, loc) for a in cl.args[2:]], st)
            from . import linalg_rules as LA
            st.assume(LA.matrix_token(self.np, tgt, st) == tok)
            self.use('DET:%s is a deterministic function of its listed arguments (no RNG / state read; checked on the callee)' % name)
        for cl in c.of('establishes'):      # constructor: attribute definitions  establishes(name=expr,...)
            obj = st.deref(self_obj)
            newattrs = dict(obj.attrs)
            for k2, a in cl.kw.items():
                v = self.evs(a, loc)
                newattrs[k2] = self.snapshot(v, loc) if isinstance(v, Ref) else v
            st.store(self_obj, SObj(obj.cls, newattrs))
            loc.heap, loc.ver = st.heap, st.ver
        for a in post:
            g = self.truth(self.evs(a, loc), loc)
            st.assume(g)
        st.heap, st.ver = loc.heap, loc.ver
        return result

    def definitional(self, a, loc, rt):
        """``result == <expr>`` for scalar/set/tuple results, ``defines(result, <expr>)`` for arrays / lists"""
        if isinstance(a, ast.Compare) and len(a.ops) == 1 and isinstance(a.ops[0], ast.Eq) and isinstance(a.left, ast.Name) and a.left.id == 'result':
            if isinstance(rt, (TSet, TInt, TBool, TReal, TTuple)):
                v = self.evs(a.comparators[0], loc)
                return self.snapshot(v, loc)
        if isinstance(a, ast.Call) and isinstance(a.func, ast.Name) and a.func.id == 'defines' and isinstance(a.args[0], ast.Name) and a.args[0].id == 'result':
            v = self.evs(a.args[1], loc)
            return self.snapshot(v, loc)
        return None

    # ------------------------------------------------------------------ mutation
    def write_ref(self, ref, newval, st, node, what=''):
        """all heap writes go through here: frame obligations"""
        if ref.origin == 'alias':
            root = ref.root
            if root in self.frame_roots or ref.note.startswith('param'):
                self.oblige(st, 'frame:%s' % self.frame_roots.get(root, ref.note), False, node,
                            text='write through an alias of caller/model storage (%s): %s' % (ref.note, what or (ast.unparse(node)[:100] if node is not None else '')))
                st.store(ref, newval)
                return
            raise Unsupported('mutation through an alias of another object (%s)' % ref.note)
        if ref.oid in self.frame_roots:
            self.oblige(st, 'frame:%s' % self.frame_roots[ref.oid], False, node,
                        text='modifies %s: %s' % (self.frame_roots[ref.oid], what or (ast.unparse(node)[:100] if node is not None else '')))
        if ref.oid in st.ghost.get('escaped', ()):
            raise Unsupported('mutation of an object already stored inside another container')
        st.store(ref, newval)

    def lvalue(self, node, st):
        """returns (read(), write(newval)) for a mutable location"""
        if isinstance(node, ast.Name):
            ref = self.ev(node, st)
            if not isinstance(ref, Ref):
                raise Unsupported('mutation of non-object %s' % node.id)
            return (lambda: st.deref(ref)), (lambda nv: self.write_ref(ref, nv, st, node))
        if isinstance(node, ast.Attribute):
            base = self.ev(node.value, st)
            pv = st.deref(base)
            if isinstance(pv, SObj) and isinstance(base, Ref):
                def rd():
                    return st.deref(base).attrs[node.attr]
                def wr(nv):
                    o = st.deref(base)
                    na = dict(o.attrs); na[node.attr] = nv
                    self.write_ref(base, SObj(o.cls, na), st, node)
                return rd, wr
            raise Unsupported('attribute lvalue')
        if isinstance(node, ast.Subscript):
            rd0, wr0 = self.lvalue(node.value, st)
            idx = self.ev_index(node.slice, st)
            def rd():
                return st.deref(self.getitem(rd0(), idx, st, node))
            def wr(nv):
                wr0(self.np.setitem_value(rd0(), idx, nv, st, node))
            return rd, wr
        # any other expression: evaluates to a (fresh) object
        ref = self.ev(node, st)
        if isinstance(ref, Ref):
            return (lambda: st.deref(ref)), (lambda nv: self.write_ref(ref, nv, st, node))
        raise Unsupported('lvalue %s' % type(node).__name__)

    # ------------------------------------------------------------------ statements
    def exec_block(self, body, st, q=None):
        """returns list of (state, kind, payload), kind in next|return|raise|break|continue"""
        states = [st]
        out = []
        for stmt in body:
            nxt = []
            for s in states:
                for (s2, k, v) in self.exec_stmt(stmt, s):
                    if k == 'next':
                        nxt.append(s2)
                    else:
                        out.append((s2, k, v))
            states = nxt
            if not states:
                break
        return out + [(s, 'next', None) for s in states]

    def exec_stmt(self, t, st):
        m = getattr(self, 's_' + type(t).__name__, None)
        if m is None:
            raise Unsupported('statement %s' % type(t).__name__)
        st.side = []
        try:
            outs = m(t, st)
        except PyRaise as r:
            outs = [(st, 'raise', r.exc)]
        res = []
        for (s, k, v) in outs:
            for (sx, exc) in s.side:
                sx.side = []
                res.append((sx, 'raise', exc))
            s.side = []
            res.append((s, k, v))
        return res

    def s_Pass(self, t, st):
        return [(st, 'next', None)]

    def s_Expr(self, t, st):
        if isinstance(t.value, ast.Constant):
            return [(st, 'next', None)]
        if self.is_print(t.value):
            return [(st, 'next', None)]
        return self.stmt_call(t.value, st, lambda s, v: [(s, 'next', None)])

    def is_print(self, e):
        if isinstance(e, ast.Call) and isinstance(e.func, ast.Name) and e.func.id == 'print':
            return True
        if isinstance(e, ast.IfExp) and self.is_print(e.body) and isinstance(e.orelse, ast.Constant) and e.orelse.value is None:
            return True
        return False

    def stmt_call(self, e, st, k):
        """evaluate expression e; if it is a direct call to an uncontracted repo function allow several normal paths"""
        if isinstance(e, ast.Call) and not self.spec:
            f = self.ev(e.func, st)
            if tag(f) in ('func', 'bound') and self.db.get(f[1]) is None and f[1] in self.prog.funcs:
                args = [self.ev(a, st) for a in e.args]
                kw = {kk.arg: self.ev(kk.value, st) for kk in e.keywords}
                if f[0] == 'bound':
                    args = [f[2]] + args
                return self.inline_multi(f[1], args, kw, st, e, k)
        v = self.ev(e, st)
        return k(st, v)

    def inline_multi(self, q, args, kw, st, node, k):
        fi = self.prog.funcs[q]
        if any(ast.unparse(d) != 'staticmethod' for d in fi.node.decorator_list):
            raise Unsupported('inlined callee %s is wrapped by a decorator' % q)
        if self.call_depth > 6:
            raise Unsupported('inlining depth ' + q)
        env = self.bind_args(fi.node, args, kw, st, q)
        loc = State(env, st.heap, st.ver, st.pc, st.ghost)
        save = self.modname_override
        self.modname_override = fi.module
        self.call_depth += 1
        self.cur_node_stack.append(fi.node); self.cur_qual_stack.append(q)
        try:
            outs = self.exec_block(fi.node.body, loc, q)
        finally:
            self.call_depth -= 1
            self.cur_node_stack.pop(); self.cur_qual_stack.pop()
            self.modname_override = save
        res = []
        for (s, kind, v) in outs:
            s2 = State(st.env, s.heap, s.ver, s.pc, s.ghost)
            if kind == 'raise':
                res.append((s2, 'raise', v))
            elif kind in ('return', 'next'):
                res += k(s2, v if kind == 'return' else None)
            else:
                raise Unsupported('break/continue escaping a function')
        return res

    def s_Assign(self, t, st):
        def k(s, v):
            for tg in t.targets:
                self.assign(tg, v, s, t)
            return [(s, 'next', None)]
        return self.stmt_call(t.value, st, k)

    def assign(self, tg, v, st, node):
        if isinstance(tg, ast.Name):
            st.env[tg.id] = v
        elif isinstance(tg, (ast.Tuple, ast.List)):
            self.bind_target_assign(tg, v, st, node)
        elif isinstance(tg, ast.Subscript):
            rd, wr = self.lvalue(tg.value, st)
            idx = self.ev_index(tg.slice, st)
            wr(self.np.setitem_value(rd(), idx, v, st, node))
        elif isinstance(tg, ast.Attribute):
            base = self.ev(tg.value, st)
            o = st.deref(base)
            if not isinstance(o, SObj):
                raise Unsupported('attribute assignment on non-object')
            na = dict(o.attrs)
            na[tg.attr] = self.snapshot(v, st) if isinstance(v, Ref) else v
            if isinstance(v, Ref):
                src = dict(st.ghost.get('attr_src', {}))
                src[(base.oid, tg.attr)] = v
                st.ghost['attr_src'] = src
            self.write_ref(base, SObj(o.cls, na), st, node)
        else:
            raise Unsupported('assignment target')

    def bind_target_assign(self, tg, v, st, node):
        pv = st.deref(v) if isinstance(v, Ref) else v
        if tag(pv) == 'whereres':
            pv = self.np.where_unpack(pv, st)
        if isinstance(pv, SArr) and pv.ndim >= 1 and isinstance(pv.shape[0], int):
            pv = tuple(self.np.arr_row(pv, k, st) for k in range(pv.shape[0]))
        if isinstance(pv, SList) and isinstance(pv.n, int):
            pv = tuple(pv.get(k) for k in range(pv.n))
        if not isinstance(pv, tuple) or len(pv) != len(tg.elts):
            raise Unsupported('tuple unpacking of %r' % (type(pv),))
        for tt, x in zip(tg.elts, pv):
            self.assign(tt, wrap(st, x), st, node)

    def s_AugAssign(self, t, st):
        on = type(t.op).__name__
        if isinstance(t.target, ast.Name):
            cur = self.ev(t.target, st)
            val = self.ev(t.value, st)
            pc_, pv = st.deref(cur), st.deref(val)
            if isinstance(cur, Ref) and isinstance(pc_, (SSet, SList, SArr)):
                # in-place update of the object
                if isinstance(pc_, SArr):
                    nv = self.np.elementwise_bin(on, pc_, pv, st, t, inplace=True)
                else:
                    if isinstance(pc_, SList) and on == 'Add':
                        pv2 = pv
                        if tag(pv2) in ('zip', 'whereidx', 'filter', 'range'):
                            pv2 = st.deref(self.np.materialise(pv2, st))
                        nv = self.np.list_concat(pc_, pv2)
                    else:
                        nv = st.deref(self.binop(on, cur, val, st, t))
                self.write_ref(cur, nv, st, t)
                return [(st, 'next', None)]
            st.env[t.target.id] = self.binop(on, cur, val, st, t)
            return [(st, 'next', None)]
        if isinstance(t.target, ast.Subscript):
            rd, wr = self.lvalue(t.target.value, st)
            idx = self.ev_index(t.target.slice, st)
            val = self.ev(t.value, st)
            wr(self.np.setitem_value(rd(), idx, val, st, t, aug=on))
            return [(st, 'next', None)]
        raise Unsupported('augmented assignment target')

    def s_Return(self, t, st):
        if t.value is None:
            return [(st, 'return', None)]
        return self.stmt_call(t.value, st, lambda s, v: [(s, 'return', v)])

    def s_Raise(self, t, st):
        exc = 'Exception'
        e = t.exc
        if isinstance(e, ast.Call):
            e = e.func
        if isinstance(e, ast.Name):
            if e.id in EXC_NAMES:
                exc = e.id
            elif e.id in st.env and isinstance(st.env[e.id], tuple) and st.env[e.id][0] == 'excval':
                exc = st.env[e.id][1]
            else:
                exc = e.id
        elif isinstance(e, ast.IfExp):
            raise Unsupported('conditional raise')
        return [(st, 'raise', exc)]

    def s_Assert(self, t, st):
        c = self.truth(self.ev(t.test, st), st)
        if self.call_depth == 0 and 'AssertionError' in getattr(self, 'allowed_exc', ()):
            # the contract lists AssertionError as a possible outcome: the assertion is a branch, not an obligation
            if c is True:
                return [(st, 'next', None)]
            if c is False:
                return [(st, 'raise', 'AssertionError')]
            s2 = st.fork(); s2.assume(NOT(c))
            st.assume(c)
            return [(s2, 'raise', 'AssertionError'), (st, 'next', None)]
        self.oblige(st, 'assert', c, t)
        if c is False:
            return [(st, 'raise', 'AssertionError')]
        st.assume(c)
        return [(st, 'next', None)]

    def s_If(self, t, st):
        c = self.truth(self.ev(t.test, st), st)
        side = st.side
        st.side = []
        res = [(sx, 'raise', exc) for (sx, exc) in side]
        if c is True:
            return res + self.exec_block(t.body, st)
        if c is False:
            return res + self.exec_block(t.orelse, st)
        s1 = st.fork(); s1.assume(c)
        s2 = st.fork(); s2.assume(NOT(c))
        return res + self.exec_block(t.body, s1) + self.exec_block(t.orelse, s2)

    def s_Try(self, t, st):
        if t.finalbody or t.orelse:
            raise Unsupported('try/finally/else')
        outs = self.exec_block(t.body, st)
        res = []
        for (s, k, v) in outs:
            if k != 'raise':
                res.append((s, k, v)); continue
            handled = False
            for h in t.handlers:
                names = []
                if h.type is None:
                    names = None
                elif isinstance(h.type, ast.Tuple):
                    names = [self.exc_name(x) for x in h.type.elts]
                else:
                    names = [self.exc_name(h.type)]
                if names is None or v in names or 'Exception' in names:
                    if h.name:
                        s.env[h.name] = ('excval', v)
                    res += self.exec_block(h.body, s)
                    handled = True
                    break
            if not handled:
                res.append((s, k, v))
        return res

    def exc_name(self, e):
        if isinstance(e, ast.Name):
            return e.id
        if isinstance(e, ast.Attribute):
            return e.attr
        raise Unsupported('exception type expression')

    def s_Break(self, t, st):
        return [(st, 'break', None)]

    def s_Continue(self, t, st):
        return [(st, 'continue', None)]

    def s_Import(self, t, st):
        return [(st, 'next', None)]

    s_ImportFrom = s_Import

    # ------------------------------------------------------------------ loops
    def s_While(self, t, st):
        from .loops import exec_while
        return exec_while(self, t, st)

    def s_For(self, t, st):
        from .loops import exec_for
        return exec_for(self, t, st)


def split_goal(g, depth=0):
    """split a goal into independently discharged parts: conjunctions, and  forall x. (a <=> b)  into both directions"""
    if depth > 3:
        return [('', g)]
    if z3.is_and(g):
        out = []
        for k, c in enumerate(g.children()):
            for sfx, p in split_goal(c, depth + 1):
                out.append(('.%d%s' % (k, sfx), p))
        return out if len(out) > 1 else [('', g)]
    if z3.is_quantifier(g) and g.is_forall():
        body = g.body()
        if z3.is_eq(body) and z3.is_bool(body.arg(0)):
            n = g.num_vars()
            vs = [z3.Const(fresh_name(g.var_name(i)), g.var_sort(i)) for i in range(n)]
            inst = z3.substitute_vars(body, *reversed(vs))
            a, b = inst.arg(0), inst.arg(1)
            return [(':fwd', z3.ForAll(vs, z3.Implies(a, b))), (':bwd', z3.ForAll(vs, z3.Implies(b, a)))]
    if z3.is_eq(g) and z3.is_bool(g.arg(0)) and not z3.is_true(g.arg(0)) and not z3.is_false(g.arg(0)) and not z3.is_true(g.arg(1)) and not z3.is_false(g.arg(1)):
        if z3.is_quantifier(g.arg(0)) or z3.is_quantifier(g.arg(1)) or depth == 0:
            return [(':fwd', z3.Implies(g.arg(0), g.arg(1))), (':bwd', z3.Implies(g.arg(1), g.arg(0)))]
    return [('', g)]


def export_facts(loc, st, n0, skip):
    """facts added to a forked evaluation state beyond its guard are definitions of fresh symbols: keep them on the parent path"""
    skip_ids = {Z(x).get_id() for x in skip if not isinstance(x, bool)}
    for f in loc.pc[n0:]:
        if f.get_id() not in skip_ids:
            st.pc.append(f)
    for k, v in loc.ghost.items():
        if k in ('tokens', 'mtokens', 'derived_tokens', 'counts', 'linalg_axioms'):
            st.ghost[k] = v


def guards_z(gs):
    return [g for g in gs if is_z3(g)]


def fresh_like(val, name, st):
    """havoc: a fresh value of the same type (and, for arrays, shape)"""
    facts = []
    if isinstance(val, SArr):
        r = fresh_value(val.type(), name, shape=val.shape)
    elif isinstance(val, (SList, SSet)):
        if isinstance(val, SList) and val.elem is None:
            raise Unsupported('havoc of a list with unknown element type (declare it in the invariant)')
        r = fresh_value(val.type(), name, assume=facts)
    elif isinstance(val, SDict):
        raise Unsupported('havoc of dict')
    elif is_scalar(val):
        r = fresh_scalar(scalar_type(val), name)
    elif isinstance(val, tuple):
        r = tuple(fresh_like(x, name, st) for x in val)
    else:
        raise Unsupported('havoc of %r' % (type(val),))
    for f in facts:
        st.assume(f)
    return r
