"""dev helper: python3-vt -m vk.dbg <qualname> <obligation-substring>  -> dumps hyps/goal"""
import os, sys, z3
from vk.engine import Program
from vk.contracts import ContractDB
from vk.verify import verify_function
from vk.run1 import FILES

def load(q):
    prog = Program(FILES); db = ContractDB().load_dir(os.path.join(os.path.dirname(os.path.dirname(os.path.abspath(__file__))), 'contracts'))
    return verify_function(prog, db, q, db.contracts[q][0])

if __name__ == '__main__':
    fr = load(sys.argv[1])
    for o in fr.obligations:
        if sys.argv[2] in o.id:
            print('==', o.id, o.meta['text'])
            for h in o.hyps: print('H:', str(h)[:600])
            print('G:', str(o.goal)[:3000])
