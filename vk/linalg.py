"""Linear algebra as uninterpreted functions over reified arrays (assumption A-LINALG) - see vk/linalg_rules.py"""
from .values import *   # noqa: F401,F403


def matmul(M, a, b, st, node):
    from . import linalg_rules
    return linalg_rules.matmul(M, a, b, st, node)
