"""Symbolic value domain of the VC generator (DESIGN.md §2.1).

Values are Python objects holding *closures that build z3 terms*:

* scalars: Python constants (int/float/bool/str/None) or z3 ``ExprRef`` (Int/Real/Bool)
* ``tuple``: Python tuple of values (immutable)
* ``SArr``: n-dimensional array  (shape: tuple of int|z3 Int, get(*idx) -> scalar, kind)
* ``SList``: list (n: int|z3 Int, get(k) -> value, elem: type descriptor)
* ``SSet``: finite set of ints or of int tuples (member(x) -> z3 Bool)
* ``SDict``: finite map (dom: SSet, val(key) -> value)
* ``SObj``: class instance (attrs: dict name -> value)
* ``SFun``: callable value (lambda closure or uninterpreted user callable)
* ``Ref``: reference to a heap cell holding one of the container values above

Container values are immutable; mutation replaces the content of a heap cell.
"""
import itertools
import z3

_ctr = itertools.count()


def uid():
    return next(_ctr)


def fresh_name(base):
    return '%s!%d' % (base, uid())


class Unsupported(Exception):
    """The construct is outside the interpreted subset (never a violation)."""


# --------------------------------------------------------------------------
# type descriptors (used to create fresh / havocked values)

class T:
    pass


class TInt(T):
    def __repr__(self): return 'Int'


class TReal(T):
    def __repr__(self): return 'Real'


class TBool(T):
    def __repr__(self): return 'Bool'


class TTuple(T):
    def __init__(self, *elts): self.elts = elts
    def __repr__(self): return 'Tup%r' % (self.elts,)


class TList(T):
    def __init__(self, elem): self.elem = elem
    def __repr__(self): return 'ListOf(%r)' % (self.elem,)


class TSet(T):
    def __init__(self, elem): self.elem = elem
    def __repr__(self): return 'SetOf(%r)' % (self.elem,)


class TArr(T):
    def __init__(self, kind, ndim): self.kind, self.ndim = kind, ndim
    def __repr__(self): return 'Arr%d[%s]' % (self.ndim, self.kind)


class TDict(T):
    def __init__(self, key, val): self.key, self.val = key, val


class TOpaque(T):
    """value the engine only passes around (callables, generators...)"""
    def __init__(self, tag='opaque'): self.tag = tag


INT, REAL, BOOL = TInt(), TReal(), TBool()

KIND_SORT = {'int': z3.IntSort(), 'float': z3.RealSort(), 'bool': z3.BoolSort()}
KIND_T = {'int': INT, 'float': REAL, 'bool': BOOL}


def sort_of(t):
    if isinstance(t, TInt): return z3.IntSort()
    if isinstance(t, TReal): return z3.RealSort()
    if isinstance(t, TBool): return z3.BoolSort()
    raise Unsupported('no scalar sort for %r' % (t,))


# --------------------------------------------------------------------------
# scalars

def is_z3(v):
    return isinstance(v, z3.ExprRef)


def is_scalar(v):
    return is_z3(v) or isinstance(v, (int, float, bool)) or isinstance(v, IvVal)


def Z(v):
    """coerce a scalar to a z3 term"""
    if is_z3(v):
        return v
    if isinstance(v, IvVal):
        return v.a
    if isinstance(v, bool):
        return z3.BoolVal(v)
    if isinstance(v, int):
        return z3.IntVal(v)
    if isinstance(v, float):
        if v != v or v in (float('inf'), float('-inf')):
            raise Unsupported('non-finite float constant')
        from fractions import Fraction
        fr = Fraction(v)
        return z3.RealVal(str(fr.numerator)) / z3.RealVal(str(fr.denominator)) if fr.denominator != 1 else z3.RealVal(str(fr.numerator))
    try:
        import numbers
        if isinstance(v, numbers.Integral):
            return z3.IntVal(int(v))
    except Exception:
        pass
    raise Unsupported('not a scalar: %r' % (v,))


def is_bool(v):
    return isinstance(v, bool) or (is_z3(v) and z3.is_bool(v))


def is_int(v):
    return (isinstance(v, int) and not isinstance(v, bool)) or (is_z3(v) and z3.is_int(v))


def is_real(v):
    return isinstance(v, float) or (is_z3(v) and z3.is_real(v))


def to_real(v):
    if isinstance(v, bool):
        return z3.RealVal(1 if v else 0)
    if isinstance(v, (int, float)):
        return Z(float(v)) if isinstance(v, float) else z3.RealVal(v)
    if z3.is_bool(v):
        return z3.If(v, z3.RealVal(1), z3.RealVal(0))
    if z3.is_int(v):
        return z3.ToReal(v)
    return v


def to_int(v):
    """bool -> 0/1 int; int unchanged"""
    if isinstance(v, bool):
        return 1 if v else 0
    if isinstance(v, int):
        return v
    if z3.is_bool(v):
        return z3.If(v, z3.IntVal(1), z3.IntVal(0))
    if z3.is_int(v):
        return v
    raise Unsupported('to_int of real')


def num(v):
    """numeric view of a scalar (bools become 0/1 ints)"""
    if isinstance(v, IvVal):
        return v.a
    if isinstance(v, bool):
        return 1 if v else 0
    if is_z3(v) and z3.is_bool(v):
        return z3.If(v, z3.IntVal(1), z3.IntVal(0))
    return v


def scalar_type(v):
    if is_bool(v): return BOOL
    if is_int(v): return INT
    if is_real(v): return REAL
    raise Unsupported('scalar_type(%r)' % (v,))


def AND(*xs):
    xs = [x for x in xs if x is not True]
    if any(x is False for x in xs):
        return False
    if not xs:
        return True
    if len(xs) == 1:
        return xs[0]
    return z3.And(*[Z(x) for x in xs])


def OR(*xs):
    xs = [x for x in xs if x is not False]
    if any(x is True for x in xs):
        return True
    if not xs:
        return False
    if len(xs) == 1:
        return xs[0]
    return z3.Or(*[Z(x) for x in xs])


def NOT(x):
    if isinstance(x, bool):
        return not x
    return z3.Not(x)


def IMPLIES(a, b):
    if a is True: return b
    if a is False: return True
    if b is True: return True
    return z3.Implies(Z(a), Z(b))


def _lit(x):
    """z3 numerals / boolean literals as python values (keeps terms small: `If(0 == 0, a, b)` is just `a`)"""
    if is_z3(x):
        if z3.is_int_value(x):
            return x.as_long()
        if z3.is_rational_value(x):
            return x.as_fraction()
        if z3.is_true(x):
            return True
        if z3.is_false(x):
            return False
    return x


def ITE(c, a, b):
    c = _lit(c)
    if c is True: return a
    if c is False: return b
    if not is_scalar(a) or not is_scalar(b):
        raise Unsupported('ITE on non-scalars')
    za, zb = Z(num(a)) if not is_bool(a) else Z(a), Z(num(b)) if not is_bool(b) else Z(b)
    if za.sort() != zb.sort():
        if z3.is_bool(za) or z3.is_bool(zb):
            za, zb = Z(num(a)), Z(num(b))
        if za.sort() != zb.sort():
            za, zb = to_real(za), to_real(zb)
    return z3.If(Z(c), za, zb)


def EQ(a, b):
    """python == on scalars / tuples / None / str -> bool or z3 Bool"""
    if a is None or b is None:
        return a is b
    if isinstance(a, str) or isinstance(b, str):
        return isinstance(a, str) and isinstance(b, str) and a == b
    if isinstance(a, tuple) or isinstance(b, tuple):
        if not (isinstance(a, tuple) and isinstance(b, tuple)) or len(a) != len(b):
            return False
        return AND(*[EQ(x, y) for x, y in zip(a, b)])
    if not is_z3(a) and not is_z3(b):
        return a == b
    la, lb = _lit(a), _lit(b)
    if not is_z3(la) and not is_z3(lb):
        return bool(la == lb)
    za, zb = Z(a), Z(b)
    if z3.is_bool(za) != z3.is_bool(zb):
        za, zb = Z(num(a)), Z(num(b))
    return za == zb


def fresh_scalar(t, name='v'):
    return z3.Const(fresh_name(name), sort_of(t))


# --------------------------------------------------------------------------
# containers

class SArr:
    def __init__(self, shape, get, kind):
        self.shape, self.get, self.kind = tuple(shape), get, kind

    @property
    def ndim(self): return len(self.shape)

    def type(self): return TArr(self.kind, self.ndim)


class SList:
    def __init__(self, n, get, elem=None):
        self.n, self.get, self.elem = n, get, elem

    def type(self): return TList(self.elem)

    @staticmethod
    def of(items, elem=None):
        items = list(items)
        if elem is None and items:
            elem = type_of(items[0])

        def get(k, items=items):
            if isinstance(k, int) and (items or elem is None):
                return items[k]
            if not items:
                # guarded by 0 <= k < 0 wherever it is used: any value of the element type will do
                def dummy(t):
                    if isinstance(t, TTuple):
                        return tuple(dummy(e) for e in t.elts)
                    if isinstance(t, TReal):
                        return z3.RealVal(0)
                    if isinstance(t, TBool):
                        return z3.BoolVal(False)
                    if t is None or isinstance(t, TInt):
                        return z3.IntVal(0)
                    if isinstance(t, TList):
                        return SList.of([], t.elem)
                    if isinstance(t, TArr):
                        zero = {'float': z3.RealVal(0), 'int': z3.IntVal(0), 'bool': z3.BoolVal(False)}[t.kind]
                        return SArr((0,) * t.ndim, lambda *ix: zero, t.kind)
                    raise Unsupported('index into empty list of %r' % (t,))
                return dummy(elem)
            if not all(is_scalar(x) for x in items):
                if all(isinstance(x, tuple) for x in items):
                    return tuple(SList.of([x[c] for x in items]).get(k) for c in range(len(items[0])))
                raise Unsupported('symbolic index into a literal list of containers')
            r = items[-1]
            for idx in range(len(items) - 2, -1, -1):
                r = ITE(k == idx, items[idx], r)
            return r
        return SList(len(items), get, elem)

    def concrete_items(self):
        if isinstance(self.n, int):
            return [self.get(k) for k in range(self.n)]
        return None


class SSet:
    def __init__(self, member, elem=INT):
        self.member, self.elem = member, elem

    def type(self): return TSet(self.elem)

    @staticmethod
    def empty(elem=INT):
        return SSet(lambda x: False, elem)


class SDict:
    def __init__(self, dom, val, vtype=None):
        self.dom, self.val, self.vtype = dom, val, vtype

    def type(self): return TDict(self.dom.elem, self.vtype)


class SObj:
    def __init__(self, cls, attrs=None):
        self.cls, self.attrs = cls, dict(attrs or {})

    def type(self): return TOpaque('obj:' + self.cls)


class SFun:
    """callable value. kind: 'lambda' (args, body-ast, closure env) | 'uf' (uninterpreted, name) | 'py' (python callable model)"""
    def __init__(self, kind, **kw):
        self.kind = kind
        self.__dict__.update(kw)

    def type(self): return TOpaque('fun')


class SGen:
    """numpy Generator / global RNG state token (see rng.py)"""
    def __init__(self, state):
        self.state = state

    def type(self): return TOpaque('gen')


class IvVal:
    """value of an intervention dict: a 2-tuple (a, b), a python int a, a python float a, or something else.
    kind (z3 Int): 0 tuple of length 2, 1 int, 2 float, 3 anything else"""
    def __init__(self, kind, a, b):
        self.kind, self.a, self.b = kind, a, b

    def type(self): return TOpaque('ivval')


class Ref:
    """reference to a heap cell. origin: 'fresh' | 'param' | 'alias'"""
    def __init__(self, oid, origin='fresh', root=None, rootver=None, note=''):
        self.oid, self.origin, self.root, self.rootver, self.note = oid, origin, root, rootver, note

    def __repr__(self):
        return 'Ref(%d,%s%s)' % (self.oid, self.origin, ',' + self.note if self.note else '')


CONTAINERS = (SArr, SList, SSet, SDict, SObj)


def type_of(v):
    if isinstance(v, tuple):
        return TTuple(*[type_of(x) for x in v])
    if isinstance(v, CONTAINERS + (SFun, SGen)):
        return v.type()
    if v is None or isinstance(v, str):
        return TOpaque('const')
    return scalar_type(v)


def fresh_value(t, name, shape=None, assume=None):
    """a fresh unconstrained value of type t. ``assume`` collects well-formedness facts (lengths >= 0)."""
    if isinstance(t, (TInt, TReal, TBool)):
        return fresh_scalar(t, name)
    if isinstance(t, TTuple):
        return tuple(fresh_value(e, '%s_%d' % (name, k), assume=assume) for k, e in enumerate(t.elts))
    if isinstance(t, TArr):
        if shape is None:
            shape = tuple(z3.Int(fresh_name(name + '_d%d' % d)) for d in range(t.ndim))
            if assume is not None:
                assume.extend(s >= 0 for s in shape)
        f = z3.Function(fresh_name(name), *([z3.IntSort()] * t.ndim + [KIND_SORT[t.kind]]))
        return SArr(shape, lambda *ix, f=f: f(*[Z(i) for i in ix]), t.kind)
    if isinstance(t, TList):
        n = z3.Int(fresh_name(name + '_n'))
        if assume is not None:
            assume.append(n >= 0)
        return SList(n, fresh_fun(t.elem, name + '_g', 1, assume), t.elem)
    if isinstance(t, TSet):
        ar = len(t.elem.elts) if isinstance(t.elem, TTuple) else 1
        f = z3.Function(fresh_name(name), *([z3.IntSort()] * ar + [z3.BoolSort()]))
        if ar == 1:
            return SSet(lambda x, f=f: f(Z(x)), t.elem)
        return SSet(lambda x, f=f: f(*[Z(c) for c in x]), t.elem)
    raise Unsupported('fresh_value(%r)' % (t,))


def fresh_fun(t, name, arity, assume=None):
    """closure k.. -> fresh value of type t depending on ``arity`` int arguments"""
    if isinstance(t, (TInt, TReal, TBool)):
        f = z3.Function(fresh_name(name), *([z3.IntSort()] * arity + [sort_of(t)]))
        return lambda *ks, f=f: f(*[Z(k) for k in ks])
    if isinstance(t, TTuple):
        fs = [fresh_fun(e, '%s_%d' % (name, c), arity, assume) for c, e in enumerate(t.elts)]
        return lambda *ks, fs=fs: tuple(f(*ks) for f in fs)
    if isinstance(t, TList):
        nf = z3.Function(fresh_name(name + '_n'), *([z3.IntSort()] * (arity + 1)))
        gf = fresh_fun(t.elem, name + '_e', arity + 1, assume)
        if assume is not None:
            ks = [z3.Int(fresh_name('k')) for _ in range(arity)]
            assume.append(z3.ForAll(ks, nf(*ks) >= 0))
        return lambda *ks, nf=nf, gf=gf, t=t: SList(nf(*[Z(k) for k in ks]), lambda j: gf(*(list(ks) + [j])), t.elem)
    if isinstance(t, TArr):
        # arrays stored inside lists: shape given by per-index functions
        shp = [z3.Function(fresh_name(name + '_d%d' % d), *([z3.IntSort()] * (arity + 1))) for d in range(t.ndim)]
        f = z3.Function(fresh_name(name), *([z3.IntSort()] * (arity + t.ndim) + [KIND_SORT[t.kind]]))
        if assume is not None:
            ks = [z3.Int(fresh_name('k')) for _ in range(arity)]
            assume.extend(z3.ForAll(ks, s(*ks) >= 0) for s in shp)
        return lambda *ks, f=f, shp=shp, t=t: SArr(tuple(s(*[Z(k) for k in ks]) for s in shp),
                                                   lambda *ix: f(*([Z(k) for k in ks] + [Z(i) for i in ix])), t.kind)
    if isinstance(t, TSet):
        ar = len(t.elem.elts) if isinstance(t.elem, TTuple) else 1
        f = z3.Function(fresh_name(name), *([z3.IntSort()] * (arity + ar) + [z3.BoolSort()]))
        if ar == 1:
            return lambda *ks, f=f, t=t: SSet(lambda x: f(*([Z(k) for k in ks] + [Z(x)])), t.elem)
        return lambda *ks, f=f, t=t: SSet(lambda x: f(*([Z(k) for k in ks] + [Z(c) for c in x])), t.elem)
    raise Unsupported('fresh_fun(%r)' % (t,))


# --------------------------------------------------------------------------
# quantifier helpers

def bvar(name='q', sort=None):
    return z3.Const(fresh_name(name), sort or z3.IntSort())


def forall(vs, body):
    if isinstance(body, bool):
        return body
    vs = [v for v in vs]
    return z3.ForAll(vs, body) if vs else body


def exists(vs, body):
    if isinstance(body, bool):
        return body
    return z3.Exists(vs, body) if vs else body


def subst(term, pairs):
    """substitute z3 constants in a value (scalar / tuple)"""
    if isinstance(term, tuple):
        return tuple(subst(t, pairs) for t in term)
    if not is_z3(term):
        return term
    return z3.substitute(term, *[(a, Z(b)) for a, b in pairs])


def in_range(x, lo, hi):
    return AND(Z(lo) <= Z(x), Z(x) < Z(hi))


def list_contains(L, x):
    items = L.concrete_items()
    if items is not None:
        return OR(*[EQ(it, x) for it in items])
    k = bvar('k')
    return exists([k], AND(in_range(k, 0, L.n), EQ(L.get(k), x)))


def list_distinct(L):
    items = L.concrete_items()
    if items is not None:
        return AND(*[NOT(EQ(a, b)) for a, b in itertools.combinations(items, 2)])
    k, k2 = bvar('k'), bvar('k')
    return forall([k, k2], IMPLIES(AND(0 <= k, k < k2, k2 < Z(L.n)), NOT(EQ(L.get(k), L.get(k2)))))


def set_of_list(L):
    return SSet(lambda x, L=L: list_contains(L, x), L.elem or INT)


def set_elem_var(S, name='x'):
    """fresh bound variable(s) matching the element type of S"""
    if isinstance(S.elem, TTuple):
        return tuple(bvar(name) for _ in S.elem.elts)
    return bvar(name)


def qvars(x):
    return list(x) if isinstance(x, tuple) else [x]


def set_eq(S1, S2):
    x = set_elem_var(S1)
    a, b = S1.member(x), S2.member(x)
    if isinstance(a, bool) and isinstance(b, bool):
        return a == b
    return forall(qvars(x), Z(a) == Z(b))


def set_subset(S1, S2):
    x = set_elem_var(S1)
    return forall(qvars(x), IMPLIES(S1.member(x), S2.member(x)))


def set_nonempty(S):
    x = set_elem_var(S)
    return exists(qvars(x), S.member(x))


def tag(v):
    """tag of a lazy / marker tuple ('range', 'zip', 'func', 'builtin', ...) or None"""
    return v[0] if isinstance(v, tuple) and v and isinstance(v[0], str) else None
