"""Models of numpy / builtins / stdlib used by the in-scope code (assumption A-NUMPY).

Every rule is conformance-tested against the real numpy (vk/conformance.py);
a callable that is not listed raises ``Unsupported`` - never assumed harmless.
"""
import ast
import z3
from .values import *   # noqa: F401,F403
from . import values as V

LAZY = ('whereidx', 'zip', 'enumerate', 'reversed', 'filter', 'items', 'combinations', 'range', 'values', 'keys', 'dictvalues')


def kind_join(k1, k2, op=None):
    if op == 'Div':
        return 'float'
    if 'float' in (k1, k2):
        return 'float'
    if k1 == 'bool' and k2 == 'bool' and op in ('BitAnd', 'BitOr', 'BitXor'):
        return 'bool'
    return 'int'


def kind_of_scalar(v):
    if is_bool(v): return 'bool'
    if is_int(v): return 'int'
    return 'float'


def cast(v, kind):
    """numpy cast of a scalar to an array kind (float -> int truncates toward zero)"""
    if kind == 'bool':
        if is_bool(v): return v
        return NOT(EQ(v, 0))
    if kind == 'int':
        if is_bool(v) or is_int(v): return num(v)
        zv = Z(v)
        if z3.is_app(zv) and zv.decl().kind() == z3.Z3_OP_TO_REAL:
            return zv.arg(0)        # int(float(i)) == i
        if z3.is_rational_value(zv):
            fr = zv.as_fraction()
            return int(fr) if fr >= 0 else -int(-fr)
        return z3.If(zv >= 0, z3.ToInt(zv), -z3.ToInt(-zv))
    if kind == 'float':
        return to_real(Z(num(v))) if is_z3(v) or True else v
    if kind == 'obj':
        return v
    raise Unsupported('cast to ' + kind)


SQRT = z3.Function('sqrt', z3.RealSort(), z3.RealSort())


class Models:
    def __init__(self, ex):
        self.ex = ex
        self.special_forms = {'old': self.sf_old, 'implies': self.sf_implies, 'lam_array': None}
        del self.special_forms['lam_array']
        self.opaque = {}
        from . import npmodel2, rngmodel, specforms
        self.ext = {}
        self.builtins = {}
        self.methods = {}
        npmodel2.register(self)
        rngmodel.register(self)
        specforms.register(self)
        from . import linalg_rules
        linalg_rules.register(self)

    # ------------------------------------------------------------ special forms
    def sf_old(self, e, st):
        # old(x): value at function entry (parameters are never rebound in spec text)
        nm = e.args[0]
        pre = st.ghost.get('pre_state')
        if pre is None:
            return self.ex.ev(nm, st)
        loc = State_like(st, pre)
        return self.ex.ev(nm, loc)

    def sf_implies(self, e, st):
        a = self.ex.truth(self.ex.ev(e.args[0], st), st)
        if a is False:
            return True
        from .engine import export_facts
        n0 = len(st.pc)
        loc = st.fork(); loc.assume(a)
        b = self.ex.truth(self.ex.ev(e.args[1], loc), loc)
        export_facts(loc, st, n0, [a])
        st.heap.update({k: v for k, v in loc.heap.items() if k not in st.heap})
        if loc.ghost.get('tokens3') and loc.ghost.get('tokens3') != st.ghost.get('tokens3'):
            st.ghost['tokens3'] = loc.ghost['tokens3']      # names given to 3-D arrays stay the same names outside the implication
        st.side += loc.side
        return IMPLIES(a, b)

    # ------------------------------------------------------------ dispatch
    def call_builtin(self, name, args, kw, st, node):
        f = self.builtins.get(name)
        if f is None:
            if name in EXC:
                return ('excval', name)
            raise Unsupported('builtin %s' % name)
        return f(args, kw, st, node)

    def call_ext(self, q, args, kw, st, node):
        if not self.ex.spec:
            for h in getattr(self.ex, 'before_hooks', {}).get(q.rsplit('.', 1)[-1], []):
                if q not in ('numpy.linalg.inv', 'numpy.linalg.solve'):
                    h(st)
        f = self.ext.get(q)
        if f is None:
            raise Unsupported('external callable %s' % q)
        return f(args, kw, st, node)

    def call_method(self, base, name, args, kw, st, node):
        pv = st.deref(base)
        if tag(pv) == 'ext':
            return self.call_ext(pv[1] + '.' + name, args, kw, st, node)
        tname = type(pv).__name__ if not isinstance(pv, tuple) else ('lazy_' + str(pv[0]) if pv and isinstance(pv[0], str) else 'tuple')
        f = self.methods.get((tname, name))
        if f is None:
            raise Unsupported('method %s.%s' % (tname, name))
        return f(base, pv, args, kw, st, node)

    # ------------------------------------------------------------ helpers
    def nonneg_diff(self, hi, lo):
        if not is_z3(hi) and not is_z3(lo):
            return max(0, hi - lo)
        d = Z(hi) - Z(lo)
        return z3.If(d >= 0, d, z3.IntVal(0)) if not (not is_z3(lo) and lo == 0) else Z(hi)

    def shape_eq(self, s1, s2):
        return AND(*[EQ(a, b) for a, b in zip(s1, s2)])

    def broadcast(self, a, b, st, node):
        """returns (shape, geta, getb) for elementwise ops (scalar / equal shapes / trailing-1)"""
        if not isinstance(a, SArr):
            a = self.to_array_like(a, st)
        if not isinstance(b, SArr):
            b = self.to_array_like(b, st)
        if not isinstance(a, SArr) and not isinstance(b, SArr):
            raise Unsupported('broadcast of scalars')
        if not isinstance(a, SArr):
            return b.shape, (lambda *ix: a), b.get
        if not isinstance(b, SArr):
            return a.shape, a.get, (lambda *ix: b)
        if a.ndim == b.ndim:
            same = self.shape_eq(a.shape, b.shape)
            if same is not True:
                self.ex.oblige(st, 'shape', same, node)
                st.assume(same)
            return a.shape, a.get, b.get
        if a.ndim == 0:
            return b.shape, (lambda *ix: a.get()), b.get
        if b.ndim == 0:
            return a.shape, a.get, (lambda *ix: b.get())
        if a.ndim == 2 and b.ndim == 1:
            same = EQ(a.shape[1], b.shape[0])
            self.ex.oblige(st, 'shape', same, node); st.assume(same)
            return a.shape, a.get, (lambda i, j: b.get(j))
        if a.ndim == 1 and b.ndim == 2:
            same = EQ(b.shape[1], a.shape[0])
            self.ex.oblige(st, 'shape', same, node); st.assume(same)
            return b.shape, (lambda i, j: a.get(j)), b.get
        raise Unsupported('broadcast %d-d with %d-d' % (a.ndim, b.ndim))

    def to_array_like(self, v, st):
        """python lists / ranges used as array operands"""
        if tag(v) in LAZY:
            v = st.deref(self.materialise(v, st))
        if isinstance(v, SList):
            if v.elem is None or isinstance(v.elem, (TInt, TReal, TBool)):
                return SArr((v.n,), v.get, {'Int': 'int', 'Real': 'float', 'Bool': 'bool'}.get(repr(v.elem), 'int'))
            raise Unsupported('list of non-scalars as array operand')
        return v

    def elementwise_cmp(self, on, a, b, st, node):
        a, b = self.to_array_like(a, st), self.to_array_like(b, st)
        if a is None or b is None or isinstance(a, str) or isinstance(b, str):
            raise Unsupported('array compared with None/str')
        shape, ga, gb = self.broadcast(a, b, st, node)
        f = {'Eq': lambda x, y: EQ(x, y), 'NotEq': lambda x, y: NOT(EQ(x, y)),
             'Lt': lambda x, y: Z(num(x)) < Z(num(y)), 'LtE': lambda x, y: Z(num(x)) <= Z(num(y)),
             'Gt': lambda x, y: Z(num(x)) > Z(num(y)), 'GtE': lambda x, y: Z(num(x)) >= Z(num(y))}.get(on)
        if f is None:
            raise Unsupported('array comparison ' + on)
        return st.alloc(SArr(shape, lambda *ix: f(ga(*ix), gb(*ix)), 'bool'))

    def elementwise_bin(self, on, a, b, st, node, inplace=False):
        if on == 'MatMult':
            return self.matmul(a, b, st, node)
        a, b = self.to_array_like(a, st), self.to_array_like(b, st)
        ka = a.kind if isinstance(a, SArr) else kind_of_scalar(a)
        kb = b.kind if isinstance(b, SArr) else kind_of_scalar(b)
        if 'obj' in (ka, kb):
            raise Unsupported('arithmetic on object arrays')
        shape, ga, gb = self.broadcast(a, b, st, node)
        if on in ('BitAnd', 'BitOr') and ka == 'bool' and kb == 'bool':
            op = AND if on == 'BitAnd' else OR
            return SArr(shape, lambda *ix: op(ga(*ix), gb(*ix)), 'bool')
        kind = kind_join(ka, kb, on)
        if inplace and isinstance(a, SArr):
            if a.kind == 'int' and kind == 'float':
                # numpy: UFuncTypeError (cannot cast float result to int with same_kind)
                self.ex.oblige(st, 'no-exception:UFuncTypeError', False, node, text='in-place float arithmetic on an int array')
                raise_py('UFuncTypeError')
            kind = a.kind

        def get(*ix):
            x, y = num(ga(*ix)), num(gb(*ix))
            self.ex.spec += 1
            try:
                return cast(self.ex.scalar_bin(on, x, y, st, node), kind)
            finally:
                self.ex.spec -= 1
        if on == 'Div' and not self.ex.spec:
            pass   # numpy division by zero yields inf/nan with a warning, not an exception
        return SArr(shape, get, kind)

    def matmul(self, a, b, st, node):
        from . import linalg
        return linalg.matmul(self, a, b, st, node)

    def sqrt(self, x, st):
        r = SQRT(to_real(x))
        st.assume(z3.Implies(to_real(x) >= 0, z3.And(r >= 0, r * r == to_real(x))))
        self.ex.use('A-REAL:sqrt')
        return r

    def pow2(self, y, st):
        r = z3.Int(fresh_name('pow2'))
        st.assume(r >= 1)
        st.assume(z3.Implies(Z(y) == 0, r == 1))
        self.ex.use('A-NUMPY:pow2-uninterpreted')
        return r

    # ------------------------------------------------------------ sets / lists
    def set_builder(self, vs, guard, val):
        """{val for vs if guard}"""
        el = type_of(val)
        vals = qvars(val)
        if all(is_z3(v) for v in vals) and len(set(str(v) for v in vals)) == len(vals) and set(str(v) for v in vals) <= set(str(v) for v in vs) and len(vals) == len(vs):
            def member(x, vals=vals, guard=guard):
                xs = qvars(x)
                return subst(guard, list(zip(vals, xs))) if is_z3(guard) else guard
            return SSet(member, el)

        def member(x, vs=vs, guard=guard, val=val):
            return exists(vs, AND(guard, EQ(val, x)))
        return SSet(member, el)

    def list_of_set(self, S, st, sort=False):
        """list(S) / sorted(S): fresh list enumerating S without repetition (arbitrary order unless sorted)"""
        L = fresh_value(TList(S.elem), 'lst')
        st.assume(Z(L.n) >= 0)
        st.assume(Z(L.n) == self.set_card(S, st))     # the enumeration of a set has card(S) elements
        k, k2 = bvar('k'), bvar('k')
        x = set_elem_var(S)
        st.assume(forall([k], IMPLIES(in_range(k, 0, L.n), S.member(L.get(k)))))
        if sort:
            st.assume(forall([k, k2], IMPLIES(AND(0 <= k, k < k2, k2 < Z(L.n)), Z(L.get(k)) < Z(L.get(k2)))))
        else:
            st.assume(forall([k, k2], IMPLIES(AND(0 <= k, k < k2, k2 < Z(L.n)), NOT(EQ(L.get(k), L.get(k2))))))
        # surjectivity with an explicit index function (keeps the axiom quantifier-alternation free)
        if isinstance(S.elem, TTuple):
            idx = z3.Function(fresh_name('idx'), *([z3.IntSort()] * (len(S.elem.elts) + 1)))
            ix = idx(*qvars(x))
        else:
            idx = z3.Function(fresh_name('idx'), z3.IntSort(), z3.IntSort())
            ix = idx(x)
        st.assume(forall(qvars(x), IMPLIES(S.member(x), AND(in_range(ix, 0, L.n), EQ(L.get(ix), x)))))
        self.ex.use('A-NUMPY:list(set) enumerates without repetition')
        return st.alloc(L)

    def dict_keys_list(self, D, st):
        """the iteration order of a dict value: ONE enumeration of its key set per dict state (a dict value is immutable here; an update
        creates a new SDict and, unless it only overwrites an existing key, a new unknown order).  list(d), d.items(), `for k in d` all
        use it, so a loop over d.items() and a specification over list(d) speak about the same order."""
        L = getattr(D, 'enum', None)
        if L is None:
            n0 = len(st.pc)
            L = st.deref(self.list_of_set(D.dom, st))
            D.enum = L
            D.enum_facts = list(st.pc[n0:])       # the enumeration's defining facts travel with it (it may be reused on another path)
            self.ex.use('A-NUMPY:iteration order of a dict is a fixed enumeration of its keys for as long as the dict is not modified')
        else:
            have = {f.get_id() for f in st.pc if is_z3(f)}
            for f in D.enum_facts:
                if is_z3(f) and f.get_id() not in have:
                    st.assume(f)
        return st.alloc(SList(L.n, L.get, L.elem))

    def list_getitem(self, L, idx, st, node):
        if tag(idx) == 'slice':
            _, lo, hi, step = idx
            if step not in (None, 1):
                raise Unsupported('list slice step')
            lo = 0 if lo is None else lo
            hi = L.n if hi is None else hi
            if not is_z3(lo) and not is_z3(hi) and isinstance(L.n, int):
                items = L.concrete_items()[lo:hi]
                return SList.of(items, L.elem)
            if not is_z3(lo) and lo >= 0 and hi is L.n:
                return SList(self.nonneg_diff(L.n, lo), lambda k: L.get(Z(k) + lo if lo else k), L.elem)
            raise Unsupported('general list slice')
        if not is_scalar(idx):
            raise Unsupported('list index %r' % (idx,))
        if isinstance(idx, int) and idx < 0:
            self.ex.oblige(st, 'index', Z(L.n) >= -idx if not isinstance(L.n, int) else L.n >= -idx, node)
            return L.get(L.n + idx if isinstance(L.n, int) else Z(L.n) + idx)
        self.ex.oblige(st, 'index', in_range(idx, 0, L.n), node)
        return L.get(idx)

    def list_concat(self, a, b):
        if not isinstance(b, SList):
            raise Unsupported('list + non-list')
        ia, ib = a.concrete_items(), b.concrete_items()
        el = a.elem or b.elem
        if ia is not None and ib is not None:
            return SList.of(ia + ib, el)
        n = Z(a.n) + Z(b.n)

        def get(k, a=a, b=b):
            if isinstance(el, (TInt, TReal, TBool)) or el is None:
                return ITE(Z(k) < Z(a.n), a.get(k), b.get(Z(k) - Z(a.n))) if not (ia is not None and len(ia) == 0) else b.get(k)
            if isinstance(el, TTuple):
                x, y = a.get(k) if not (ia is not None and len(ia) == 0) else None, b.get(Z(k) - Z(a.n))
                if x is None:
                    return y
                return tuple(ITE(Z(k) < Z(a.n), p, q) for p, q in zip(x, y))
            raise Unsupported('concat of lists of containers')
        return SList(n, get, el)

    def list_repeat(self, L, n, st):
        items = L.concrete_items()
        if items is not None and len(items) == 1:
            it = items[0]
            return SList(z3.If(Z(n) >= 0, Z(n), 0) if is_z3(n) else max(n, 0), lambda k: it, L.elem)
        if items is not None and isinstance(n, int):
            return SList.of(items * n, L.elem)
        raise Unsupported('list * n')

    def card_lemmas(self, on, A, B, R, st):
        """L-CARD instances relating the cardinalities of A, B and R = A op B (only when some cardinality is already in play)"""
        if not st.ghost.get('cards') and not st.ghost.get('want_cards'):
            return
        cA, cB, cR = self.set_card(A, st), self.set_card(B, st), self.set_card(R, st)
        if on == 'Sub':
            st.assume(AND(cR <= cA, cR >= cA - cB, IMPLIES(set_subset(B, A), cR == cA - cB)))
        elif on == 'BitOr':
            x = set_elem_var(A)
            disj = forall(qvars(x), NOT(AND(A.member(x), B.member(x))))
            st.assume(AND(cR <= cA + cB, cR >= cA, cR >= cB, IMPLIES(disj, cR == cA + cB)))
        elif on == 'BitAnd':
            st.assume(AND(cR <= cA, cR <= cB))
        self.ex.use('L-CARD:cardinality of union / difference / intersection [Lean: Lemmas.card_sdiff_*, card_union_bounds]')

    def materialise(self, lazy, st):
        from .npmodel2 import materialise
        return materialise(self, lazy, st)

    def havoc_global(self, name, st):
        from .rngmodel import havoc_global
        havoc_global(self, name, st)


EXC = {'ValueError', 'TypeError', 'IndexError', 'KeyError', 'AssertionError', 'Exception'}


def raise_py(exc):
    from .engine import PyRaise
    raise PyRaise(exc)


def State_like(st, pre):
    from .engine import State
    s = State(pre['env'], pre['heap'], pre['ver'], st.pc, st.ghost)
    return s
