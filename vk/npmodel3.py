"""numpy / builtin model rules (part 3: the callable tables)."""
import z3
from .values import *   # noqa: F401,F403
from .npmodel import LAZY, cast, kind_of_scalar, raise_py
from .npmodel2 import (where_enum, where_enum2, arr_sum, arr_all, MaskSel, count_true, materialise, is_slice)


ROUND = z3.Function('py_round', z3.RealSort(), z3.IntSort())


def register(M):
    ex = M.ex
    B, E, ME = M.builtins, M.ext, M.methods

    def deref(st, v):
        return st.deref(v)

    def lazy_or(st, v):
        pv = st.deref(v)
        if tag(pv) in LAZY:
            return st.deref(materialise(M, pv, st))
        return pv

    # ---------------------------------------------------------------- builtins
    def b_len(args, kw, st, node):
        v = st.deref(args[0])
        if tag(v) in LAZY:
            if v[0] == 'range':
                return M.nonneg_diff(v[2], v[1]) if v[3] == 1 else len(range(v[1], v[2], v[3]))
            v = st.deref(materialise(M, v, st))
        if isinstance(v, SArr):
            if v.ndim == 0:
                raise_py('TypeError')
            return v.shape[0]
        if isinstance(v, SList):
            return v.n
        if isinstance(v, tuple):
            return len(v)
        if isinstance(v, IvVal):
            return z3.If(v.kind == 0, z3.IntVal(2), z3.IntVal(-1))     # only reached after the type test
        if isinstance(v, SDict):
            if getattr(v, 'keys_range', None) is not None:
                return M.nonneg_diff(v.keys_range[1], v.keys_range[0])
            return set_card(v.dom, st)
        if isinstance(v, SSet):
            return set_card(v, st)
        if isinstance(v, str):
            return len(v)
        raise Unsupported('len of %r' % (type(v),))
    B['len'] = b_len

    def set_card(S, st):
        reg = st.ghost.get('cards', ())
        for (c0, m0) in reg:
            if m0 is S.member:
                return c0
        c = z3.Int(fresh_name('card'))
        st.ghost['cards'] = tuple(reg) + ((c, S.member),)
        x, y = set_elem_var(S), set_elem_var(S)
        st.assume(c >= 0)
        ne = set_nonempty(S)
        st.assume((c == 0) == NOT(ne) if is_z3(ne) else ((c == 0) if ne is False else (c > 0)))
        two = exists(qvars(x) + qvars(y), AND(S.member(x), S.member(y), NOT(EQ(x, y))))
        if is_z3(two):
            st.assume((c >= 2) == two)
        ex.use('L-CARD:count facts (=0, >=2) [Lean: Lemmas.count_*]')
        return c
    M.set_card = set_card

    def b_range(args, kw, st, node):
        a = [num(x) for x in args]
        if len(a) == 1: return ('range', 0, a[0], 1)
        if len(a) == 2: return ('range', a[0], a[1], 1)
        return ('range', a[0], a[1], a[2])
    B['range'] = b_range

    def b_set(args, kw, st, node):
        if not args:
            return st.alloc(SSet.empty())
        v = st.deref(args[0])
        if tag(v) == 'whereidx' and v[1].ndim == 1:
            mask = v[1]
            return st.alloc(SSet(lambda x: AND(in_range(x, 0, mask.shape[0]), ex.truth(mask.get(x), st)), INT))
        if tag(v) == 'range' and v[3] == 1:
            S = SSet(lambda x: in_range(x, v[1], v[2]), INT)
            st.ghost['want_cards'] = True
            st.assume(set_card(S, st) == Z(M.nonneg_diff(v[2], v[1])))
            ex.use('L-CARD:card of an integer interval [Lean: Lemmas.card_interval]')
            S.from_range = True
            S.range_bounds = (v[1], v[2])
            return st.alloc(S)
        if tag(v) in LAZY:
            v = st.deref(materialise(M, v, st))
        if isinstance(v, SSet):
            return st.alloc(SSet(v.member, v.elem))
        if isinstance(v, SList):
            S = set_of_list(v)
            if st.ghost.get('cards') or st.ghost.get('want_cards'):
                c = set_card(S, st)
                st.assume(AND(c <= Z(v.n), IMPLIES(list_distinct(v), c == Z(v.n))))
                ex.use('L-CARD:a list without repetition of length n has n distinct elements [Lean: Lemmas.card_nodup_list]')
            return st.alloc(S)
        if isinstance(v, SArr) and v.ndim == 1:
            k = bvar('k')
            return st.alloc(SSet(lambda x: exists([k], AND(in_range(k, 0, v.shape[0]), EQ(v.get(k), x))), KIND_T[v.kind]))
        if isinstance(v, tuple):
            return st.alloc(SSet(lambda x: OR(*[EQ(x, it) for it in v]), type_of(v[0]) if v else INT))
        if isinstance(v, SDict):
            return st.alloc(SSet(v.dom.member, v.dom.elem))
        raise Unsupported('set(%r)' % (type(v),))
    B['set'] = b_set

    def b_list(args, kw, st, node):
        if not args:
            return st.alloc(SList.of([]))
        v = st.deref(args[0])
        if tag(v) in LAZY:
            return materialise(M, v, st)
        if isinstance(v, SSet):
            if getattr(v, 'from_range', False):
                # A-SETORDER (CPython): a set built as set(range(n)) (minus / intersected with something) holds small non-negative
                # ints whose hash is their value and whose table is larger than every element: it iterates in increasing order.
                # Conformance-checked by vk/conformance.py; pdag_to_dag relies on it (all_but_i must stay aligned with `indexes`).
                ex.use('A-SETORDER:list(set(range(n)) - {...}) enumerates in increasing order (CPython small-int hashing; conformance-tested)')
                rb, rm = getattr(v, 'range_bounds', None), getattr(v, 'range_removed', None)
                if rb is not None and rm is not None and not is_z3(rb[0]) and rb[0] == 0:
                    # closed form of the increasing enumeration of range(0, n) minus one element x: k -> k (k < x), k + 1 (k >= x)
                    # (the fact itself needs induction on k, which the solver does not do: it is part of the model rule)
                    n, x = Z(M.nonneg_diff(rb[1], 0)), Z(num(rm))
                    inside = AND(0 <= x, x < n)
                    L = SList(z3.If(Z(inside), n - 1, n) if is_z3(inside) else (n - 1 if inside else n),
                              lambda k, x=x, inside=inside: z3.If(AND(Z(inside), Z(k) >= x), Z(k) + 1, Z(k)), INT)
                    return st.alloc(L)
                return M.list_of_set(v, st, sort=True)
            return M.list_of_set(v, st)
        if isinstance(v, SList):
            return st.alloc(SList(v.n, v.get, v.elem))
        if isinstance(v, SArr) and v.ndim == 1:
            return st.alloc(SList(v.shape[0], v.get, KIND_T[v.kind]))
        if isinstance(v, SArr) and v.ndim == 2:
            return st.alloc(SList(v.shape[0], lambda k: SArr(v.shape[1:], lambda *ix: v.get(k, *ix), v.kind), TArr(v.kind, 1)))
        if isinstance(v, tuple):
            return st.alloc(SList.of(list(v)))
        if isinstance(v, SDict):
            return M.dict_keys_list(v, st)
        raise Unsupported('list(%r)' % (type(v),))
    B['list'] = b_list

    def b_tuple(args, kw, st, node):
        v = lazy_or(st, args[0]) if args else ()
        if isinstance(v, tuple):
            return v
        if isinstance(v, SList) and isinstance(v.n, int):
            return tuple(v.get(k) for k in range(v.n))
        raise Unsupported('tuple() of symbolic length')
    B['tuple'] = b_tuple

    def b_sorted(args, kw, st, node):
        v = lazy_or(st, args[0])
        if isinstance(v, SSet):
            return M.list_of_set(v, st, sort=True)
        if isinstance(v, SList):
            items = v.concrete_items()
            if items is not None and all(not is_z3(x) for x in items):
                return st.alloc(SList.of(sorted(items), v.elem))
            # sorted(list) = sorted enumeration when the list has no duplicates is not assumed: model as permutation
            raise Unsupported('sorted(list) of symbolic list')
        raise Unsupported('sorted(%r)' % (type(v),))
    B['sorted'] = b_sorted

    B['zip'] = lambda args, kw, st, node: ('zip', list(args))
    B['enumerate'] = lambda args, kw, st, node: ('enumerate', args[0])
    B['reversed'] = lambda args, kw, st, node: ('reversed', args[0])
    B['filter'] = lambda args, kw, st, node: ('filter', args[0], args[1])
    B['print'] = lambda args, kw, st, node: None
    B['str'] = lambda args, kw, st, node: 'str'
    B['abs'] = lambda args, kw, st, node: (abs(args[0]) if not is_z3(args[0]) else z3.If(Z(num(args[0])) >= 0, Z(num(args[0])), -Z(num(args[0]))))
    B['bool'] = lambda args, kw, st, node: ex.truth(args[0], st)

    def b_isinstance(args, kw, st, node):
        return type_test(st.deref(args[0]), args[1], st, exact=False)
    B['isinstance'] = b_isinstance

    def type_test(v, ty, st, exact):
        names = []
        tys = ty if isinstance(ty, tuple) and (not ty or not isinstance(ty[0], str)) else (ty,)
        for t in tys:
            if tag(t) in ('builtin', 'ext', 'class'):
                names.append(t[1])
            elif isinstance(t, Ref) or isinstance(t, SList):
                lst = st.deref(t)
                for it in lst.concrete_items():
                    names.append(it[1])
            else:
                raise Unsupported('type test against %r' % (t,))
        r = []
        for nm in names:
            r.append(has_type(v, nm, exact))
        return OR(*r)

    def has_type(v, nm, exact):
        if isinstance(v, IvVal):
            return {'tuple': v.kind == 0, 'int': v.kind == 1, 'float': v.kind == 2}.get(nm, False)
        if tag(v) == 'pyscalar':
            # symbolic "python int or python float" parameter: ('pyscalar', isint: z3 Bool, value)
            if nm == 'int': return v[1]
            if nm == 'float': return NOT(v[1])
            return False
        if nm == 'tuple': return isinstance(v, tuple)
        if nm == 'list': return isinstance(v, SList)
        if nm == 'set': return isinstance(v, SSet)
        if nm == 'dict': return isinstance(v, SDict)
        if nm == 'int': return is_int(v) and not is_bool(v) if exact else (is_int(v) or is_bool(v))
        if nm == 'float': return is_real(v)
        if nm == 'bool': return is_bool(v)
        if nm == 'str': return isinstance(v, str)
        if nm in ('numpy.ndarray',): return isinstance(v, SArr)
        if isinstance(v, SObj): return v.cls == nm
        return False
    M.has_type = has_type

    def b_type(args, kw, st, node):
        return ('typeof', st.deref(args[0]))
    B['type'] = b_type

    def b_int(args, kw, st, node):
        v = num(st.deref(args[0]))
        if not is_z3(v):
            return int(v)
        if z3.is_int(v):
            return v
        # truncation toward zero, stated with linear constraints (friendlier to the solver than to_int)
        r = z3.Int(fresh_name('trunc'))
        st.assume(z3.If(v >= 0, z3.And(to_real(r) <= v, v < to_real(r) + 1), z3.And(to_real(r) - 1 < v, v <= to_real(r))))
        return r
    B['int'] = b_int
    B['float'] = lambda args, kw, st, node: to_real(Z(num(st.deref(args[0])))) if is_z3(st.deref(args[0])) else float(st.deref(args[0]))

    def b_round(args, kw, st, node):
        v = num(st.deref(args[0]))
        if len(args) > 1:
            raise Unsupported('round with ndigits')
        if not is_z3(v):
            return round(v)
        if z3.is_int(v):
            return v
        r = ROUND(v)
        # round-half-even: |r - v| <= 1/2 (ties are left unspecified between the two neighbours); a function of its argument
        st.assume(z3.And(to_real(r) - v <= z3.RealVal('1/2'), v - to_real(r) <= z3.RealVal('1/2')))
        ex.use('A-REAL:round(x) is an integer within 1/2 of x')
        return r
    B['round'] = b_round

    def b_all(args, kw, st, node, any_=False):
        v = args[0]
        if tag(v) == 'genexp':
            _, vs, guard, val, loc = v
            t = ex.truth(val, loc)
            return exists(vs, AND(guard, t)) if any_ else forall(vs, IMPLIES(guard, t))
        pv = lazy_or(st, v)
        if isinstance(pv, SList):
            items = pv.concrete_items()
            if items is not None:
                ts = [ex.truth(x, st) for x in items]
                return OR(*ts) if any_ else AND(*ts)
            k = bvar('k')
            t = ex.truth(pv.get(k), st)
            return exists([k], AND(in_range(k, 0, pv.n), t)) if any_ else forall([k], IMPLIES(in_range(k, 0, pv.n), t))
        if isinstance(pv, SArr):
            return arr_all(M, pv, st, any_)
        if isinstance(pv, tuple):
            ts = [ex.truth(x, st) for x in pv]
            return OR(*ts) if any_ else AND(*ts)
        raise Unsupported('all/any over %r' % (type(pv),))
    B['all'] = b_all
    B['any'] = lambda args, kw, st, node: b_all(args, kw, st, node, any_=True)

    def b_dict(args, kw, st, node):
        if not args:
            return st.alloc(SDict(SSet.empty(), lambda k: None))
        v = args[0]
        if tag(v) == 'genexp':
            _, vs, guard, val, loc = v
            if not (isinstance(val, tuple) and len(val) == 2):
                raise Unsupported('dict(genexp) of non-pairs')
            key, value = val
            if not (len(vs) == 1 and is_z3(key) and key.eq(vs[0])):
                raise Unsupported('dict(genexp) with computed keys')
            value = ex.snapshot(value, loc)
            bv = vs[0]
            def valf(x, value=value, bv=bv):
                if isinstance(value, SList):
                    return SList(subst(value.n, [(bv, x)]) if is_z3(value.n) else value.n, lambda k: subst(value.get(k), [(bv, x)]), value.elem)
                return subst(value, [(bv, x)])
            d = SDict(SSet(lambda x: subst(guard, [(bv, x)]) if is_z3(guard) else guard, INT), valf,
                      type_of(value) if not isinstance(value, SList) else TList(value.elem))
            d.keys_range = getattr(loc, 'last_range', None)
            return st.alloc(d)
        pv = lazy_or(st, v)
        if isinstance(pv, SList) and isinstance(pv.elem, TTuple) and len(pv.elem.elts) == 2:
            # dict(list of (key, value)): later duplicates win; we require (and assume via obligation) distinct keys
            keys = SList(pv.n, lambda k: pv.get(k)[0], pv.elem.elts[0])
            dist = list_distinct(keys)
            ex.oblige(st, 'dict-distinct-keys', dist, node, text='dict() built from pairwise distinct keys')
            st.assume(dist)
            kt = pv.elem.elts[0]
            ar = len(kt.elts) if isinstance(kt, TTuple) else 1
            idx = z3.Function(fresh_name('kidx'), *([z3.IntSort()] * (ar + 1)))
            kq = bvar('k')
            st.assume(forall([kq], IMPLIES(in_range(kq, 0, pv.n), idx(*[Z(c) for c in qvars(keys.get(kq))]) == kq)))
            return st.alloc(SDict(set_of_list(keys), lambda x: pv.get(idx(*[Z(c) for c in qvars(x)]))[1], pv.elem.elts[1]))
        raise Unsupported('dict(%r)' % (type(pv),))
    B['dict'] = b_dict

    def b_max(args, kw, st, node):
        xs = [num(x) for x in (args if len(args) > 1 else st.deref(args[0]))] if len(args) > 1 or isinstance(st.deref(args[0]), tuple) else None
        if xs is None:
            raise Unsupported('max of container')
        r = xs[0]
        for x in xs[1:]:
            r = ITE(Z(x) > Z(r), x, r) if (is_z3(x) or is_z3(r)) else max(x, r)
        return r
    B['max'] = b_max

    def b_min(args, kw, st, node):
        xs = [num(x) for x in args]
        r = xs[0]
        for x in xs[1:]:
            r = ITE(Z(x) < Z(r), x, r) if (is_z3(x) or is_z3(r)) else min(x, r)
        return r
    B['min'] = b_min

    for nm in ('ValueError', 'TypeError', 'IndexError', 'KeyError', 'Exception', 'AssertionError'):
        B[nm] = (lambda nm: lambda args, kw, st, node: ('excval', nm))(nm)

    # ---------------------------------------------------------------- numpy functions
    def as_arr(st, v):
        pv = lazy_or(st, v)
        if isinstance(pv, SArr):
            return pv
        if isinstance(pv, SList):
            if pv.elem is None or isinstance(pv.elem, (TInt, TReal, TBool)):
                kind = 'float' if isinstance(pv.elem, TReal) else ('bool' if isinstance(pv.elem, TBool) else 'int')
                items = pv.concrete_items()
                if items and any(is_real(x) for x in items):
                    kind = 'float'
                return SArr((pv.n,), (lambda k: cast(pv.get(k), kind)), kind)
            if isinstance(pv.elem, TList) or isinstance(pv.elem, TTuple):
                items = pv.concrete_items()
                # list of equal-length rows
                if isinstance(pv.elem, TTuple):
                    w = len(pv.elem.elts)
                    kind = 'float' if any(isinstance(t, TReal) for t in pv.elem.elts) else 'int'
                    return SArr((pv.n, w), lambda i, j: cast(_tuple_sel(pv.get(i), j), kind), kind)
            if isinstance(pv.elem, TList) and isinstance(pv.elem.elem, (TInt, TReal, TBool)):
                # list of rows that are lists of scalars: a 2-D array iff there is at least one row and all rows have one length
                # (an empty list gives a 1-D array of length 0, ragged rows an error / object array: excluded by obligation)
                w = st.deref(pv.get(0)).n
                k = bvar('k')
                ex.oblige(st, 'shape', AND(Z(pv.n) >= 1, forall([k], IMPLIES(in_range(k, 0, pv.n), Z(st.deref(pv.get(k)).n) == Z(w)))), None,
                          text='np.array of a non-empty list of equal-length rows')
                kind = 'float' if isinstance(pv.elem.elem, TReal) else ('bool' if isinstance(pv.elem.elem, TBool) else 'int')
                return SArr((pv.n, w), lambda i, j: cast(st.deref(pv.get(i)).get(j), kind), kind)
            if isinstance(pv.elem, TArr):
                e = pv.elem
                first = pv.get(0)
                return SArr((pv.n,) + tuple(first.shape), lambda k, *ix: pv.get(k).get(*ix), e.kind)
            raise Unsupported('array from list of %r' % (pv.elem,))
        if isinstance(pv, tuple) and all(is_scalar(x) for x in pv):
            return as_arr(st, SList.of(list(pv)))
        if is_scalar(pv):
            return SArr((), lambda: pv, kind_of_scalar(pv))
        raise Unsupported('array from %r' % (type(pv),))
    M.as_arr = as_arr

    def _tuple_sel(tp, j):
        if isinstance(j, int):
            return tp[j]
        r = tp[-1]
        for c in range(len(tp) - 2, -1, -1):
            r = ITE(EQ(j, c), tp[c], r)
        return r

    def np_where(args, kw, st, node):
        if len(args) != 1:
            raise Unsupported('np.where with 3 arguments')
        return ('whereres', as_arr(st, args[0]))
    E['numpy.where'] = np_where

    def where_item(base, idx, st):
        m = base[1]
        if not isinstance(idx, int):
            raise Unsupported('np.where(...)[symbolic]')
        if m.ndim == 1 and idx == 0:
            return ('whereidx', m, 0)
        if m.ndim == 2 and idx in (0, 1):
            return st.alloc(where_unpack(base, st)[idx])
        raise_py('IndexError')
    M.where_item = where_item

    def where_unpack(base, st):
        m = base[1]
        if m.ndim == 1:
            return (st.alloc(where_enum(M, m, st)),)
        if m.ndim == 2:
            return where_enum2(M, m, st)
        raise Unsupported('np.where of %d-d' % m.ndim)
    M.where_unpack = where_unpack

    def np_logical(op):
        def f(args, kw, st, node):
            a, b = as_arr(st, args[0]), as_arr(st, args[1])
            shape, ga, gb = M.broadcast(a, b, st, node)
            return st.alloc(SArr(shape, lambda *ix: op(ex.truth(ga(*ix), st), ex.truth(gb(*ix), st)), 'bool'))
        return f
    E['numpy.logical_and'] = np_logical(AND)
    E['numpy.logical_or'] = np_logical(OR)
    E['numpy.logical_not'] = lambda args, kw, st, node: st.alloc((lambda a: SArr(a.shape, lambda *ix: NOT(ex.truth(a.get(*ix), st)), 'bool'))(as_arr(st, args[0])))

    def dtype_kind(v, default):
        if v is None:
            return default
        if tag(v) == 'dtype':
            return v[1]
        if tag(v) in ('builtin', 'ext'):
            return {'bool': 'bool', 'int': 'int', 'float': 'float', 'object': 'obj', 'numpy.byte': 'int', 'numpy.int64': 'int', 'numpy.float64': 'float', 'numpy.bool_': 'bool'}.get(v[1]) or _unsup('dtype %s' % v[1])
        raise Unsupported('dtype %r' % (v,))

    def _unsup(msg):
        raise Unsupported(msg)

    def zero_of(kind):
        return {'bool': False, 'int': 0, 'float': z3.RealVal(0), 'obj': None}[kind]

    def shape_arg(st, v):
        pv = lazy_or(st, v)
        if is_scalar(pv):
            return (num(pv),)
        if isinstance(pv, tuple):
            return tuple(num(x) for x in pv)
        if isinstance(pv, SList) and isinstance(pv.n, int):
            return tuple(num(pv.get(k)) for k in range(pv.n))
        raise Unsupported('shape argument')

    def np_zeros(args, kw, st, node, fill=0):
        shape = shape_arg(st, args[0])
        kind = dtype_kind(kw.get('dtype', args[1] if len(args) > 1 else None), 'float')
        for s in shape:
            ex.oblige(st, 'nonneg-dim', Z(s) >= 0 if is_z3(s) else s >= 0, node)
        val = zero_of(kind) if fill == 0 else cast(fill, kind)
        return st.alloc(SArr(shape, lambda *ix: val, kind))
    E['numpy.zeros'] = np_zeros
    E['numpy.ones'] = lambda args, kw, st, node: np_zeros(args, kw, st, node, fill=1)
    E['numpy.empty'] = np_zeros

    def np_zeros_like(args, kw, st, node):
        a = as_arr(st, args[0])
        kind = dtype_kind(kw.get('dtype', args[1] if len(args) > 1 else None), a.kind)
        return st.alloc(SArr(a.shape, lambda *ix: zero_of(kind), kind))
    E['numpy.zeros_like'] = np_zeros_like

    def np_eye(args, kw, st, node):
        n = num(args[0])
        from . import linalg_rules as LA
        LA.axioms(st, ex)
        return st.alloc(LA.TokArr(LA.EYE(Z(n)), (n, n)))
    E['numpy.eye'] = np_eye

    def np_arange(args, kw, st, node):
        if len(args) != 1:
            raise Unsupported('arange with start/step')
        n = num(args[0])
        return st.alloc(SArr((M.nonneg_diff(n, 0),), lambda k: k, 'int'))
    E['numpy.arange'] = np_arange

    def np_array(args, kw, st, node):
        a = as_arr(st, args[0])
        kind = dtype_kind(kw.get('dtype'), a.kind)
        return st.alloc(SArr(a.shape, (lambda *ix: cast(a.get(*ix), kind)) if kind != a.kind else a.get, kind))
    E['numpy.array'] = np_array

    def np_view_or_copy(nd):
        def f(args, kw, st, node):
            pv = lazy_or(st, args[0])
            if isinstance(pv, SArr) and pv.ndim >= nd and isinstance(args[0], Ref):
                # ndarray of sufficient rank: returned as is (A-VIEWCOPY)
                return args[0]
            a = as_arr(st, args[0])
            while a.ndim < nd:
                a = (lambda a: SArr((1,) + tuple(a.shape), lambda i, *ix: a.get(*ix), a.kind))(a)
            return st.alloc(a)
        return f
    E['numpy.atleast_1d'] = np_view_or_copy(1)
    E['numpy.atleast_2d'] = np_view_or_copy(2)
    E['numpy.asarray'] = np_view_or_copy(0)

    def np_triu(args, kw, st, node):
        a = as_arr(st, args[0])
        k = num(kw.get('k', args[1] if len(args) > 1 else 0))
        return st.alloc(SArr(a.shape, lambda i, j: ITE(Z(j) - Z(i) >= Z(k), a.get(i, j), zero_of(a.kind) if a.kind != 'float' else z3.RealVal(0)), a.kind))
    E['numpy.triu'] = np_triu

    def np_transpose(args, kw, st, node):
        pv = lazy_or(st, args[0])
        if is_scalar(pv):
            return pv
        a = as_arr(st, args[0])
        return M.arr_attr(a, args[0], 'T', st)
    E['numpy.transpose'] = np_transpose

    def np_diag(args, kw, st, node):
        a = as_arr(st, args[0])
        if a.ndim == 1:
            from . import linalg_rules as LA
            tv = LA.matrix_token(M, a, st)
            return st.alloc(LA.TokArr(LA.derived(st, LA.DIAGV(tv)), (a.shape[0], a.shape[0])))
        return st.alloc(SArr((a.shape[0],), lambda i: a.get(i, i), a.kind))
    E['numpy.diag'] = np_diag

    def exact_sum_of(L, st):
        reg = st.ghost.get('exact_sums', ())
        for (c0, g0) in reg:
            if g0 is L.get:
                return c0
        c = z3.Real(fresh_name('exact_sum'))
        k = bvar('k')
        st.assume(IMPLIES(forall([k], IMPLIES(in_range(k, 0, L.n), AND(Z(num(L.get(k))) >= 0, Z(num(L.get(k))) <= 1))), AND(c >= 0, c <= to_real(Z(L.n)))))
        st.ghost['exact_sums'] = tuple(reg) + ((c, L.get),)
        return c
    M.exact_sum_of = exact_sum_of

    def np_sum(args, kw, st, node):
        pv0 = lazy_or(st, args[0])
        if isinstance(pv0, SList) and isinstance(pv0.elem, TReal) and 'axis' not in kw and len(args) == 1:
            # FP-EQ: the floating-point sum of a list of floats is the exact sum up to a relative error of 1e-12
            ex_ = exact_sum_of(pv0, st)
            th = z3.Real(fresh_name('theta'))
            st.assume(z3.And(th >= -z3.RealVal('1/1000000000000'), th <= z3.RealVal('1/1000000000000')))
            ex.use('FP-EQ:np.sum of a python list of floats = exact sum x (1 + theta), |theta| <= 1e-12 (all other float arithmetic is exact, A-REAL)')
            return ex_ * (1 + th)
        pv = lazy_or(st, args[0])
        a = as_arr(st, args[0])
        axis = kw.get('axis', args[1] if len(args) > 1 else None)
        r = arr_sum(M, a, axis, st, node)
        return st.alloc(r) if isinstance(r, SArr) else r
    E['numpy.sum'] = np_sum
    E['numpy.all'] = lambda args, kw, st, node: B['all']([args[0]], kw, st, node)
    E['numpy.any'] = lambda args, kw, st, node: B['any']([args[0]], kw, st, node)

    def np_abs(args, kw, st, node):
        pv = lazy_or(st, args[0])
        ab = lambda x: z3.If(Z(num(x)) >= 0, Z(num(x)), -Z(num(x))) if is_z3(num(x)) else abs(num(x))
        if isinstance(pv, SArr):
            return st.alloc(SArr(pv.shape, lambda *ix: ab(pv.get(*ix)), 'int' if pv.kind == 'bool' else pv.kind))
        return ab(pv)
    E['numpy.abs'] = np_abs
    E['numpy.absolute'] = np_abs

    def np_isclose(args, kw, st, node):
        a, b = lazy_or(st, args[0]), lazy_or(st, args[1])
        rtol = kw.get('rtol', args[2] if len(args) > 2 else 1e-05)
        atol = kw.get('atol', args[3] if len(args) > 3 else 1e-08)
        def close(x, y):
            d = to_real(Z(num(x))) - to_real(Z(num(y)))
            ay = z3.If(to_real(Z(num(y))) >= 0, to_real(Z(num(y))), -to_real(Z(num(y))))
            ad = z3.If(d >= 0, d, -d)
            return ad <= Z(atol) + Z(rtol) * ay
        if isinstance(a, SArr) or isinstance(b, SArr):
            shape, ga, gb = M.broadcast(a, b, st, node)
            return st.alloc(SArr(shape, lambda *ix: close(ga(*ix), gb(*ix)), 'bool'))
        return close(a, b)
    E['numpy.isclose'] = np_isclose

    def np_argsort(args, kw, st, node):
        a = as_arr(st, args[0])
        if a.ndim != 1:
            raise Unsupported('argsort of %d-d' % a.ndim)
        n = a.shape[0]
        f = z3.Function(fresh_name('argsort'), z3.IntSort(), z3.IntSort())
        inv = z3.Function(fresh_name('argsort_inv'), z3.IntSort(), z3.IntSort())
        k, k2 = bvar('k'), bvar('k')
        # a permutation of [0,n) that sorts a (stable ties unspecified)
        st.assume(forall([k], IMPLIES(in_range(k, 0, n), AND(in_range(f(k), 0, n), inv(f(k)) == k))))
        st.assume(forall([k], IMPLIES(in_range(k, 0, n), AND(in_range(inv(k), 0, n), f(inv(k)) == k))))
        st.assume(forall([k, k2], IMPLIES(AND(0 <= k, k < k2, k2 < Z(n)), Z(num(a.get(f(k)))) <= Z(num(a.get(f(k2)))))))
        ex.use('A-NUMPY:argsort returns a sorting permutation')
        return st.alloc(SArr((n,), lambda kk: f(Z(kk)), 'int'))
    E['numpy.argsort'] = np_argsort

    # ---------------------------------------------------------------- stdlib
    def it_combinations(args, kw, st, node):
        S = lazy_or(st, args[0])
        if isinstance(S, SList):
            S = set_of_list(S)   # (distinct list assumed by callers of pa()/sets)
        if not isinstance(S, SSet):
            raise Unsupported('combinations over %r' % (type(S),))
        return ('combinations', S, args[1])
    E['itertools.combinations'] = it_combinations

    def ft_reduce(args, kw, st, node):
        fn, it = args[0], lazy_or(st, args[1])
        init = args[2] if len(args) > 2 else None
        # supported shape: reduce(lambda acc, k: acc | f(k), S, set())  == union over S
        pf = st.deref(fn) if isinstance(fn, Ref) else fn
        if not (isinstance(pf, SFun) and pf.kind == 'lambda' and len(pf.args) == 2 and init is not None):
            raise Unsupported('reduce of this shape')
        import ast as _ast
        b = pf.body
        if not (isinstance(b, _ast.BinOp) and isinstance(b.op, _ast.BitOr) and isinstance(b.left, _ast.Name) and b.left.id == pf.args[0]):
            raise Unsupported('reduce lambda is not acc | f(k)')
        init_s = st.deref(init)
        if not isinstance(init_s, SSet) or not isinstance(it, SSet):
            raise Unsupported('reduce over non-sets')
        kv = bvar('rk')
        loc = st.fork()
        loc.env = dict(pf.env); loc.env[pf.args[1]] = kv
        loc.assume(it.member(kv))
        save = ex.modname_override
        ex.modname_override = pf.modname
        try:
            fk = st_deref_any(loc, ex.ev(b.right, loc))
        finally:
            ex.modname_override = save
        st.side += loc.side
        st.heap, st.ver = loc.heap, loc.ver
        if not isinstance(fk, SSet):
            raise Unsupported('reduce body does not produce a set')
        return st.alloc(SSet(lambda x: OR(init_s.member(x), exists([kv], AND(it.member(kv), fk.member(x)))), fk.elem))
    E['functools.reduce'] = ft_reduce

    def st_deref_any(st, v):
        return st.deref(v)

    def own_copy(f):
        """deepcopy of a callable: the same function (calls agree), marked as the holder's own copy (provenance used by own_copies)"""
        if isinstance(f, SFun) and not getattr(f, 'copied', False):
            d = {k2: v2 for k2, v2 in vars(f).items() if k2 != 'kind'}
            d['copied'] = True
            return SFun(f.kind, **d)
        return f

    def deepcopy(args, kw, st, node):
        v = args[0]
        pv = st.deref(v)
        if isinstance(pv, SFun):
            return own_copy(pv)
        if isinstance(pv, SList) and isinstance(pv.elem, TOpaque) and getattr(pv.elem, 'tag', '') == 'callable':
            return st.alloc(SList(pv.n, lambda k: own_copy(pv.get(k)), pv.elem))
        if isinstance(pv, CONTAINERS):
            return st.alloc(pv)
        return pv
    E['copy.deepcopy'] = deepcopy

    def shallow_copy(args, kw, st, node):
        pv = st.deref(args[0])
        if isinstance(pv, (SList, SDict)) and not (pv.elem if isinstance(pv, SList) else pv.vtype) in (None,) and \
                isinstance((pv.elem if isinstance(pv, SList) else pv.vtype), (TArr, TList, TDict, TSet)):
            raise Unsupported('copy.copy of a container of containers (elements stay shared)')
        return deepcopy(args, kw, st, node) if not isinstance(pv, SFun) else pv
    E['copy.copy'] = shallow_copy

    def b_own_copies(args, kw, st, node):
        """own_copies(L, original): every callable stored in L is the holder's own (deep) copy, or a module-level function that has no
        state to share.  Provenance of the symbolic value, decided syntactically."""
        L = st.deref(args[0])
        if not isinstance(L, SList):
            raise Unsupported('own_copies of %r' % (type(L),))
        items = L.concrete_items()
        elems = items if items is not None else [L.get(bvar('k'))]
        for f in elems:
            f = st.deref(f) if isinstance(f, Ref) else f
            if isinstance(f, SFun) and (getattr(f, 'copied', False) or f.kind in ('repo', 'py', 'lambda')):
                continue
            if tag(f) in ('repo', 'builtin', 'ext'):       # a module-level function
                continue
            return False
        return True
    B['own_copies'] = b_own_copies

    # ---------------------------------------------------------------- array attributes & methods
    def arr_attr(a, base, attr, st):
        if attr == 'T':
            if a.ndim < 2:
                return base
            if a.ndim == 2:
                from . import linalg_rules as LA
                if isinstance(a, LA.TokArr):
                    res = LA.TokArr(LA.derived(st, LA.TR(a.tok)), (a.shape[1], a.shape[0]))
                else:
                    res = SArr((a.shape[1], a.shape[0]), lambda i, j: a.get(j, i), a.kind)
                if isinstance(base, Ref):
                    root = base.root if base.origin == 'alias' and base.root is not None else base.oid
                    note = 'view of ' + (base.note or ex.frame_roots.get(base.oid, 'object'))
                    if base.oid in ex.frame_roots or (base.origin == 'alias' and base.root in ex.frame_roots):
                        note = 'param-view ' + ex.frame_roots.get(base.oid, ex.frame_roots.get(base.root, ''))
                    return st.alloc(res, 'alias', root=root, rootver=st.ver.get(root, 0), note=note)
                return st.alloc(res)
            raise Unsupported('.T of %d-d' % a.ndim)
        if attr == 'shape':
            return tuple(a.shape)
        if attr == 'ndim':
            return a.ndim
        if attr == 'size':
            r = 1
            for s in a.shape:
                r = r * s if not (is_z3(r) or is_z3(s)) else Z(r) * Z(s)
            return r
        if attr == 'dtype':
            return ('dtype', a.kind)
        return ('method', base, attr)
    M.arr_attr = arr_attr

    def m_copy(base, a, args, kw, st, node):
        return st.alloc(SArr(a.shape, a.get, a.kind))
    ME[('SArr', 'copy')] = m_copy
    ME[('MaskSel', 'copy')] = m_copy

    def m_astype(base, a, args, kw, st, node):
        kind = dtype_kind(args[0], a.kind)
        return st.alloc(SArr(a.shape, lambda *ix: cast(a.get(*ix), kind), kind))
    ME[('SArr', 'astype')] = m_astype

    def m_sum(base, a, args, kw, st, node):
        axis = kw.get('axis', args[0] if args else None)
        r = arr_sum(M, a, axis, st, node)
        return st.alloc(r) if isinstance(r, SArr) else r
    ME[('SArr', 'sum')] = m_sum
    ME[('SArr', 'all')] = lambda base, a, args, kw, st, node: arr_all(M, a, st)
    ME[('SArr', 'any')] = lambda base, a, args, kw, st, node: arr_all(M, a, st, any_=True)
    ME[('MaskSel', 'all')] = lambda base, a, args, kw, st, node: arr_all(M, a, st)
    ME[('MaskSel', 'any')] = lambda base, a, args, kw, st, node: arr_all(M, a, st, any_=True)

    # lists
    def m_append(base, L, args, kw, st, node):
        x = ex.snapshot(args[0], st)
        el = L.elem or type_of(x)
        items = L.concrete_items()
        if items is not None:
            nv = SList.of(items + [x], el)
        else:
            from .npmodel2 import _val_ite
            nv = SList(Z(L.n) + 1, lambda k: _val_ite(EQ(k, L.n), x, L.get(k)), el)
        ex.write_ref(base, nv, st, node)
        return None
    ME[('SList', 'append')] = m_append

    def m_pop(base, L, args, kw, st, node):
        if args:
            raise Unsupported('pop(index)')
        ex.oblige(st, 'pop-nonempty', (L.n > 0) if isinstance(L.n, int) else Z(L.n) > 0, node)
        items = L.concrete_items()
        if items is not None:
            if not items:
                raise_py('IndexError')
            ex.write_ref(base, SList.of(items[:-1], L.elem), st, node)
            return items[-1]
        val = L.get(Z(L.n) - 1)
        ex.write_ref(base, SList(Z(L.n) - 1, L.get, L.elem), st, node)
        return val
    ME[('SList', 'pop')] = m_pop

    def m_remove(base, L, args, kw, st, node):
        """list.remove(x): the first occurrence disappears, later elements move down by one (ValueError when absent: obligation)"""
        x = args[0]
        ex.oblige(st, 'remove-present', list_contains(L, x), node, text='list.remove(x): x occurs in the list')
        pos = z3.Int(fresh_name('rmpos'))
        k = bvar('k')
        st.assume(AND(in_range(pos, 0, L.n), EQ(L.get(pos), x), forall([k], IMPLIES(AND(0 <= k, k < pos), NOT(EQ(L.get(k), x))))))
        from .npmodel2 import _val_ite
        nv = SList(Z(L.n) - 1, lambda j: _val_ite(Z(j) < pos, L.get(j), L.get(Z(j) + 1)), L.elem)
        # every other element survives, at index k (k < pos) or k - 1 (k > pos): an instance of the definition above, stated with a
        # named index function so that the solver has the witness term for membership in the new list
        newidx = z3.Function(fresh_name('rmidx'), z3.IntSort(), z3.IntSort())
        st.assume(forall([k], newidx(k) == z3.If(k < pos, k, k - 1)))
        if not isinstance(L.elem, (TTuple, TList, TArr)) and L.elem is not None:
            st.assume(forall([k], IMPLIES(AND(in_range(k, 0, L.n), NOT(k == pos)),
                                          AND(in_range(newidx(k), 0, Z(L.n) - 1), EQ(nv.get(newidx(k)), L.get(k))))))
        ex.write_ref(base, nv, st, node)
        return None
    ME[('SList', 'remove')] = m_remove

    # sets
    def m_add(base, S, args, kw, st, node):
        x = args[0]
        ex.write_ref(base, SSet(lambda y: OR(S.member(y), EQ(y, x)), S.elem if S.elem is not None else type_of(x)), st, node)
        return None
    ME[('SSet', 'add')] = m_add

    # dicts
    def m_items(base, D, args, kw, st, node):
        return ('items', D)
    ME[('SDict', 'items')] = m_items
    ME[('SDict', 'keys')] = lambda base, D, args, kw, st, node: st.alloc(SSet(D.dom.member, D.dom.elem))

    def m_values(base, D, args, kw, st, node):
        kr = getattr(D, 'keys_range', None)
        if kr is not None:       # dict built from a range comprehension: insertion order = increasing key
            lo, hi = kr
            return ('dictvalues', D, lo, hi)
        keys = st.deref(M.list_of_set(D.dom, st, sort=False))
        # insertion order is not modelled: only valid when the caller treats the result as a bag
        raise Unsupported('dict.values() order')
    ME[('SDict', 'values')] = m_values
