"""Linear algebra over matrix *tokens* (assumption A-LINALG, DESIGN.md §2.9).

A matrix value that takes part in ``@``, ``inv``, ``solve`` gets a constant of the
uninterpreted sort Matrix; ``elt(t,i,j)`` reads its entries.  Products, inverses
and transposes are uninterpreted functions on tokens constrained by the ring /
inverse / transpose laws, stated as quantified axioms over tokens.  Entry-wise
equal matrices have equal tokens (extensionality, asserted pairwise for the
tokens of a path).
"""
import z3
from .values import *   # noqa: F401,F403

TOK = z3.DeclareSort('Matrix')
ELT = z3.Function('elt', TOK, z3.IntSort(), z3.IntSort(), z3.RealSort())
ROWS = z3.Function('rows', TOK, z3.IntSort())
COLS = z3.Function('cols', TOK, z3.IntSort())
MM = z3.Function('mm', TOK, TOK, TOK)
INV = z3.Function('inv', TOK, TOK)
TR = z3.Function('tr', TOK, TOK)
EYE = z3.Function('eye', z3.IntSort(), TOK)
DIAGV = z3.Function('diagv', TOK, TOK)
ADD = z3.Function('madd', TOK, TOK, TOK)
SUB = z3.Function('msub', TOK, TOK, TOK)
NONSING = z3.Function('nonsingular', TOK, z3.BoolSort())


class TokArr(SArr):
    """array whose entries are read through a token"""
    def __init__(self, tok, shape, kind='float', vec=None):
        self.tok, self.vec = tok, vec
        if len(shape) == 2:
            get = lambda i, j: ELT(tok, Z(i), Z(j))
        elif len(shape) == 1:
            get = (lambda i: ELT(tok, Z(i), z3.IntVal(0))) if vec != 'row' else (lambda i: ELT(tok, z3.IntVal(0), Z(i)))
        else:
            get = lambda: ELT(tok, z3.IntVal(0), z3.IntVal(0))
        SArr.__init__(self, shape, get, kind)


def axioms(st, ex):
    if st.ghost.get('linalg_axioms'):
        return
    st.ghost['linalg_axioms'] = True
    a, b, c = z3.Consts('la_a la_b la_c', TOK)
    i, j, n = z3.Ints('la_i la_j la_n')
    def FA(vs, body, pats):
        return z3.ForAll(vs, body, patterns=pats)
    ax = [
        FA([a, b, c], MM(MM(a, b), c) == MM(a, MM(b, c)), [MM(MM(a, b), c), MM(a, MM(b, c))]),
        FA([a, b], z3.And(ROWS(MM(a, b)) == ROWS(a), COLS(MM(a, b)) == COLS(b)), [MM(a, b)]),
        FA([a, n], z3.Implies(n == COLS(a), MM(a, EYE(n)) == a), [MM(a, EYE(n))]),
        FA([a, n], z3.Implies(n == ROWS(a), MM(EYE(n), a) == a), [MM(EYE(n), a)]),
        FA([n], z3.And(ROWS(EYE(n)) == n, COLS(EYE(n)) == n, TR(EYE(n)) == EYE(n)), [EYE(n)]),
        FA([n, i, j], ELT(EYE(n), i, j) == z3.If(i == j, z3.RealVal(1), z3.RealVal(0)), [ELT(EYE(n), i, j)]),
        FA([a], z3.Implies(NONSING(a), z3.And(MM(a, INV(a)) == EYE(ROWS(a)), MM(INV(a), a) == EYE(ROWS(a)),
                                              ROWS(INV(a)) == ROWS(a), COLS(INV(a)) == ROWS(a), COLS(a) == ROWS(a))), [INV(a)]),
        FA([a, b], TR(MM(a, b)) == MM(TR(b), TR(a)), [TR(MM(a, b))]),
        FA([a], z3.And(ROWS(TR(a)) == COLS(a), COLS(TR(a)) == ROWS(a)), [TR(a)]),
        FA([a], TR(TR(a)) == a, [TR(TR(a))]),
        FA([a, i, j], ELT(TR(a), i, j) == ELT(a, j, i), [ELT(TR(a), i, j)]),
        FA([a], z3.And(TR(DIAGV(a)) == DIAGV(a), ROWS(DIAGV(a)) == ROWS(a), COLS(DIAGV(a)) == ROWS(a)), [DIAGV(a)]),
        FA([a, i, j], ELT(DIAGV(a), i, j) == z3.If(i == j, ELT(a, i, 0), z3.RealVal(0)), [ELT(DIAGV(a), i, j)]),
        FA([a, b, c], MM(a, ADD(b, c)) == ADD(MM(a, b), MM(a, c)), [MM(a, ADD(b, c))]),
        FA([a, b, c], MM(ADD(a, b), c) == ADD(MM(a, c), MM(b, c)), [MM(ADD(a, b), c)]),
        FA([a, b, c], MM(a, SUB(b, c)) == SUB(MM(a, b), MM(a, c)), [MM(a, SUB(b, c))]),
        FA([a, b, c], MM(SUB(a, b), c) == SUB(MM(a, c), MM(b, c)), [MM(SUB(a, b), c)]),
        FA([a, b, i, j], ELT(ADD(a, b), i, j) == ELT(a, i, j) + ELT(b, i, j), [ELT(ADD(a, b), i, j)]),
        FA([a, b, i, j], ELT(SUB(a, b), i, j) == ELT(a, i, j) - ELT(b, i, j), [ELT(SUB(a, b), i, j)]),
        FA([a, b], z3.And(ROWS(ADD(a, b)) == ROWS(a), COLS(ADD(a, b)) == COLS(a)), [ADD(a, b)]),
        FA([a, b], z3.And(ROWS(SUB(a, b)) == ROWS(a), COLS(SUB(a, b)) == COLS(a)), [SUB(a, b)]),
    ]
    for f in ax:
        st.assume(f)
    ex.use('A-LINALG:associativity, identity, inverse of a non-singular matrix, transpose and distributive laws over real matrices')


def matrix_token(M, a, st, as_row=False):
    """token of an array value (vectors are columns unless as_row)"""
    ex = M.ex
    axioms(st, ex)
    if isinstance(a, TokArr):
        if a.ndim == 1 and ((a.vec == 'row') != as_row):
            return TR(a.tok)
        return a.tok
    reg = st.ghost.get('mtokens', ())
    for (t, a2, row2) in reg:
        if a2.get is a.get and a2.shape == a.shape and row2 == as_row:
            return t
    if a.ndim == 1:
        for (t, a2, row2) in reg:
            if a2.get is a.get and a2.shape == a.shape and row2 != as_row:
                return TR(t)
    if a.kind not in ('float', 'int', 'bool'):
        raise Unsupported('matrix of kind ' + a.kind)
    t = z3.Const(fresh_name('M'), TOK)
    i, j = bvar('i'), bvar('j')
    if a.ndim == 2:
        r, c = a.shape
        rd = lambda ii, jj: to_real(Z(num(a.get(ii, jj))))
    elif a.ndim == 1:
        r, c = (a.shape[0], 1) if not as_row else (1, a.shape[0])
        rd = (lambda ii, jj: to_real(Z(num(a.get(ii))))) if not as_row else (lambda ii, jj: to_real(Z(num(a.get(jj)))))
    elif a.ndim == 0:
        r, c = 1, 1
        rd = lambda ii, jj: to_real(Z(num(a.get())))
    else:
        raise Unsupported('token of %d-d array' % a.ndim)
    st.assume(AND(ROWS(t) == Z(r), COLS(t) == Z(c)))
    st.assume(forall([i, j], IMPLIES(AND(in_range(i, 0, r), in_range(j, 0, c)), ELT(t, i, j) == rd(i, j))))
    # extensionality against the tokens already on this path
    for (t2, a2, row2) in reg:
        st.assume(IMPLIES(AND(ROWS(t) == ROWS(t2), COLS(t) == COLS(t2),
                              forall([i, j], IMPLIES(AND(in_range(i, 0, r), in_range(j, 0, c)), ELT(t, i, j) == ELT(t2, i, j)))), t == t2))
    for t2 in st.ghost.get('derived_tokens', ()):
        st.assume(IMPLIES(AND(ROWS(t) == ROWS(t2), COLS(t) == COLS(t2),
                              forall([i, j], IMPLIES(AND(in_range(i, 0, r), in_range(j, 0, c)), ELT(t, i, j) == ELT(t2, i, j)))), t == t2))
    st.ghost['mtokens'] = tuple(reg) + ((t, a, as_row),)
    return t


def derived(st, t):
    st.ghost['derived_tokens'] = tuple(st.ghost.get('derived_tokens', ())) + (t,)
    return t


def matmul(M, a, b, st, node):
    ex = M.ex
    a = M.as_arr(st, a) if not isinstance(a, SArr) else a
    b = M.as_arr(st, b) if not isinstance(b, SArr) else b
    if a.ndim == 0 or b.ndim == 0:
        raise Unsupported('matmul with a scalar')
    inner_a = a.shape[-1]
    inner_b = b.shape[0]
    same = EQ(inner_a, inner_b)
    ex.oblige(st, 'shape', same, node, text='matmul inner dimensions agree')
    st.assume(same)
    ta = matrix_token(M, a, st, as_row=(a.ndim == 1))
    tb = matrix_token(M, b, st, as_row=False)
    t = derived(st, MM(ta, tb))
    if a.ndim == 2 and b.ndim == 2:
        return TokArr(t, (a.shape[0], b.shape[1]))
    if a.ndim == 2 and b.ndim == 1:
        return TokArr(t, (a.shape[0],), vec='col')
    if a.ndim == 1 and b.ndim == 2:
        return TokArr(t, (b.shape[1],), vec='row')
    return ELT(t, z3.IntVal(0), z3.IntVal(0))


def register(M):
    ex = M.ex
    E = M.ext
    M.matrix_token = lambda a, st, as_row=False: matrix_token(M, a, st, as_row)

    def np_inv(args, kw, st, node):
        a = M.as_arr(st, args[0])
        if a.ndim != 2:
            raise Unsupported('inv of non-matrix')
        sq = EQ(a.shape[0], a.shape[1])
        ex.oblige(st, 'shape', sq, node, text='inv of a square matrix')
        st.assume(sq)
        ta = matrix_token(M, a, st)
        run_before_hooks(ex, 'inv', st)
        ex.oblige(st, 'call-pre:linalg.inv', NONSING(ta), node, text='np.linalg.inv: matrix is non-singular (LinAlgError otherwise)')
        st.assume(NONSING(ta))
        return st.alloc(TokArr(derived(st, INV(ta)), a.shape))
    E['numpy.linalg.inv'] = np_inv

    def np_solve(args, kw, st, node):
        a, b = M.as_arr(st, args[0]), M.as_arr(st, args[1])
        sq = AND(EQ(a.shape[0], a.shape[1]), EQ(a.shape[0], b.shape[0]))
        ex.oblige(st, 'shape', sq, node, text='solve: square system with matching right-hand side')
        st.assume(sq)
        ta, tb = matrix_token(M, a, st), matrix_token(M, b, st)
        run_before_hooks(ex, 'solve', st)
        ex.oblige(st, 'call-pre:linalg.solve', NONSING(ta), node, text='np.linalg.solve: matrix is non-singular (LinAlgError otherwise)')
        st.assume(NONSING(ta))
        t = derived(st, MM(INV(ta), tb))
        return st.alloc(TokArr(t, b.shape, vec='col' if b.ndim == 1 else None))
    E['numpy.linalg.solve'] = np_solve

    def run_before_hooks(ex, name, st):
        for h in getattr(ex, 'before_hooks', {}).get(name, []):
            h(st)

    # spec-side vocabulary
    B = M.builtins

    def b_matmul(args, kw, st, node):
        r = matmul(M, st.deref(args[0]), st.deref(args[1]), st, node)
        return st.alloc(r) if isinstance(r, SArr) else r
    B['matmul'] = b_matmul

    def b_transpose(args, kw, st, node):
        a = M.as_arr(st, args[0])
        if a.ndim != 2:
            return args[0]
        return st.alloc(TokArr(derived(st, TR(matrix_token(M, a, st))), (a.shape[1], a.shape[0])))

    def b_identity(args, kw, st, node):
        n = num(args[0])
        axioms(st, ex)
        return st.alloc(TokArr(EYE(Z(n)), (n, n)))
    B['identity'] = b_identity

    def b_diag_of(args, kw, st, node):
        a = M.as_arr(st, args[0])
        return st.alloc(TokArr(derived(st, DIAGV(matrix_token(M, a, st))), (a.shape[0], a.shape[0])))
    B['diag_of'] = b_diag_of

    def b_unitri_nonsingular(args, kw, st, node):
        """L-UNITRI (cited): for the weight matrix W of a DAG, I - W^T is non-singular (unit triangular up to a permutation)"""
        W = M.as_arr(st, args[0])
        n = W.shape[0]
        Mm = SArr((n, n), lambda i, j: to_real(z3.If(Z(i) == Z(j), z3.RealVal(1), z3.RealVal(0))) - to_real(Z(num(W.get(j, i)))), 'float')
        acy = M.builtins['acyclic']([args[0]], {}, st, node)
        ex.use('L-UNITRI:I - W^T is non-singular for the weight matrix W of a DAG (cited, not mechanised)')
        return IMPLIES(acy, NONSING(matrix_token(M, Mm, st)))
    B['unitri_nonsingular'] = b_unitri_nonsingular
    B['transpose'] = b_transpose

    def b_nonsingular(args, kw, st, node):
        a = M.as_arr(st, args[0])
        return NONSING(matrix_token(M, a, st))
    B['nonsingular'] = b_nonsingular

    def b_inverse(args, kw, st, node):
        a = M.as_arr(st, args[0])
        return st.alloc(TokArr(derived(st, INV(matrix_token(M, a, st))), a.shape))
    B['inverse'] = b_inverse

    def fun_token(name, args, st):
        sorts, zargs = [], []
        for x in args:
            px = st.deref(x)
            if isinstance(px, SArr):
                zargs.append(matrix_token(M, px, st)); sorts.append(TOK)
            elif is_scalar(px):
                zargs.append(to_real(Z(num(px)))); sorts.append(z3.RealSort())
            else:
                raise Unsupported('functional argument %r' % (type(px),))
        f = z3.Function('F_' + name, *(sorts + [TOK]))
        return f(*zargs)
    M.fun_token = fun_token

    def b_ls_coefs(args, kw, st, node):
        C = M.as_arr(st, args[0])
        return st.alloc(TokArr(fun_token('ls_coefs', args, st), (C.shape[0],), vec='col'))
    B['ls_coefs'] = b_ls_coefs

    def b_same_matrix(args, kw, st, node):
        """token equality (implies entry-wise equality)"""
        a, b = M.as_arr(st, args[0]), M.as_arr(st, args[1])
        ta = matrix_token(M, a, st, as_row=(isinstance(a, TokArr) and a.vec == 'row'))
        tb = matrix_token(M, b, st, as_row=(isinstance(a, TokArr) and a.vec == 'row'))
        return ta == tb
    B['same_matrix'] = b_same_matrix
