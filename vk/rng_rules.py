"""RNG model (assumption A-RNG, DESIGN.md Appendix B).

Every draw is an uninterpreted function of (generator state, arguments, position)
and advances the state; ``default_rng(s)`` starts from ``seed_state(s)`` (int s),
from a fresh entropy symbol (None) or is the identity (Generator).  numpy's
global generator is one more state, ``G``, initially the symbol ``G0``;
``np.random.seed(s)`` sets it to ``gseed(s)``.
"""
import z3
from .values import *   # noqa: F401,F403
from .npmodel import cast, raise_py

ST = z3.DeclareSort('RngState')
SHUF = z3.Function('shuffle_perm', z3.IntSort(), z3.IntSort(), z3.IntSort())
SHUFINV = z3.Function('shuffle_perm_inv', z3.IntSort(), z3.IntSort(), z3.IntSort())
SHUFST = None      # shuffle_state(k): generator state consumed by the k-th logged shuffle (declared once ST exists)
SEED_STATE = z3.Function('seed_state', z3.IntSort(), ST)
GSEED = z3.Function('gseed', z3.IntSort(), ST)
G0 = z3.Const('G0', ST)
_fun_cache = {}


def F(name, *sorts):
    key = (name,) + tuple(str(s) for s in sorts)
    if key not in _fun_cache:
        _fun_cache[key] = z3.Function(name, *sorts)
    return _fun_cache[key]


def R(x):
    return to_real(Z(num(x)))


def global_state(st):
    return st.ghost.get('G', G0)


def set_global(st, s):
    st.ghost['G'] = s
    st.ghost['G_written'] = True


def havoc_global(M, name, st):
    set_global(st, z3.Const(fresh_name('Ghavoc'), ST))


def register(M):
    ex = M.ex
    E, ME = M.ext, M.methods
    uniform_facts = None

    def shape_of(st, size):
        if size is None:
            return ()
        pv = st.deref(size)
        if is_scalar(pv):
            return (num(pv),)
        if isinstance(pv, tuple):
            return tuple(num(x) for x in pv)
        raise Unsupported('size argument')

    def draw_array(st, state, method, args, shape, kind, facts):
        """fresh array of draws: value = draw_<method>(state, args..., i, j) ; returns (array, next state)"""
        zargs = [R(a) for a in args]
        nd = len(shape)
        srt = z3.RealSort() if kind == 'float' else z3.IntSort()
        f = F('draw_' + method + str(nd), ST, *([z3.RealSort()] * len(zargs) + [z3.IntSort()] * nd + [srt]))
        adv = F('adv_' + method, ST, *([z3.RealSort()] * (len(zargs) + nd) + [ST]))
        get = lambda *ix: f(state, *(zargs + [Z(i) for i in ix]))
        nxt = adv(state, *(zargs + [R(s) for s in shape]))
        vs = [bvar('r') for _ in shape]
        box = AND(*[in_range(v, 0, d) for v, d in zip(vs, shape)])
        for fact in facts(lambda *ix: get(*ix)):
            st.assume(forall(vs, IMPLIES(box, fact(*vs))) if vs else fact())
        ex.use('A-RNG:every draw is a function of (generator state, arguments, position) and advances the state; value ranges as documented')
        if nd == 0:
            return get(), nxt
        return SArr(tuple(shape), get, kind), nxt

    # ---- Generator objects
    def default_rng(args, kw, st, node):
        s = args[0] if args else kw.get('seed')
        ps = st.deref(s) if isinstance(s, Ref) else s
        if isinstance(ps, SGen):
            return s
        if ps is None:
            ent = z3.Const(fresh_name('entropy'), ST)
            st.ghost['entropy'] = tuple(st.ghost.get('entropy', ())) + (ent,)
            return st.alloc(SGen(ent))
        if is_int(ps):
            return st.alloc(SGen(SEED_STATE(Z(ps))))
        raise Unsupported('default_rng(%r)' % (type(ps),))
    E['numpy.random.default_rng'] = default_rng

    def gen_draw(method, kind, facts_of):
        def m(base, g, args, kw, st, node):
            a, shape = facts_of['args'](args, kw, st)
            arr, nxt = draw_array(st, g.state, method, a, shape, kind, lambda get: facts_of['facts'](get, a, st))
            ex.write_ref(base, SGen(nxt), st, node)
            return st.alloc(arr) if isinstance(arr, SArr) else arr
        return m

    def uniform_args(args, kw, st):
        lo = args[0] if len(args) > 0 else kw.get('low', 0.0)
        hi = args[1] if len(args) > 1 else kw.get('high', 1.0)
        size = args[2] if len(args) > 2 else kw.get('size')
        return [lo, hi], shape_of(st, size)

    def uniform_facts(get, a, st):   # noqa: F811
        lo, hi = R(a[0]), R(a[1])
        return [lambda *ix: z3.If(lo < hi, z3.And(lo <= get(*ix), get(*ix) < hi), z3.If(lo == hi, get(*ix) == lo, z3.And(hi < get(*ix), get(*ix) <= lo)))]
    ME[('SGen', 'uniform')] = gen_draw('uniform', 'float', {'args': uniform_args, 'facts': uniform_facts})

    def integers_args(args, kw, st):
        lo = args[0]
        hi = args[1] if len(args) > 1 else kw.get('high')
        size = args[2] if len(args) > 2 else kw.get('size')
        if hi is None:
            lo, hi = 0, lo
        return [lo, hi], shape_of(st, size)

    def m_integers(base, g, args, kw, st, node):
        a, shape = integers_args(args, kw, st)
        ok = Z(num(a[0])) < Z(num(a[1]))
        s2 = st.fork(); s2.assume(NOT(ok)); s2.side = []
        st.side.append((s2, 'ValueError'))
        st.assume(ok)
        arr, nxt = draw_array(st, g.state, 'integers', a, shape, 'int',
                              lambda get: [lambda *ix: z3.And(Z(num(a[0])) <= get(*ix), get(*ix) < Z(num(a[1])))])
        ex.write_ref(base, SGen(nxt), st, node)
        return st.alloc(arr) if isinstance(arr, SArr) else arr
    ME[('SGen', 'integers')] = m_integers

    def m_permutation(base, g, args, kw, st, node):
        n = num(st.deref(args[0]))
        if not is_scalar(n):
            raise Unsupported('permutation of an array')
        f = F('draw_permutation', ST, z3.IntSort(), z3.IntSort(), z3.IntSort())
        inv = F('inv_permutation', ST, z3.IntSort(), z3.IntSort(), z3.IntSort())
        k = bvar('k')
        s0 = g.state
        st.assume(forall([k], IMPLIES(in_range(k, 0, n), AND(in_range(f(s0, Z(n), k), 0, n), inv(s0, Z(n), f(s0, Z(n), k)) == k))))
        st.assume(forall([k], IMPLIES(in_range(k, 0, n), AND(in_range(inv(s0, Z(n), k), 0, n), f(s0, Z(n), inv(s0, Z(n), k)) == k))))
        ex.use('A-RNG:permutation(n) is a bijection of [0,n) determined by the generator state')
        ex.write_ref(base, SGen(F('adv_permutation', ST, z3.IntSort(), ST)(s0, Z(n))), st, node)
        return st.alloc(SArr((n,), lambda kk: f(s0, Z(n), Z(kk)), 'int'))
    ME[('SGen', 'permutation')] = m_permutation

    def perm_of(st, state, n, tagname):
        f = F('draw_' + tagname, ST, z3.IntSort(), z3.IntSort(), z3.IntSort())
        inv = F('inv_' + tagname, ST, z3.IntSort(), z3.IntSort(), z3.IntSort())
        k = bvar('k')
        st.assume(forall([k], IMPLIES(in_range(k, 0, n), AND(in_range(f(state, Z(n), k), 0, n), inv(state, Z(n), f(state, Z(n), k)) == k))))
        st.assume(forall([k], IMPLIES(in_range(k, 0, n), AND(in_range(inv(state, Z(n), k), 0, n), f(state, Z(n), inv(state, Z(n), k)) == k))))
        return (lambda kk: f(state, Z(n), Z(kk))), (lambda kk: inv(state, Z(n), Z(kk)))

    def m_shuffle(base, g, args, kw, st, node):
        x = args[0]
        px = st.deref(x)
        s0 = g.state
        if isinstance(px, SArr):
            n = px.shape[0]
            f, inv = perm_of(st, s0, n, 'shuffle')
            new = SArr(px.shape, lambda i, *rest: px.get(f(i), *rest), px.kind)
        elif isinstance(px, SList):
            n = px.n
            f, inv = perm_of(st, s0, n, 'shuffle')
            new = SList(n, lambda i: px.get(f(i)), px.elem)
        else:
            raise Unsupported('shuffle of %r' % (type(px),))
        st.ghost['last_shuffle'] = (f, inv, n)
        kq = st.env.get('_k')
        if kq is not None and is_scalar(kq):
            # ghost log: the permutation used in the k-th iteration of the enclosing loop
            r = bvar('r')
            st.assume(forall([r], IMPLIES(in_range(r, 0, n), AND(SHUF(Z(kq), r) == f(r), in_range(SHUF(Z(kq), r), 0, n), SHUFINV(Z(kq), SHUF(Z(kq), r)) == r))))
            st.assume(F('shuffle_state', z3.IntSort(), ST)(Z(kq)) == s0)       # which generator state that shuffle consumed
        ex.use('A-RNG:shuffle permutes the rows in place by a bijection determined by the generator state')
        ex.write_ref(x, new, st, node, 'rng.shuffle')
        ex.write_ref(base, SGen(F('adv_shuffle', ST, z3.IntSort(), ST)(s0, Z(n))), st, node)
        return None
    ME[('SGen', 'shuffle')] = m_shuffle

    def m_choice(base, g, args, kw, st, node):
        a = args[0]
        size = args[1] if len(args) > 1 else kw.get('size')
        replace = args[2] if len(args) > 2 else kw.get('replace', True)
        if 'p' in kw:
            raise Unsupported('choice with probabilities')
        pa_ = st.deref(a)
        if tag(pa_) == 'range' or tag(pa_) in ('zip', 'whereidx', 'filter'):
            pa_ = st.deref(M.materialise(pa_, st))
        if is_scalar(pa_):
            m = num(pa_)
            src = lambda k: k
            rows = None
        elif isinstance(pa_, SList):
            m, src, rows = pa_.n, pa_.get, pa_.elem
        elif isinstance(pa_, SArr):
            m = pa_.shape[0]
            src = pa_.get if pa_.ndim == 1 else None
            rows = pa_
        else:
            raise Unsupported('choice from %r' % (type(pa_),))
        if size is None:
            raise Unsupported('choice without size')
        s = num(st.deref(size))
        if not is_scalar(s):
            raise Unsupported('choice with shape size')
        s0 = g.state
        idx = F('draw_choice_%s' % ('r' if replace is True else 'n'), ST, z3.IntSort(), z3.IntSort(), z3.IntSort(), z3.IntSort())
        pos = lambda k: idx(s0, Z(m), Z(s), Z(k))
        k, k2 = bvar('k'), bvar('k')
        if replace is True:
            bad = OR(Z(s) < 0, AND(Z(m) <= 0, Z(s) > 0))
        elif replace is False:
            bad = OR(Z(s) < 0, Z(s) > Z(m))
        else:
            raise Unsupported('symbolic replace flag')
        s2 = st.fork(); s2.assume(bad); s2.side = []
        st.side.append((s2, 'ValueError'))
        st.assume(NOT(bad))
        st.assume(forall([k], IMPLIES(in_range(k, 0, s), in_range(pos(k), 0, m))))
        if replace is False:
            st.assume(forall([k, k2], IMPLIES(AND(0 <= k, k < k2, k2 < Z(s)), pos(k) != pos(k2))))
        ex.use('A-RNG:choice(a, size, replace) picks size positions of a (pairwise distinct without replacement), ValueError if impossible')
        ex.write_ref(base, SGen(F('adv_choice', ST, z3.IntSort(), z3.IntSort(), ST)(s0, Z(m), Z(s))), st, node)
        st.ghost['last_choice'] = (pos, s, m)
        if isinstance(rows, SArr) and rows.ndim == 2:
            return st.alloc(SArr((s, rows.shape[1]), lambda i, j: rows.get(pos(i), j), rows.kind))
        if isinstance(rows, TTuple):
            # list of tuples -> numpy makes a 2-d array of the components
            w = len(rows.elts)
            kind = 'float' if any(isinstance(t, TReal) for t in rows.elts) else 'int'
            return st.alloc(SArr((s, w), lambda i, j: cast(_sel(src(pos(i)), j), kind), kind))
        if rows is None or isinstance(rows, (TInt, TReal, TBool)) or src is not None:
            el = src(pos(bvar('k')))
            kind = 'float' if is_real(el) else ('bool' if is_bool(el) else 'int')
            return st.alloc(SArr((s,), lambda i: src(pos(i)), kind))
        raise Unsupported('choice over elements %r' % (rows,))
    ME[('SGen', 'choice')] = m_choice

    def _sel(tp, j):
        if isinstance(j, int):
            return tp[j]
        r = tp[-1]
        for c in range(len(tp) - 2, -1, -1):
            r = ITE(EQ(j, c), tp[c], r)
        return r

    # ---- spec-side vocabulary (the concrete meaning is in vk/dsl.py)
    B = M.builtins

    def state_of(x, st):
        px = st.deref(x) if isinstance(x, Ref) else x
        if isinstance(px, SGen):
            return px.state
        if tag(px) == 'rngstate':
            return px[1]
        raise Unsupported('not a generator state: %r' % (px,))

    def b_rng_state(args, kw, st, node):
        s = args[0]
        if s is None:
            raise Unsupported('rng_state(None) has no specification value (entropy)')
        return ('rngstate', SEED_STATE(Z(num(s))))
    B['rng_state'] = b_rng_state
    B['global_state'] = lambda args, kw, st, node: ('rngstate', G0)
    B['global_seeded'] = lambda args, kw, st, node: ('rngstate', GSEED(Z(num(args[0]))))

    def spec_draw(method, kind, facts_fn, nargs):
        def f(args, kw, st, node):
            state = state_of(args[0], st)
            a = list(args[1:1 + nargs])
            shape = shape_of(st, args[1 + nargs]) if len(args) > 1 + nargs else ()
            arr, nxt = draw_array(st, state, method, a, shape, kind, lambda get: facts_fn(get, a, st) if facts_fn else [])
            return (st.alloc(arr) if isinstance(arr, SArr) else arr, ('rngstate', nxt))
        return f
    B['rng_uniform'] = spec_draw('uniform', 'float', uniform_facts, 2)
    B['rng_integers'] = spec_draw('integers', 'int', lambda get, a, st: [lambda *ix: z3.And(Z(num(a[0])) <= get(*ix), get(*ix) < Z(num(a[1])))], 2)
    B['g_normal'] = spec_draw('gnormal', 'float', None, 2)
    B['g_laplace'] = spec_draw('glaplace', 'float', None, 2)
    B['g_uniform'] = spec_draw('guniform', 'float', uniform_facts, 2)

    def b_global_is(args, kw, st, node):
        """global_is(state): numpy's global generator is currently in that state"""
        return global_state(st) == state_of(args[0], st)
    B['global_is'] = b_global_is

    B['shuffle_perm'] = lambda args, kw, st, node: SHUF(Z(num(args[0])), Z(num(args[1])))
    B['shuffle_state'] = lambda args, kw, st, node: ('rngstate', F('shuffle_state', z3.IntSort(), ST)(Z(num(args[0]))))
    B['gen_state'] = lambda args, kw, st, node: ('rngstate', state_of(args[0], st))
    B['adv_shuffle'] = lambda args, kw, st, node: ('rngstate', F('adv_shuffle', ST, z3.IntSort(), ST)(state_of(args[0], st), Z(num(args[1]))))
    B['same_state'] = lambda args, kw, st, node: state_of(args[0], st) == state_of(args[1], st)

    def b_g_mvn(args, kw, st, node):
        G = state_of(args[0], st)
        mean, cov = M.as_arr(st, args[1]), M.as_arr(st, args[2])
        n = num(args[3])
        tm, tc = M.matrix_token(mean, st), M.matrix_token(cov, st)
        TOK = tm.sort()
        f = F('draw_gmvn', ST, TOK, TOK, z3.IntSort(), z3.IntSort(), z3.IntSort(), z3.RealSort())
        adv = F('adv_gmvn', ST, TOK, TOK, z3.IntSort(), ST)
        return (st.alloc(SArr((n, mean.shape[0]), lambda i, j: f(G, tm, tc, Z(n), Z(i), Z(j)), 'float')), ('rngstate', adv(G, tm, tc, Z(n))))
    B['g_mvn'] = b_g_mvn

    def b_rng_permutation(args, kw, st, node):
        s0 = state_of(args[0], st)
        n = num(args[1])
        f = F('draw_permutation', ST, z3.IntSort(), z3.IntSort(), z3.IntSort())
        inv = F('inv_permutation', ST, z3.IntSort(), z3.IntSort(), z3.IntSort())
        k = bvar('k')
        st.assume(forall([k], IMPLIES(in_range(k, 0, n), AND(in_range(f(s0, Z(n), k), 0, n), inv(s0, Z(n), f(s0, Z(n), k)) == k))))
        st.assume(forall([k], IMPLIES(in_range(k, 0, n), AND(in_range(inv(s0, Z(n), k), 0, n), f(s0, Z(n), inv(s0, Z(n), k)) == k))))
        return (st.alloc(SArr((n,), lambda kk: f(s0, Z(n), Z(kk)), 'int')), ('rngstate', F('adv_permutation', ST, z3.IntSort(), ST)(s0, Z(n))))
    B['rng_permutation'] = b_rng_permutation

    # ---- global generator
    def np_seed(args, kw, st, node):
        s = args[0]
        if s is None:
            ent = z3.Const(fresh_name('entropy'), ST)
            st.ghost['entropy'] = tuple(st.ghost.get('entropy', ())) + (ent,)
            set_global(st, ent)
            return None
        set_global(st, GSEED(Z(num(s))))
        return None
    E['numpy.random.seed'] = np_seed

    def global_draw(method, nargs, defaults, kind='float', facts=None):
        def f(args, kw, st, node):
            names = defaults[0]
            vals = list(args[:nargs])
            for i in range(len(vals), nargs):
                vals.append(kw.get(names[i], defaults[1][i]))
            size = args[nargs] if len(args) > nargs else kw.get('size')
            shape = shape_of(st, size)
            G = global_state(st)
            arr, nxt = draw_array(st, G, 'g' + method, vals, shape, kind, (lambda get: facts(get, vals, st)) if facts else (lambda get: []))
            set_global(st, nxt)
            st.ghost['G_read'] = True
            return st.alloc(arr) if isinstance(arr, SArr) else arr
        return f
    E['numpy.random.normal'] = global_draw('normal', 2, (('loc', 'scale'), (0.0, 1.0)))
    E['numpy.random.laplace'] = global_draw('laplace', 2, (('loc', 'scale'), (0.0, 1.0)))
    E['numpy.random.uniform'] = global_draw('uniform', 2, (('low', 'high'), (0.0, 1.0)), facts=uniform_facts)

    def global_method(name):
        def f(args, kw, st, node):
            tmp = st.alloc(SGen(global_state(st)))
            r = ME[('SGen', name)](tmp, st.deref(tmp), args, kw, st, node)
            set_global(st, st.deref(tmp).state)
            st.ghost['G_read'] = True
            return r
        return f
    for _nm in ('permutation', 'choice', 'shuffle', 'integers'):
        E['numpy.random.' + _nm] = global_method(_nm)
    E['numpy.random.randint'] = global_method('integers')

    def np_mvn(args, kw, st, node):
        mean, cov = M.as_arr(st, args[0]), M.as_arr(st, args[1])
        size = args[2] if len(args) > 2 else kw.get('size')
        n = num(st.deref(size)) if size is not None else None
        if n is None or not is_scalar(n):
            raise Unsupported('multivariate_normal size')
        p = mean.shape[0]
        G = global_state(st)
        # the sample is a function of (state, the mean vector, the covariance matrix, n): parameters enter through tokens
        tm, tc = M.matrix_token(mean, st), M.matrix_token(cov, st)
        TOK = tm.sort()
        f = F('draw_gmvn', ST, TOK, TOK, z3.IntSort(), z3.IntSort(), z3.IntSort(), z3.RealSort())
        adv = F('adv_gmvn', ST, TOK, TOK, z3.IntSort(), ST)
        set_global(st, adv(G, tm, tc, Z(n)))
        st.ghost['G_read'] = True
        st.ghost['mvn_calls'] = tuple(st.ghost.get('mvn_calls', ())) + ((G, tm, tc, n),)
        ex.use('A-RNG:multivariate_normal(mean, cov, size=n) is a function of (global state, mean, cov, n) with n rows of len(mean) columns')
        return st.alloc(SArr((n, p), lambda i, j: f(G, tm, tc, Z(n), Z(i), Z(j)), 'float'))
    E['numpy.random.multivariate_normal'] = np_mvn
