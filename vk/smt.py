"""Discharge obligations: one forked worker per obligation (hard kill on timeout),
z3 first, cvc5 (CLI, on the SMT-LIB export) for z3's unknowns."""
import json
import os
import select
import signal
import subprocess
import tempfile
import time
import z3


class Result:
    def __init__(self, oid, verdict, backend, secs, model=None, reason='', rl=0, h=''):
        self.id, self.verdict, self.backend, self.secs, self.model, self.reason = oid, verdict, backend, secs, model, reason
        self.rl, self.h = rl, h        # z3 resource units consumed; hash of the SMT-LIB text of the VC (when computed)

    def as_dict(self):
        return {'id': self.id, 'verdict': self.verdict, 'backend': self.backend, 'secs': round(self.secs, 3), 'reason': self.reason}


def has_quantifier(t, _cache={}):
    stack, seen = [t], set()
    while stack:
        x = stack.pop()
        i = x.get_id()
        if i in seen:
            continue
        seen.add(i)
        if z3.is_quantifier(x):
            return True
        stack.extend(x.children())
    return False


# z3 budgets are RESOURCE limits (deterministic counts of solver steps), not wall-clock: the verdict of an obligation must not depend
# on how busy the machine is.  A budget of t "seconds" is t * RL_PER_S units (about t seconds on an idle core of this sandbox); the
# wall-clock kill of the worker is only a backstop, far above it.
RL_PER_S = 4000000


_HCACHE = {}


def vc_hash(obl):
    """hash of the VC text: sha1 over the s-expressions of the hypotheses (in order) and the goal; per-term digests are cached by AST id
    because the hypotheses of one path are shared by all its obligations"""
    import hashlib
    hh = hashlib.sha1()
    for t in list(obl.hyps) + [obl.goal]:
        k = t.get_id()
        d = _HCACHE.get(k)
        if d is None:
            d = hashlib.sha1(t.sexpr().encode()).digest()
            _HCACHE[k] = d
        hh.update(d)
    return hh.hexdigest()[:20]


def _solve(obl, budget_s, seed, on_model, ground_only=False, want_hash=False):
    s = z3.Solver()
    s.set('rlimit', int(budget_s * RL_PER_S))
    s.set('timeout', int(budget_s * 6 * 1000))       # wall-clock backstop far above the nominal budget (quantifier-heavy VCs run ~1M units/s)
    s.set('random_seed', seed)
    for h in obl.hyps:
        if ground_only and has_quantifier(h):
            continue        # fewer hypotheses: still sound for `unsat`
        s.add(h)
    s.add(z3.Not(obl.goal))
    r = s.check()
    out = {'verdict': str(r), 'reason': s.reason_unknown() if r == z3.unknown else ''}
    try:
        st = s.statistics()
        out['rl'] = int(st.get_key_value('rlimit count')) if 'rlimit count' in st.keys() else 0
    except Exception:
        out['rl'] = 0
    if r == z3.sat and on_model is not None:
        try:
            out['model'] = on_model(obl, s.model())
        except Exception as e:   # model extraction is best effort
            out['model'] = None
            out['reason'] = 'model extraction failed: %r' % (e,)
    return out


def smt2_of(obl):
    s = z3.Solver()
    for h in obl.hyps:
        s.add(h)
    s.add(z3.Not(obl.goal))
    return s.to_smt2()


def run_cvc5(obl, timeout_s):
    txt = smt2_of(obl)
    txt = '(set-logic ALL)\n' + '\n'.join(l for l in txt.splitlines() if not l.startswith('(set-info'))
    with tempfile.NamedTemporaryFile('w', suffix='.smt2', delete=False, dir=os.environ.get('VK_TMP', None)) as f:
        f.write(txt)
        path = f.name
    try:
        p = subprocess.run(['/usr/bin/cvc5', '--tlimit=%d' % int(timeout_s * 1000), '--full-saturate-quant', path],
                           capture_output=True, text=True, timeout=timeout_s + 5)
        out = (p.stdout or '').strip().splitlines()
        v = out[0] if out else 'unknown'
        return v if v in ('sat', 'unsat') else 'unknown'
    except Exception:
        return 'unknown'
    finally:
        try:
            os.unlink(path)
        except OSError:
            pass


def run_z3cli_ematch(obl, budget_s):
    """z3 (the z3-solver wheel's CLI) with model-based quantifier instantiation off, under a deterministic resource limit.
    Only `unsat` is used (without MBQI a `sat` is not a model).  The CLI is used because the same query through the python API
    behaves differently (measured: 40 s / 78 M units on the CLI, no answer after 20 min through the API)."""
    import shutil
    exe = shutil.which('z3-new') or shutil.which('z3')
    if not exe:
        return 'unknown', 0
    txt = smt2_of(obl)
    with tempfile.NamedTemporaryFile('w', suffix='.smt2', delete=False, dir=os.environ.get('VK_TMP', None)) as f:
        f.write(txt)
        path = f.name
    try:
        p = subprocess.run([exe, '-st', 'smt.mbqi=false', 'smt.random_seed=0', 'rlimit=%d' % int(budget_s * RL_PER_S), '-T:%d' % int(budget_s * 6), path],
                           capture_output=True, text=True, timeout=budget_s * 6 + 10)
        out = (p.stdout or '').strip().splitlines()
        v = out[0].strip() if out else 'unknown'
        rl = 0
        for l in out:
            if ':rlimit-count' in l:
                try:
                    rl = int(l.split()[-1].rstrip(')'))
                except ValueError:
                    pass
        return (v if v == 'unsat' else 'unknown'), rl
    except Exception:
        return 'unknown', 0
    finally:
        try:
            os.unlink(path)
        except OSError:
            pass


GIVE_UP_AFTER = 6


def discharge(obls, timeout=20, procs=16, seed=0, on_model=None, use_cvc5=True, retry_timeout=90, progress=None, want_hash=False, hints=None):
    """returns list of Result aligned with obls.  Every obligation has a plan = list of rungs (backend, budget) tried in order until
    one answers sat/unsat: z3 on the ground fragment, z3, cvc5, z3 with the long budget.  `hints` (obligation id -> backend that
    discharged it when the lock was written) only moves that rung to the front; the remaining rungs still follow."""
    hints = hints or {}
    results = [None] * len(obls)
    plans = {}
    for i, o in enumerate(obls):
        if z3.is_true(o.goal) and o.expect == 'unsat':
            results[i] = Result(o.id, 'unsat', 'syntactic', 0.0)
            continue
        if o.expect != 'unsat':
            plan = [('z3', min(timeout, 4))]
        elif z3.is_false(z3.simplify(o.goal)) or o.meta.get('kind', '').split(':')[0] in ('noninterference', 'no-global-write', 'nondegenerate', 'frame', 'fresh', 'deterministic', 'no-other-exception'):
            # goal `False`: discharged only if the path is infeasible, which is found quickly or not at all
            plan = [('z3:short', min(timeout, 10))]
        else:
            plan = []
            if not has_quantifier(o.goal):
                plan.append(('z3:ground', 4))      # cheap first rung: quantifier-free goal from the quantifier-free hypotheses
            plan.append(('z3', min(timeout, 10)))      # z3 answers within a second or two when it answers at all; the long rung is last
            if use_cvc5:
                plan.append(('cvc5', timeout * 3))      # wall-clock (cvc5 has no usable resource limit); it closes what z3's E-matching leaves open
            if retry_timeout:
                # E-matching only (model-based quantifier instantiation off): closes the invariant-preservation VCs with many quantified
                # hypotheses on which MBQI diverges (pdag_to_dag: 41 s vs unknown after 300 s)
                plan.append(('z3:ematch', retry_timeout))
                plan.append(('z3:long', retry_timeout))
            h = hints.get(o.id)
            if hints and h != 'z3:ematch':
                # checking against a lock: the e-matching rung is kept only for the obligations it discharged when the lock was
                # written (a refuted obligation of changed code would otherwise spend that budget as well before it is reported)
                plan = [x for x in plan if x[0] != 'z3:ematch']
            if h == 'open' and not want_hash:
                # never discharged when the lock was written: one z3 rung only (looks for a refutation); recorded as open, never as proved
                plan = [('z3', min(timeout, 10))]
            elif h and any(b == h for b, _ in plan) and plan[0][0] != h:
                plan = [x for x in plan if x[0] == h] + [x for x in plan if x[0] != h]
        plans[i] = plan
    todo = [(i, plans[i][0][1], plans[i][0][0]) for i in sorted(plans)]
    for i in plans:
        plans[i] = plans[i][1:]
    running = {}

    def launch(i, tmo, backend):
        r, w = os.pipe()
        pid = os.fork()
        if pid == 0:
            os.close(r)
            try:
                if backend == 'cvc5':
                    out = {'verdict': run_cvc5(obls[i], tmo), 'reason': ''}
                else:
                    if backend == 'z3:ground':
                        out = _solve(obls[i], tmo, seed, None, ground_only=True, want_hash=want_hash)
                        if out['verdict'] != 'unsat':
                            out = {'verdict': 'unknown', 'reason': 'ground fragment inconclusive', 'rl': out.get('rl', 0)}
                    elif backend == 'z3:ematch':
                        v, rl = run_z3cli_ematch(obls[i], tmo)
                        out = {'verdict': v, 'reason': '' if v == 'unsat' else 'e-matching inconclusive', 'rl': rl}
                    else:
                        out = _solve(obls[i], tmo, seed, on_model, want_hash=want_hash)
            except BaseException as e:
                out = {'verdict': 'error', 'reason': repr(e)[:300]}
            try:
                os.write(w, json.dumps(out, default=str).encode())
            finally:
                os._exit(0)
        os.close(w)
        running[r] = (pid, i, time.time(), tmo, backend, b'')

    retries = []
    gave_up = [0]
    while todo or running or retries:
        while todo and len(running) < procs:
            i, tmo, be = todo.pop(0)
            launch(i, tmo, be)
        if not running:
            todo, retries = retries, []
            continue
        rl, _, _ = select.select(list(running), [], [], 0.2)
        now = time.time()
        for fd in list(running):
            pid, i, t0, tmo, be, buf = running[fd]
            done = False
            if fd in rl:
                chunk = os.read(fd, 1 << 20)
                if chunk:
                    running[fd] = (pid, i, t0, tmo, be, buf + chunk)
                    continue
                done = True
            elif now - t0 > (tmo * 6 + 20 if be == 'z3:ematch' else tmo * 3 + 10 if be != 'cvc5' else tmo + 8):
                try:
                    os.kill(pid, signal.SIGKILL)
                except OSError:
                    pass
                buf = b''
                done = True
            if done:
                os.close(fd)
                try:
                    os.waitpid(pid, 0)
                except OSError:
                    pass
                del running[fd]
                try:
                    out = json.loads(buf.decode()) if buf else {'verdict': 'unknown', 'reason': 'hard timeout'}
                except Exception:
                    out = {'verdict': 'unknown', 'reason': 'worker output unreadable'}
                secs = time.time() - t0
                v = out['verdict']
                o = obls[i]
                prev = results[i]
                spent = secs + (prev.secs if prev else 0)
                if v in ('sat', 'unsat'):
                    results[i] = Result(o.id, v, be, spent, out.get('model'), out.get('reason', ''), out.get('rl', 0))
                else:
                    results[i] = Result(o.id, 'unknown', be, spent, None, out.get('reason', ''), out.get('rl', 0))
                    if plans[i] and (gave_up[0] < GIVE_UP_AFTER or want_hash):
                        nb, nt = plans[i].pop(0)
                        retries.append((i, nt, nb))
                    elif o.expect == 'unsat':
                        # the whole ladder was spent on this obligation.  Once several obligations of one function have ended that way
                        # (the code no longer meets its contract: the verdict is settled), the others get their first rung only -
                        # a check on changed code must not take an hour to say what it knows after minutes
                        gave_up[0] += 1
                if progress:
                    progress(results[i])
        if not todo and not running and retries:
            todo, retries = retries, []
    for i, o in enumerate(obls):       # hashes in this (per-function) process, where the per-term cache is shared
        r = results[i]
        if r is not None and o.expect == 'unsat' and ((want_hash and r.verdict == 'unsat') or r.verdict == 'unknown'):
            r.h = vc_hash(o)
    return results
