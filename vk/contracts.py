"""Loader for the sidecar contract files (/verif/contracts/*.py).

The files are ordinary Python *text*; they are parsed with ``ast`` and never
imported by /repo.  The same clause expressions are interpreted symbolically
(vk.engine) and concretely (vk.concrete, under /venv's python).
"""
import ast
import glob
import os


class Clause:
    def __init__(self, kind, args, kw, lineno):
        self.kind, self.args, self.kw, self.lineno = kind, args, kw, lineno


class Contract:
    def __init__(self, qualname, fn, path):
        self.qualname, self.fn, self.path = qualname, fn, path
        self.params = [(a.arg, a.annotation) for a in fn.args.args]
        self.returns = fn.returns
        self.clauses = []
        self.options = {}
        for st in fn.body:
            if isinstance(st, ast.Expr) and isinstance(st.value, ast.Call) and isinstance(st.value.func, ast.Name):
                c = st.value
                self.clauses.append(Clause(c.func.id, list(c.args), {k.arg: k.value for k in c.keywords}, st.lineno))
            elif isinstance(st, ast.Expr) and isinstance(st.value, ast.Constant):
                continue
            elif isinstance(st, ast.Pass):
                continue
            else:
                raise SyntaxError('%s:%d: contract bodies may only contain clause calls' % (path, st.lineno))

    def of(self, kind):
        return [c for c in self.clauses if c.kind == kind]

    def text(self, node):
        return ast.unparse(node)


class Invariant(Contract):
    def __init__(self, qualname, loop, fn, path):
        Contract.__init__(self, qualname, fn, path)
        self.loop = loop


class ContractDB:
    def __init__(self):
        self.specs = {}        # name -> FunctionDef (pure spec function)
        self.contracts = {}    # qualname -> Contract  (may hold several 'cases': list)
        self.invariants = {}   # (qualname, loop ordinal) -> Invariant
        self.files = []
        self.consts = {}       # module-level NAME = <literal> in contract files

    def load_dir(self, d):
        for p in sorted(glob.glob(os.path.join(d, '*.py'))):
            self.load_file(p)
        return self

    def load_file(self, path):
        src = open(path).read()
        tree = ast.parse(src, path)
        self.files.append(path)
        for node in tree.body:
            if isinstance(node, ast.Assign) and len(node.targets) == 1 and isinstance(node.targets[0], ast.Name):
                try:
                    self.consts[node.targets[0].id] = ast.literal_eval(node.value)
                except Exception:
                    pass
                continue
            if not isinstance(node, ast.FunctionDef):
                continue
            for dec in node.decorator_list:
                if isinstance(dec, ast.Name) and dec.id in ('spec', 'opaque'):
                    self.specs[node.name] = node
                elif isinstance(dec, ast.Call) and isinstance(dec.func, ast.Name):
                    nm = dec.func.id
                    if nm == 'contract':
                        q = ast.literal_eval(dec.args[0])
                        c = Contract(q, node, path)
                        c.options = {k.arg: ast.literal_eval(k.value) for k in dec.keywords}
                        self.contracts.setdefault(q, []).append(c)
                    elif nm == 'invariant':
                        q = ast.literal_eval(dec.args[0])
                        kw = {k.arg: ast.literal_eval(k.value) for k in dec.keywords}
                        self.invariants[(q, kw.get('loop', 1))] = Invariant(q, kw.get('loop', 1), node, path)

    def cases_of(self, c, tier='thorough'):
        """list of case dicts from the decorator option cases={'param': [values...]} (cartesian product);
        quick_cases=[{...}, ...] optionally selects the combinations verified in the quick tier"""
        import itertools
        if tier == 'quick' and c.options.get('quick_cases'):
            return [dict(d) for d in c.options['quick_cases']]
        cs = c.options.get('cases')
        if not cs:
            return [{}]
        keys = sorted(cs)
        out = [dict(zip(keys, vals)) for vals in itertools.product(*[cs[k] for k in keys])]
        # restrict=[{selector}, [allowed partial cases]]: a case matching the selector is kept only if it also matches an allowed one
        r = c.options.get('restrict')
        if r:
            sel, allowed = r
            match = lambda case, part: all(case.get(k) == v for k, v in part.items())
            out = [d for d in out if not match(d, sel) or any(match(d, a) for a in allowed)]
        return out

    def get(self, qualname):
        cs = self.contracts.get(qualname)
        return cs[0] if cs else None
