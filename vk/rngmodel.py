"""RNG model (assumption A-RNG) - filled in by vk/rng_rules.py"""
from .values import *   # noqa: F401,F403


def register(M):
    try:
        from . import rng_rules
        rng_rules.register(M)
    except ImportError:
        pass


def havoc_global(M, name, st):
    from . import rng_rules
    rng_rules.havoc_global(M, name, st)
