"""C20: sempler.noise factories and sempler.functions.null."""
from vk.dsl import *   # noqa: F401,F403


@contract("sempler.noise.normal")
def normal(mean: Real, var: Real) -> Callable:
    ghost(n=Int)
    requires(var >= 0, n >= 0)
    # n draws from numpy's *global* generator with standard deviation sqrt(var)
    ensures(same_array(result(n), g_normal(global_state(), mean, var ** 0.5, n)[0]))


@contract("sempler.noise.uniform")
def uniform(lo: Real, hi: Real) -> Callable:
    ghost(n=Int)
    requires(n >= 0)
    ensures(same_array(result(n), g_uniform(global_state(), lo, hi, n)[0]))
    ensures(implies(lo < hi, all(lo <= result(n)[k] and result(n)[k] < hi for k in range(n))))


@contract("sempler.noise.laplace")
def laplace(mean: Real, scale: Real) -> Callable:
    ghost(n=Int)
    requires(n >= 0, scale >= 0)
    ensures(same_array(result(n), g_laplace(global_state(), mean, scale, n)[0]))


@contract("sempler.noise.zero")
def zero() -> Callable:
    ghost(n=Int)
    requires(n >= 0)
    ensures(len(result(n).shape) == 1, len(result(n)) == n, all(result(n)[k] == 0 for k in range(n)))
    # every call hands out its own array (a shared buffer would let one caller's in-place update leak into later draws)
    ensures(independent(result(n), result(n)))


@contract("sempler.functions.null")
def null() -> Int:
    ensures(result == 0)
