"""C19 (python side that does not depend on pandas / the forest): sempler.semi._bootstrap and the argument checks of
BayesianNetwork.  DRFNet.__init__ / DRFNet.sample talk to pandas and the R forest: they are decided by vkb.c19 against
the stand-in backend only."""
from vk.dsl import *   # noqa: F401,F403


@contract("sempler.semi._bootstrap", cases={'n': ['none', 'int'], 'random_state': ['none', 'int', 'gen']})
def bootstrap(data: Arr1) -> Arr1:
    requires(len(data) >= 1, n is None or n >= 0)
    # a sample with replacement: every value is one of the observed values
    ensures(len(result) == (len(data) if n is None else n),
            all(any(result[k] == data[r] for r in range(len(data))) for k in range(len(result))))
    modifies(random_state)       # a Generator passed in is advanced (ints / None are not objects)
    fresh(result)


@contract("sempler.semi.BayesianNetwork.sample", cases={'n': ['none', 'int', 'real', 'intlist']})
def bn_sample(self: Obj('sempler.semi.BayesianNetwork', e=Int)):
    requires(self.e >= 0)
    raises(TypeError, when=n is not None and not (is_int(n) or is_list(n)))
    raises(ValueError, when=(is_int(n) and n <= 0) or (is_list(n) and (len(n) != self.e or any(n[m] <= 0 for m in range(len(n))))))


@invariant("sempler.semi.BayesianNetwork.sample", loop=1)
def _bn_n(n):
    holds(all(n[m] > 0 for m in range(_k1)))


@contract("sempler.semi.BayesianNetwork.__init__", cases={'graph': ['arr2', 'arr1', 'notarray'], 'data': ['arrlist', 'notarray']})
def bn_init(self: Obj('sempler.semi.BayesianNetwork')):
    requires(not is_ndarray(graph) or len(graph.shape) != 2 or graph.shape[0] == graph.shape[1])
    raises(TypeError, when=not is_ndarray(graph) or (len(graph.shape) == 2 and acyclic(graph) and not is_list(data)))
    raises(ValueError, when=is_ndarray(graph) and (len(graph.shape) != 2 or not acyclic(graph)
                                                 or (is_list(data) and any(data[m].shape[1] != graph.shape[1] for m in range(len(data))))))
    hint(acyclic_if_ranked(self.graph, lambda u: rank(graph, u)), at='before:topological_ordering')
    modifies(self)
    # the 0/1 pattern of the graph, private copies of the data, a topological ordering of the pattern
    ensures(same_array(self.graph, array_of(len(graph), len(graph), lambda i, j: 1 if graph[i, j] != 0 else 0, kind='int')),
            self.p == graph.shape[1], self.e == len(data), len(self.Ns) == len(data), all(self.Ns[m] == len(data[m]) for m in range(len(data))),
            all(u in self._ordering for u in range(len(graph))), distinct(self._ordering),
            all(implies(graph[self._ordering[k], self._ordering[k2]] != 0, k < k2) for k in range(len(self._ordering)) for k2 in range(len(self._ordering))))
    fresh(self.graph, self._data)


@invariant("sempler.semi.BayesianNetwork.__init__", loop=1)
def _bn_data(data, graph):
    holds(all(data[m].shape[1] == graph.shape[1] for m in range(_k1)))
