"""C05 / C06: sempler.normal_distribution.NormalDistribution and utils.matrix_block."""
from vk.dsl import *   # noqa: F401,F403

ND = 'sempler.normal_distribution.NormalDistribution'


@spec
def idx_ok(X, n):
    return all(0 <= X[a] and X[a] < n for a in range(len(X)))


@spec
def block(C, R, K):
    """C[R, :][:, K] in the requested order"""
    return array_of(len(R), len(K), lambda a, b: C[R[a], K[b]])


@spec
def sel(v, R):
    return array_of(len(R), lambda a: v[R[a]])


@spec
def nd_ok(d):
    """representation invariant of a NormalDistribution"""
    return d.p == len(d.mean) and len(d.covariance.shape) == 2 and d.covariance.shape[0] == d.p and d.covariance.shape[1] == d.p


@contract("sempler.utils.matrix_block")
def matrix_block(M: Arr2, rows: Arr1i, cols: Arr1i) -> Arr2:
    requires(idx_ok(rows, M.shape[0]), idx_ok(cols, M.shape[1]))
    ensures(defines(result, block(M, rows, cols)))
    fresh(result)


@contract("sempler.normal_distribution.NormalDistribution.__init__")
def nd_init(self: Obj('sempler.normal_distribution.NormalDistribution'), mean: Arr1, covariance: Arr2) -> NoneType:
    requires(covariance.shape[0] == covariance.shape[1])        # a covariance matrix is square (the constructor only compares lengths)
    raises(ValueError, when=len(mean) != len(covariance))
    modifies(self)
    establishes(p=len(mean), mean=array_of(len(mean), lambda i: mean[i]),
                covariance=array_of(covariance.shape[0], covariance.shape[1], lambda i, j: covariance[i, j]))
    fresh(self.mean, self.covariance)


@contract("sempler.normal_distribution.NormalDistribution.marginal", self_from_init=True)
def nd_marginal(self: Obj('sempler.normal_distribution.NormalDistribution', p=Int, mean=Arr1, covariance=Arr2), X: Arr1i) -> Obj('sempler.normal_distribution.NormalDistribution', p=Int, mean=Arr1, covariance=Arr2):
    requires(nd_ok(self), idx_ok(X, self.p))
    ensures(result.p == len(X), same_array(result.mean, sel(self.mean, X)), same_array(result.covariance, block(self.covariance, X, X)))
    fresh(result)


@contract("sempler.normal_distribution.NormalDistribution.conditional", self_from_init=True)
def nd_conditional(self: Obj('sempler.normal_distribution.NormalDistribution', p=Int, mean=Arr1, covariance=Arr2), Y: Arr1i, X: Arr1i, x: Arr1) -> Obj('sempler.normal_distribution.NormalDistribution', p=Int, mean=Arr1, covariance=Arr2):
    requires(nd_ok(self), idx_ok(X, self.p), idx_ok(Y, self.p),
             implies(len(X) > 0 and len(X) == len(x), nonsingular(block(self.covariance, X, X))))
    raises(ValueError, when=len(X) != len(x) or any(Y[a] == X[b] for a in range(len(Y)) for b in range(len(X))))
    ensures(result.p == len(Y))
    ensures(implies(len(X) == 0, same_array(result.mean, sel(self.mean, Y)) and same_array(result.covariance, block(self.covariance, Y, Y))))
    ensures(implies(len(X) > 0, same_array(result.mean, sel(self.mean, Y) + matmul(matmul(block(self.covariance, Y, X), inverse(block(self.covariance, X, X))), x - sel(self.mean, X)))))
    ensures(implies(len(X) > 0, same_array(result.covariance, block(self.covariance, Y, Y) - matmul(matmul(block(self.covariance, Y, X), inverse(block(self.covariance, X, X))), block(self.covariance, X, Y)))))
    fresh(result)


@spec
def row(C, y):
    return array_of(C.shape[1], lambda j: C[y, j])


@contract("sempler.normal_distribution.NormalDistribution.regress", self_from_init=True)
def nd_regress(self: Obj('sempler.normal_distribution.NormalDistribution', p=Int, mean=Arr1, covariance=Arr2), y: Int, Xs: Arr1i) -> Tup(Arr1, Real):
    requires(nd_ok(self), 0 <= y and y < self.p, idx_ok(Xs, self.p), distinct(Xs),
             implies(len(Xs) > 0, nonsingular(block(self.covariance, Xs, Xs))))
    # coefficients: zero outside S, and the normal equations  C_SS b_S = C_Sy  on S (pinned to the index order of Xs)
    ensures(len(result[0]) == self.p,
            all(implies(not any(Xs[a] == j for a in range(len(Xs))), result[0][j] == 0) for j in range(self.p)),
            implies(len(Xs) > 0, same_array(matmul(block(self.covariance, Xs, Xs), sel(result[0], Xs)), array_of(len(Xs), lambda a: self.covariance[y, Xs[a]]))),
            result[1] == self.mean[y] - matmul(result[0], self.mean))
    functional(result[0], 'ls_coefs', self.covariance, y, Xs)
    fresh(result)


@contract("sempler.normal_distribution.NormalDistribution.mse", self_from_init=True)
def nd_mse(self: Obj('sempler.normal_distribution.NormalDistribution', p=Int, mean=Arr1, covariance=Arr2), y: Int, Xs: Arr1i) -> Real:
    requires(nd_ok(self), 0 <= y and y < self.p, idx_ok(Xs, self.p), distinct(Xs),
             implies(len(Xs) > 0, nonsingular(block(self.covariance, Xs, Xs))))
    # variance of the residual y - b.X : var_y + b C b^T - 2 C_y b^T with b the regression coefficients (no dependence on the means)
    ensures(result == self.covariance[y, y]
            + matmul(matmul(ls_coefs(self.covariance, y, Xs), self.covariance), ls_coefs(self.covariance, y, Xs))
            - matmul(2 * row(self.covariance, y), ls_coefs(self.covariance, y, Xs)))


@contract("sempler.normal_distribution.NormalDistribution.sample", cases={'random_state': ['none', 'int']}, self_from_init=True)
def nd_sample(self: Obj('sempler.normal_distribution.NormalDistribution', p=Int, mean=Arr1, covariance=Arr2), n: Int) -> Arr2:
    requires(nd_ok(self), n >= 0)
    # exactly numpy's multivariate normal with the stored parameters, drawn from the global generator (reseeded when a seed is given)
    ensures(defines(result, g_mvn(global_state() if random_state is None else global_seeded(random_state), self.mean, self.covariance, n)[0]))
    reproducible()
    ensures(result.shape[0] == n and result.shape[1] == self.p)
    modifies(np.random)
    fresh(result)
