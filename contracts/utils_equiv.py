"""First-order building blocks of C07 / C09: the four Meek rules and is_consistent_extension."""
from vk.dsl import *   # noqa: F401,F403


@contract("sempler.utils.rule_1")
def rule_1(i: Int, j: Int, A: Arr2) -> Bool:
    requires(square(A), node(i, A), node(j, A))
    # some parent of i is not adjacent to j
    ensures(result == any(dedge(A, k, i) and not adjacent(A, j, k) for k in range(len(A))))


@contract("sempler.utils.rule_2")
def rule_2(i: Int, j: Int, A: Arr2) -> Bool:
    requires(square(A), node(i, A), node(j, A))
    # a directed path i -> k -> j
    ensures(result == any(dedge(A, i, k) and dedge(A, k, j) for k in range(len(A))))


@contract("sempler.utils.rule_3")
def rule_3(i: Int, j: Int, A: Arr2) -> Bool:
    requires(square(A), node(i, A), node(j, A))
    # two non-adjacent parents of j that are both neighbours of i
    ensures(result == any(k != l and uedge(A, i, k) and dedge(A, k, j) and uedge(A, i, l) and dedge(A, l, j) and not adjacent(A, l, k)
                          for k in range(len(A)) for l in range(len(A))))


@invariant("sempler.utils.rule_3", loop=1)
def _r3_outer(intersection, A):
    holds(all(implies(k2 in _done1 and l2 in intersection and l2 != k2, adjacent(A, l2, k2)) for k2 in range(len(A)) for l2 in range(len(A))))


@invariant("sempler.utils.rule_3", loop=2)
def _r3_inner(intersection, A, k):
    holds(all(implies(k2 in _done1 and l2 in intersection and l2 != k2, adjacent(A, l2, k2)) for k2 in range(len(A)) for l2 in range(len(A))),
          all(implies(l2 in _done2, adjacent(A, l2, k)) for l2 in range(len(A))),
          _iter2 == {l2 for l2 in range(len(A)) if l2 in intersection and l2 != k})


@contract("sempler.utils.rule_4")
def rule_4(i: Int, j: Int, A: Arr2) -> Bool:
    requires(square(A), node(i, A), node(j, A))
    # i - k -> j,  i - h -> k,  h and j not adjacent
    ensures(result == any(uedge(A, i, k) and dedge(A, k, j) and uedge(A, i, h) and dedge(A, h, k) and not adjacent(A, j, h)
                          for k in range(len(A)) for h in range(len(A))))


@invariant("sempler.utils.rule_4", loop=1)
def _r4(Hs, adj_j):
    holds(all(implies(h2 in _done1, h2 in adj_j) for h2 in _done1))


@contract("sempler.utils.is_consistent_extension")
def is_consistent_extension(G: Arr2, P: Arr2) -> Bool:
    requires(square(G), graph(P), len(G) == len(P))
    raises(ValueError, when=not acyclic(G))
    # same v-structures, same skeleton, every directed edge of P kept
    ensures(result == (all(iff(vs(P, a, c, b), vs(G, a, c, b)) for a in range(len(P)) for c in range(len(P)) for b in range(len(P)))
                       and all(iff(adjacent(P, a, b), adjacent(G, a, b)) for a in range(len(P)) for b in range(len(P)))
                       and all(implies(dedge(P, a, b), G[a, b] != 0) for a in range(len(P)) for b in range(len(P)))))
