"""First-order building blocks of C07 / C09: the four Meek rules and is_consistent_extension."""
from vk.dsl import *   # noqa: F401,F403


@contract("sempler.utils.rule_1")
def rule_1(i: Int, j: Int, A: Arr2) -> Bool:
    requires(square(A), node(i, A), node(j, A))
    # some parent of i is not adjacent to j
    ensures(result == any(dedge(A, k, i) and not adjacent(A, j, k) for k in range(len(A))))


@contract("sempler.utils.rule_2")
def rule_2(i: Int, j: Int, A: Arr2) -> Bool:
    requires(square(A), node(i, A), node(j, A))
    # a directed path i -> k -> j
    ensures(result == any(dedge(A, i, k) and dedge(A, k, j) for k in range(len(A))))


@contract("sempler.utils.rule_3")
def rule_3(i: Int, j: Int, A: Arr2) -> Bool:
    requires(square(A), node(i, A), node(j, A))
    # two non-adjacent parents of j that are both neighbours of i
    ensures(result == any(k != l and uedge(A, i, k) and dedge(A, k, j) and uedge(A, i, l) and dedge(A, l, j) and not adjacent(A, l, k)
                          for k in range(len(A)) for l in range(len(A))))


@invariant("sempler.utils.rule_3", loop=1)
def _r3_outer(intersection, A):
    holds(all(implies(k2 in _done1 and l2 in intersection and l2 != k2, adjacent(A, l2, k2)) for k2 in range(len(A)) for l2 in range(len(A))))


@invariant("sempler.utils.rule_3", loop=2)
def _r3_inner(intersection, A, k):
    holds(all(implies(k2 in _done1 and l2 in intersection and l2 != k2, adjacent(A, l2, k2)) for k2 in range(len(A)) for l2 in range(len(A))),
          all(implies(l2 in _done2, adjacent(A, l2, k)) for l2 in range(len(A))),
          _iter2 == {l2 for l2 in range(len(A)) if l2 in intersection and l2 != k})


@contract("sempler.utils.rule_4")
def rule_4(i: Int, j: Int, A: Arr2) -> Bool:
    requires(square(A), node(i, A), node(j, A))
    # i - k -> j,  i - h -> k,  h and j not adjacent
    ensures(result == any(uedge(A, i, k) and dedge(A, k, j) and uedge(A, i, h) and dedge(A, h, k) and not adjacent(A, j, h)
                          for k in range(len(A)) for h in range(len(A))))


@invariant("sempler.utils.rule_4", loop=1)
def _r4(Hs, adj_j):
    holds(all(implies(h2 in _done1, h2 in adj_j) for h2 in _done1))


@contract("sempler.utils.is_consistent_extension")
def is_consistent_extension(G: Arr2, P: Arr2) -> Bool:
    requires(square(G), graph(P), len(G) == len(P))
    raises(ValueError, when=not acyclic(G))
    # same v-structures, same skeleton, every directed edge of P kept
    ensures(result == (all(iff(vs(P, a, c, b), vs(G, a, c, b)) for a in range(len(P)) for c in range(len(P)) for b in range(len(P)))
                       and all(iff(adjacent(P, a, b), adjacent(G, a, b)) for a in range(len(P)) for b in range(len(P)))
                       and all(implies(dedge(P, a, b), G[a, b] != 0) for a in range(len(P)) for b in range(len(P)))))


# ---- wrappers around the equivalence-class algorithms.  The contracts of the deep algorithms (pdag_to_dag, dag_to_cpdag,
# ---- all_dags, maximally_orient ...) are *assumed* here and decided only by the bounded stand-in (vkb.c07..c10).

@opaque
def has_extension(P):
    """the PDAG admits a consistent extension (concrete: brute force over orientations)"""
    return len(extensions_of(P)) > 0


@spec
def extension_fo(G, P):
    """first-order definition of "G is a consistent extension of the PDAG P": every directed edge kept, every undirected edge
    oriented one way, nothing else added, no directed cycle, exactly the v-structures of P"""
    return (len(G.shape) == 2 and G.shape[0] == len(P) and G.shape[1] == len(P)
            and all(implies(dedge(P, a, b), G[a, b] != 0 and G[b, a] == 0) for a in range(len(P)) for b in range(len(P)))
            and all(implies(not adjacent(P, a, b), G[a, b] == 0) for a in range(len(P)) for b in range(len(P)))
            and all(implies(uedge(P, a, b), (G[a, b] != 0) != (G[b, a] != 0)) for a in range(len(P)) for b in range(len(P)))
            and acyclic(G)
            and all(iff(vs(G, a, c, b), vs(P, a, c, b)) for a in range(len(P)) for c in range(len(P)) for b in range(len(P))))


# ---- pdag_to_dag (Dor & Tarsi).  PROVED for every size: whenever it returns, the result is a consistent extension of the input
# ---- (soundness: acyclic by the removal order, skeleton / directed edges kept, no new v-structure by the neighbour condition).
# ---- ASSUMED (bounded tier only): it raises only when no extension exists (completeness, Dor & Tarsi 1992).
# ---- Ghost state: ghost_rk[x] = size of the working graph when node x was removed (0 while x is still in it); the removal order
# ---- is the ranking that witnesses acyclicity.  The ghost statements are woven into the generator's copy of the AST only.

@contract("sempler.utils.pdag_to_dag", cases={'debug': [False]})
def pdag_to_dag(P: Arr2) -> Arr2:
    requires(pdag_ok(P))
    ghost_code(at='entry', code='ghost_rk = np.zeros(len(P))')
    ghost_code(before=['all_but_i = list(set(range(len(P))) - {i})', 'indexes.remove(real_i)'], code='ghost_rk[real_i] = len(indexes)')
    raises(ValueError, when=not has_extension(P), assumed_on_raise='completeness of the Dor-Tarsi search (L-DT), decided by vkb.c09 on all PDAGs up to the bound')
    hint(acyclic_if_ranked(result, lambda x: ghost_rk[x]), at='return')
    ensures(extension_fo(result, P))
    # DEF: the opaque predicates used by the callers are this first-order definition
    hint(implies(extension_fo(result, old(P)), is_extension_of(result, old(P)) and has_extension(old(P))), at='return')
    ensures(is_extension_of(result, P), square(result), len(result) == len(P), acyclic(result))
    fresh(result)


@spec
def pd_frame(P, indexes, G, rk, P0):
    """working graph = sub-graph of the input on the remaining nodes `indexes` (increasing); rk == 0 exactly on them"""
    return (len(P.shape) == 2 and P.shape[0] == len(indexes) and P.shape[1] == len(indexes) and len(indexes) <= len(P0)
            and all(0 <= indexes[a] and indexes[a] < len(P0) for a in range(len(indexes)))
            and all(implies(a < b, indexes[a] < indexes[b]) for a in range(len(indexes)) for b in range(len(indexes)))
            and all(P[a, b] == P0[indexes[a], indexes[b]] for a in range(len(indexes)) for b in range(len(indexes)))
            and len(rk.shape) == 1 and rk.shape[0] == len(P0)
            and len(G.shape) == 2 and G.shape[0] == len(P0) and G.shape[1] == len(P0))


@invariant("sempler.utils.pdag_to_dag", loop=1)
def _pd_outer(P, indexes, G, ghost_rk):
    declare(indexes=ListOf(Int))
    holds(pd_frame(P, indexes, G, ghost_rk, old(P)),
          all(iff(ghost_rk[x] == 0, x in indexes) for x in range(len(old(P)))),
          all(ghost_rk[x] == 0 or (ghost_rk[x] > len(indexes) and ghost_rk[x] <= len(old(P))) for x in range(len(old(P)))),
          all(implies(ghost_rk[x] == ghost_rk[y] and ghost_rk[x] > 0, x == y) for x in range(len(old(P))) for y in range(len(old(P)))),
          all(implies(dedge(old(P), u, v), G[u, v] != 0 and G[v, u] == 0) for u in range(len(old(P))) for v in range(len(old(P)))),
          all(implies(not adjacent(old(P), u, v), G[u, v] == 0) for u in range(len(old(P))) for v in range(len(old(P)))),
          all(implies(uedge(old(P), u, v), iff(G[u, v] != 0, ghost_rk[u] < ghost_rk[v])) for u in range(len(old(P))) for v in range(len(old(P)))),
          all(implies(dedge(old(P), u, v), (ghost_rk[u] == 0 and ghost_rk[v] == 0) or ghost_rk[u] < ghost_rk[v]) for u in range(len(old(P))) for v in range(len(old(P)))),
          all(implies(uedge(old(P), a, c) and G[a, c] != 0 and G[b, c] != 0 and a != b, adjacent(old(P), a, b))
              for a in range(len(old(P))) for b in range(len(old(P))) for c in range(len(old(P)))))


@invariant("sempler.utils.pdag_to_dag", loop=2)
def _pd_search(P, indexes, G, ghost_rk, i, found):
    declare(indexes=ListOf(Int))
    holds(i >= 0,
          pd_frame(P, indexes, G, ghost_rk, old(P)),
          all(iff(ghost_rk[x] == 0, x in indexes) for x in range(len(old(P)))),
          all(ghost_rk[x] == 0 or (ghost_rk[x] > len(indexes) and ghost_rk[x] <= len(old(P))) for x in range(len(old(P)))),
          all(implies(ghost_rk[x] == ghost_rk[y] and ghost_rk[x] > 0, x == y) for x in range(len(old(P))) for y in range(len(old(P)))),
          all(implies(dedge(old(P), u, v), G[u, v] != 0 and G[v, u] == 0) for u in range(len(old(P))) for v in range(len(old(P)))),
          all(implies(not adjacent(old(P), u, v), G[u, v] == 0) for u in range(len(old(P))) for v in range(len(old(P)))),
          all(implies(uedge(old(P), u, v), iff(G[u, v] != 0, ghost_rk[u] < ghost_rk[v])) for u in range(len(old(P))) for v in range(len(old(P)))),
          all(implies(dedge(old(P), u, v), (ghost_rk[u] == 0 and ghost_rk[v] == 0) or ghost_rk[u] < ghost_rk[v]) for u in range(len(old(P))) for v in range(len(old(P)))),
          all(implies(uedge(old(P), a, c) and G[a, c] != 0 and G[b, c] != 0 and a != b, adjacent(old(P), a, b))
              for a in range(len(old(P))) for b in range(len(old(P))) for c in range(len(old(P)))))


@invariant("sempler.utils.pdag_to_dag", loop=3)
def _pd_orient(P, indexes, G, ghost_rk, real_i, real_neighbors, i):
    declare(indexes=ListOf(Int), real_neighbors=ListOf(Int))
    holds(pd_frame(P, indexes, G, ghost_rk, old(P)),
          all(iff(ghost_rk[x] == 0, x in indexes) for x in range(len(old(P)))),
          all(ghost_rk[x] == 0 or (ghost_rk[x] > len(indexes) and ghost_rk[x] <= len(old(P))) for x in range(len(old(P)))),
          all(implies(ghost_rk[x] == ghost_rk[y] and ghost_rk[x] > 0, x == y) for x in range(len(old(P))) for y in range(len(old(P)))),
          all(implies(dedge(old(P), u, v), G[u, v] != 0 and G[v, u] == 0) for u in range(len(old(P))) for v in range(len(old(P)))),
          all(implies(not adjacent(old(P), u, v), G[u, v] == 0) for u in range(len(old(P))) for v in range(len(old(P)))),
          # the undirected edges at real_i towards the neighbours already visited are oriented into real_i
          all(implies(uedge(old(P), u, v),
                      iff(G[u, v] != 0, ghost_rk[u] < ghost_rk[v] or (v == real_i and ghost_rk[u] == 0 and any(_iter3[m] == u for m in range(_k3)))))
              for u in range(len(old(P))) for v in range(len(old(P)))),
          all(implies(dedge(old(P), u, v), (ghost_rk[u] == 0 and ghost_rk[v] == 0) or ghost_rk[u] < ghost_rk[v]) for u in range(len(old(P))) for v in range(len(old(P)))),
          all(implies(uedge(old(P), a, c) and G[a, c] != 0 and G[b, c] != 0 and a != b, adjacent(old(P), a, b))
              for a in range(len(old(P))) for b in range(len(old(P))) for c in range(len(old(P)))))


@contract("sempler.utils.has_consistent_extension")
def has_consistent_extension(pdag: Arr2) -> Bool:
    requires(pdag_ok(pdag))
    ensures(result == has_extension(pdag))


@contract("sempler.utils.dag_to_icpdag")
def dag_to_icpdag(G: Arr2, I: SetOf(Int)) -> Arr2:
    requires(square(G), acyclic(G), all(node(i, G) for i in I))
    ensures(is_icpdag_of(result, G, I), pdag_ok(result), binary(result), len(result) == len(G))
    fresh(result)


@contract("sempler.utils.pdag_to_icpdag")
def pdag_to_icpdag(P: Arr2, I: SetOf(Int)) -> Arr2:
    requires(pdag_ok(P), all(node(i, P) for i in I))
    # ValueError for undirected edges at a target (checked first), or when no consistent extension exists
    raises(ValueError, when=any(i in I and any(uedge(P, i, x) for x in range(len(P))) for i in range(len(P))) or not has_extension(P))


@invariant("sempler.utils.pdag_to_icpdag", loop=1)
def _pti(P, I):
    holds(all(implies(i in _done1, not any(uedge(P, i, x) for x in range(len(P)))) for i in range(len(P))))


@contract("sempler.utils.chain_graph")
def chain_graph(p: Int) -> Arr2:
    requires(p >= 1)
    ensures(defines(result, array_of(p, p, lambda i, j: 1.0 if j == i + 1 else 0.0)))
    fresh(result)


@contract("sempler.utils.is_chain_graph")
def is_chain_graph(A: Arr2) -> Bool:
    requires(square(A), len(A) >= 1)
    # exactly the matrix of the chain 0 -> 1 -> ... -> p-1 with unit entries (a weighted chain is not taken for the shortcut)
    ensures(result == all(A[i, j] == (1 if j == i + 1 else 0) for i in range(len(A)) for j in range(len(A))))


@opaque
def enumerates_mec(R, A):
    """R lists the Markov equivalence class of the DAG A, each member once (concrete: brute force)"""
    return same_graph_set(R, mec_of(A))


@opaque
def enumerates_imec(R, A, I):
    return same_graph_set(R, imec_of(A, I))


@opaque
def enumerates_extensions(R, P):
    return same_graph_set(R, extensions_of(P))


@opaque
def is_cpdag_of(C, A):
    return same_pattern(C, union_graph(mec_of(A)))


@opaque
def is_icpdag_of(C, A, I):
    return same_pattern(C, union_graph(imec_of(A, I)))


# ---- dag_to_cpdag = order_edges ; label_edges ; assembly.  The two labelling passes (Chickering 1995) are ASSUMED to label every
# ---- edge of G with 1 when it is compelled and -1 when it is reversible (decided by the bounded harness only); the assembly of
# ---- the CPDAG from the labels is PROVED: a compelled edge stays directed, a reversible one is written in both directions.

@spec
def cpdag_fo(C, G):
    """C is the 0/1 matrix with a -> b for every edge of G, plus b -> a when that edge is reversible"""
    return (len(C.shape) == 2 and C.shape[0] == len(G) and C.shape[1] == len(G)
            and all(C[a, b] == (1 if (G[a, b] != 0 or (G[b, a] != 0 and not compelled(G, b, a))) else 0)
                    for a in range(len(G)) for b in range(len(G))))


@contract("sempler.utils.order_edges")
def order_edges(G: Arr2) -> Arr2i:
    requires(square(G))
    raises(ValueError, when=not acyclic(G))
    ensures(result.shape[0] == len(G) and result.shape[1] == len(G),
            all(iff(result[a, b] != 0, G[a, b] != 0) for a in range(len(G)) for b in range(len(G))),
            valid_edge_order(result), acyclic(result))
    fresh(result)


@contract("sempler.utils.label_edges")
def label_edges(ordered: Arr2o) -> Arr2i:
    # ASSUMED as a whole (bounded tier only; the body - argmax over a masked float copy, fancy writes, break - is not interpreted):
    # Chickering's edge labelling marks exactly the compelled edges with 1 and the reversible ones with -1
    requires(square(ordered), acyclic(ordered), valid_edge_order(ordered))
    ensures(result.shape[0] == len(ordered) and result.shape[1] == len(ordered),
            all(result[a, b] == (0 if ordered[a, b] == 0 else (1 if compelled(ordered, a, b) else -1))
                for a in range(len(ordered)) for b in range(len(ordered))))
    fresh(result)


@contract("sempler.utils.dag_to_cpdag")
def dag_to_cpdag(G: Arr2) -> Arr2i:
    requires(square(G), acyclic(G))
    # DEF: whether an edge is compelled depends on the non-zero pattern only
    hint(implies(all(iff(ordered[a, b] != 0, G[a, b] != 0) for a in range(len(G)) for b in range(len(G))),
                 all(compelled(ordered, a, b) == compelled(G, a, b) for a in range(len(G)) for b in range(len(G)))), at='before:label_edges')
    ensures(cpdag_fo(result, G), binary(result), len(result) == len(G))
    # DEF: the essential graph of G's class is exactly that matrix; its directed part is a sub-graph of G, hence acyclic
    hint(implies(cpdag_fo(result, G), is_cpdag_of(result, G) and pdag_ok(result)), at='return')
    ensures(is_cpdag_of(result, G), pdag_ok(result))
    fresh(result)


@invariant("sempler.utils.dag_to_cpdag", loop=1)
def _d2c(cpdag, labelled):
    holds(cpdag.shape[0] == len(labelled) and cpdag.shape[1] == len(labelled),
          all(0 <= _iter1[m][0] and _iter1[m][0] < len(labelled) and 0 <= _iter1[m][1] and _iter1[m][1] < len(labelled) for m in range(len(_iter1))),
          all(cpdag[a, b] == (1 if (labelled[a, b] == 1
                                    or any((_iter1[m][0] == a and _iter1[m][1] == b) or (_iter1[m][0] == b and _iter1[m][1] == a) for m in range(_k1))) else 0)
              for a in range(len(labelled)) for b in range(len(labelled))))


@contract("sempler.utils.all_dags")
def all_dags(pdag: Arr2) -> Arr3:
    requires(pdag_ok(pdag), graph(pdag))
    ensures(enumerates_extensions(result, pdag))
    fresh(result)


@spec
def chain_rooted(p, r, a, b):
    """entry (a, b) of the path 0 - 1 - ... - (p-1) oriented away from node r"""
    return 1.0 if ((b == a - 1 and 1 <= a and a <= r) or (b == a + 1 and r <= a and a <= p - 2)) else 0.0


@contract("sempler.utils.chain_graph_MEC")
def chain_graph_MEC(p: Int) -> Arr3:
    requires(p >= 1)
    # proved: the p orientations of the path away from a single root, root r at position r
    ensures(result.shape[0] == p and result.shape[1] == p and result.shape[2] == p,
            all(result[r, a, b] == chain_rooted(p, r, a, b) for r in range(p) for a in range(p) for b in range(p)))
    # L-CHAIN (cited; decided by the bounded harness): the Markov equivalence class of a directed path is exactly its single-root orientations
    let(chain=array_of(p, p, lambda i, j: 1.0 if j == i + 1 else 0.0))
    hint(implies(all(result[r, a, b] == chain_rooted(p, r, a, b) for r in range(p) for a in range(p) for b in range(p)),
                 enumerates_mec(result, chain)), at='return')
    ensures(enumerates_mec(result, chain))
    fresh(result)


@invariant("sempler.utils.chain_graph_MEC", loop=1)
def _cg_roots(MEC, p):
    declare(MEC=ListOf(Arr2))
    holds(len(MEC) == _k1,
          all(len(MEC[r].shape) == 2 and MEC[r].shape[0] == p and MEC[r].shape[1] == p for r in range(_k1)),
          all(MEC[r][a, b] == chain_rooted(p, r, a, b) for r in range(_k1) for a in range(p) for b in range(p)))


@invariant("sempler.utils.chain_graph_MEC", loop=2)
def _cg_back(A, i, p):
    holds(A.shape[0] == p and A.shape[1] == p,
          all(A[a, b] == (1.0 if (b == a - 1 and i - _k2 < a and a <= i and 1 <= a) else 0.0) for a in range(p) for b in range(p)))


@invariant("sempler.utils.chain_graph_MEC", loop=3)
def _cg_fwd(A, i, p):
    holds(A.shape[0] == p and A.shape[1] == p,
          all(A[a, b] == (1.0 if ((b == a - 1 and 1 <= a and a <= i) or (b == a + 1 and i <= a and a < i + _k3)) else 0.0)
              for a in range(p) for b in range(p)))


@spec
def keeps_root(A, I, r):
    """the orientation of the path away from r has the same parents as A at every target"""
    return all(chain_rooted(len(A), r, a, t) == A[a, t] for a in range(len(A)) for t in I)


@contract("sempler.utils.chain_graph_IMEC")
def chain_graph_IMEC(A: Arr2, I: SetOf(Int)) -> Arr3:
    requires(square(A), len(A) >= 1, all(node(i, A) for i in I))
    raises(ValueError, when=not all(A[i, j] == (1 if j == i + 1 else 0) for i in range(len(A)) for j in range(len(A))))
    # proved: exactly the single-root orientations that agree with A on the columns of the targets, in increasing root order
    ensures(result.shape[0] == count(len(A), lambda r: keeps_root(A, I, r)), result.shape[1] == len(A), result.shape[2] == len(A),
            all(implies(keeps_root(A, I, r), result[count(r, lambda r2: keeps_root(A, I, r2)), a, b] == chain_rooted(len(A), r, a, b))
                for r in range(len(A)) for a in range(len(A)) for b in range(len(A))))
    # L-CHAIN-I (cited; decided by the bounded harness): those orientations are the interventional class of the chain
    hint(implies(result.shape[0] == count(len(A), lambda r: keeps_root(A, I, r)), enumerates_imec(result, A, I)), at='return')
    ensures(enumerates_imec(result, A, I))
    fresh(result)


@invariant("sempler.utils.chain_graph_IMEC", loop=1)
def _cgi(IMEC, A, I, p):
    declare(IMEC=ListOf(Arr2))
    holds(len(IMEC) == count(_k1, lambda r: keeps_root(A, old(I), r)),
          all(len(IMEC[m].shape) == 2 and IMEC[m].shape[0] == p and IMEC[m].shape[1] == p for m in range(len(IMEC))),
          all(implies(keeps_root(A, old(I), r), IMEC[count(r, lambda r2: keeps_root(A, old(I), r2))][a, b] == chain_rooted(p, r, a, b))
              for r in range(_k1) for a in range(p) for b in range(p)))


@contract("sempler.utils.mec", cases={'check_chain': [True, False]})
def mec(A: Arr2) -> Arr3:
    requires(square(A), len(A) >= 1)
    raises(ValueError, when=not acyclic(A))
    # L-CHICK (cited): the consistent extensions of the CPDAG of A are exactly A's Markov equivalence class
    hint(implies(is_cpdag_of(cpdag, A) and enumerates_extensions(result, cpdag), enumerates_mec(result, A)), at='return')
    ensures(enumerates_mec(result, A))


@contract("sempler.utils.imec", cases={'check_chain': [True, False]})
def imec(A: Arr2, I: SetOf(Int)) -> Arr3:
    requires(square(A), len(A) >= 1)
    raises(ValueError, when=not acyclic(A) or not all(implies(i in I, 0 <= i and i < len(A)) for i in I))
    hint(implies(is_icpdag_of(icpdag, A, I) and enumerates_extensions(result, icpdag), enumerates_imec(result, A, I)), at='return')
    ensures(enumerates_imec(result, A, I))


@contract("sempler.utils.pdag_to_cpdag")
def pdag_to_cpdag(pdag: Arr2) -> Arr2:
    requires(pdag_ok(pdag))
    raises(ValueError, when=not has_extension(pdag))
    # the essential graph of the class of the extension found (L-CHICK: every extension of a PDAG lies in one class)
    ensures(any_extension_cpdag(result, pdag))
    hint(implies(is_extension_of(dag, pdag) and is_cpdag_of(result, dag), any_extension_cpdag(result, pdag)), at='return')


# ---- maximally_orient: the Meek closure.  Proved here: the result is an orientation of the input (same adjacencies, entries only
# ---- removed, and only the reverse entry of an undirected edge) that is CLOSED under the four rules; ValueError exactly when there
# ---- is no consistent extension (contract of pdag_to_dag, assumed).  That a closed orientation reached by sound steps is the set of
# ---- edges common to all extensions is Meek's theorem (L-MEEK, cited) and is decided by the bounded harness vkb.c09 only.

@spec
def meek_applies(A, i, j):
    """some Meek rule orients i - j into i -> j (the specifications of rule_1 .. rule_4)"""
    return (any(dedge(A, k, i) and not adjacent(A, j, k) for k in range(len(A)))
            or any(dedge(A, i, k) and dedge(A, k, j) for k in range(len(A)))
            or any(k != l and uedge(A, i, k) and dedge(A, k, j) and uedge(A, i, l) and dedge(A, l, j) and not adjacent(A, l, k)
                   for k in range(len(A)) for l in range(len(A)))
            or any(uedge(A, i, k) and dedge(A, k, j) and uedge(A, i, h) and dedge(A, h, k) and not adjacent(A, j, h)
                   for k in range(len(A)) for h in range(len(A))))


@spec
def orientation_of(R, P):
    """R is P with the reverse entry of some undirected edges removed"""
    return (len(R.shape) == 2 and R.shape[0] == len(P) and R.shape[1] == len(P)
            and all(R[a, b] == P[a, b] or (R[a, b] == 0 and uedge(P, a, b)) for a in range(len(P)) for b in range(len(P)))
            and all(iff(adjacent(R, a, b), adjacent(P, a, b)) for a in range(len(P)) for b in range(len(P))))


@spec
def meek_closed(R):
    return all(implies(uedge(R, a, b), not meek_applies(R, a, b)) for a in range(len(R)) for b in range(len(R)))


@contract("sempler.utils.maximally_orient", cases={'debug': [False]})
def maximally_orient(P: Arr2) -> Arr2:
    requires(pdag_ok(P))
    raises(ValueError, when=not has_extension(P))
    ensures(orientation_of(result, P), meek_closed(result))
    fresh(result)


@invariant("sempler.utils.maximally_orient", loop=1)
def _mo_outer(P, oriented_edges):
    holds(orientation_of(P, old(P)),
          implies(not oriented_edges, meek_closed(P)))


@invariant("sempler.utils.maximally_orient", loop=2)
def _mo_inner(P, oriented_edges, i, j):
    holds(orientation_of(P, old(P)),
          # the sweep list: the undirected edges at the head of the sweep, each once (larger endpoint first)
          all(0 <= _iter2[m][0] and _iter2[m][0] < len(P) and 0 <= _iter2[m][1] and _iter2[m][1] < len(P) for m in range(len(_iter2))),
          all(implies(m != m2, _iter2[m][0] != _iter2[m2][0] or _iter2[m][1] != _iter2[m2][1]) for m in range(len(_iter2)) for m2 in range(len(_iter2))),
          all(_iter2[m][0] > _iter2[m][1] for m in range(len(_iter2))),
          # edges not yet visited are still undirected
          all(uedge(P, _iter2[m][0], _iter2[m][1]) for m in range(_k2, len(_iter2))),
          # as long as nothing was oriented in this sweep: the list is every undirected edge of the current graph, and no rule applies
          # to the visited ones in either direction
          implies(not oriented_edges,
                  all(implies(uedge(P, a, b) and a > b, any(_iter2[m][0] == a and _iter2[m][1] == b for m in range(len(_iter2))))
                      for a in range(len(P)) for b in range(len(P)))),
          implies(not oriented_edges,
                  all(not meek_applies(P, _iter2[m][0], _iter2[m][1]) and not meek_applies(P, _iter2[m][1], _iter2[m][0]) for m in range(_k2))))
