"""C17: sempler.utils.split_data."""
from vk.dsl import *   # noqa: F401,F403


@spec
def fold_lo(n, ratios, i):
    return min(n, prefix_round(n, ratios, i))


@spec
def fold_hi(n, ratios, i):
    return n if i == len(ratios) - 1 else min(n, prefix_round(n, ratios, i + 1))


@spec
def fold_spec(data, ratios, e, i):
    """fold i of environment e: the rows  sigma_e[lo : hi]  of data[e], sigma_e = the shuffle of environment e"""
    return array_of(fold_hi(len(data[e]), ratios, i) - fold_lo(len(data[e]), ratios, i), data[e].shape[1],
                    lambda r, c: data[e][shuffle_perm(e, fold_lo(len(data[e]), ratios, i) + r), c])


@contract("sempler.utils.split_data", cases={'random_state': ['int']})
def split_data(data: ListOf(Arr2), ratios: ListOf(Real)) -> ListOf(ListOf(Arr2)):
    requires(len(ratios) >= 1, len(ratios) <= 1000, all(0 <= ratios[i] and ratios[i] <= 1 for i in range(len(ratios))))
    # ValueError must be raised beyond 1e-6 and must not be raised when the exact sum is 1 (whatever its floating-point value)
    raises(ValueError, must=abs(exact_sum(ratios) - 1) > 0.000001, may=exact_sum(ratios) != 1)
    ensures(len(result) == len(ratios), all(len(result[i]) == len(data) for i in range(len(ratios))))
    ensures(all(same_array(result[i][e], fold_spec(data, ratios, e, i)) for i in range(len(ratios)) for e in range(len(data))))
    # which shuffles: one private generator seeded with exactly random_state (0 included), advanced only by the shuffles themselves,
    # one per environment in order - so the assignment is a function of random_state alone and of nothing else
    ensures(implies(len(data) >= 1, same_state(shuffle_state(0), rng_state(random_state))),
            all(same_state(shuffle_state(e + 1), adv_shuffle(shuffle_state(e), len(data[e]))) for e in range(len(data) - 1)))
    reproducible(private=True, nondegenerate=False)
    fresh(result)


@invariant("sempler.utils.split_data", loop=1)
def _split_outer(folds, data, ratios, n_folds, rng, random_state):
    declare(folds=DictOf(Int, ListOf(Arr2)))
    holds(n_folds == len(ratios),
          all(len(folds[i]) == _k1 for i in range(len(ratios))),
          all(same_array(folds[i][e], fold_spec(data, ratios, e, i)) for i in range(len(ratios)) for e in range(_k1)),
          implies(_k1 == 0, same_state(gen_state(rng), rng_state(random_state))),
          implies(_k1 >= 1, same_state(gen_state(rng), adv_shuffle(shuffle_state(_k1 - 1), len(data[_k1 - 1])))),
          implies(_k1 >= 1, same_state(shuffle_state(0), rng_state(random_state))),
          all(same_state(shuffle_state(e + 1), adv_shuffle(shuffle_state(e), len(data[e]))) for e in range(_k1 - 1)))


@invariant("sempler.utils.split_data", loop=2)
def _split_inner(folds, data, ratios, n_folds, sample, start, n, rng, random_state):
    declare(folds=DictOf(Int, ListOf(Arr2)))
    holds(n_folds == len(ratios), n == len(data[_k1]), implies(_k2 < len(ratios), start == prefix_round(n, ratios, _k2)), start >= 0,
          all(len(folds[i]) == (_k1 + 1 if i < _k2 else _k1) for i in range(len(ratios))),
          all(same_array(folds[i][e], fold_spec(data, ratios, e, i)) for i in range(len(ratios)) for e in range(_k1)),
          all(same_array(folds[i][_k1], fold_spec(data, ratios, _k1, i)) for i in range(_k2)),
          sample.shape[0] == n and sample.shape[1] == data[_k1].shape[1],
          all(sample[r, c] == data[_k1][shuffle_perm(_k1, r), c] for r in range(n) for c in range(sample.shape[1])),
          same_state(gen_state(rng), adv_shuffle(shuffle_state(_k1), n)),
          same_state(shuffle_state(0), rng_state(random_state)),
          all(same_state(shuffle_state(e + 1), adv_shuffle(shuffle_state(e), len(data[e]))) for e in range(_k1)))
