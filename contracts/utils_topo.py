"""C03: sempler.utils.topological_ordering (Kahn) and is_dag, exact for every square real matrix."""
from vk.dsl import *   # noqa: F401,F403


@contract("sempler.utils.topological_ordering")
def topological_ordering(A: Arr2) -> ListOf(Int):
    requires(square(A))
    ensures(all(u in result for u in range(len(A))),
            distinct(result),
            all(node(result[k], A) for k in range(len(result))),
            all(implies(A[result[k], result[k2]] != 0, k < k2) for k in range(len(result)) for k2 in range(len(result))))
    raises(ValueError, when=not acyclic(A))
    hint(acyclic_if_ordered(old(A), result), at='return')
    hint(least_exists(lambda x: node(x, old(A)) and x not in ordering, lambda x: rank(old(A), x)), at='raise')
    fresh(result)


@invariant("sempler.utils.topological_ordering", loop=1)
def _kahn_outer(A, sinks, ordering):
    declare(sinks=ListOf(Int), ordering=ListOf(Int))
    holds(all(node(sinks[k], A) for k in range(len(sinks))),
          all(node(ordering[k], A) for k in range(len(ordering))),
          # I1: rows of processed nodes are cleared, everything else is untouched
          same_array(A, array_of(len(A), len(A), lambda u, v: 0 if u in ordering else old(A)[u, v])),
          # I2
          distinct(sinks), distinct(ordering),
          all(sinks[k] != ordering[k2] for k in range(len(sinks)) for k2 in range(len(ordering))),
          # I3: parents of pending / processed nodes are processed (and precede them)
          all(implies(old(A)[u, sinks[k]] != 0, u in ordering) for u in range(len(A)) for k in range(len(sinks))),
          all(implies(old(A)[u, ordering[k]] != 0, any(ordering[k2] == u for k2 in range(k)))
              for u in range(len(A)) for k in range(len(ordering))),
          # I4: a node without remaining parents is pending or processed
          all(implies(all(A[u, v] == 0 for u in range(len(A))), v in sinks or v in ordering) for v in range(len(A))),
          no_two_cycles(old(A)))


@invariant("sempler.utils.topological_ordering", loop=2)
def _kahn_inner(A, sinks, ordering, i):
    declare(sinks=ListOf(Int), ordering=ListOf(Int))
    holds(all(node(sinks[k], A) for k in range(len(sinks))),
          all(node(ordering[k], A) for k in range(len(ordering))),
          same_array(A, array_of(len(A), len(A), lambda u, v: 0 if ((u in ordering and u != i) or (u == i and v in _done2)) else old(A)[u, v])),
          distinct(sinks), distinct(ordering),
          all(sinks[k] != ordering[k2] for k in range(len(sinks)) for k2 in range(len(ordering))),
          all(implies(old(A)[u, sinks[k]] != 0, u in ordering) for u in range(len(A)) for k in range(len(sinks))),
          all(implies(old(A)[u, ordering[k]] != 0, any(ordering[k2] == u for k2 in range(k)))
              for u in range(len(A)) for k in range(len(ordering))),
          all(implies(all(A[u, v] == 0 for u in range(len(A))), v in sinks or v in ordering) for v in range(len(A))),
          no_two_cycles(old(A)),
          node(i, A), len(ordering) > 0, ordering[len(ordering) - 1] == i,
          # a pending node that is a child of i has already been handled in this pass
          all(implies(old(A)[i, sinks[k]] != 0, sinks[k] in _done2) for k in range(len(sinks))),
          _iter2 == {v for v in range(len(A)) if old(A)[i, v] != 0})


@contract("sempler.utils.is_dag")
def is_dag(A: Arr2) -> Bool:
    requires(square(A))
    ensures(result == acyclic(A))
