"""Shared spec vocabulary (DESIGN.md §3).  Pure Python: evaluated symbolically by
vk.engine and concretely (numpy arrays, python sets) by vk.concrete."""
from vk.dsl import *   # noqa: F401,F403


@spec
def square(A):
    return len(A.shape) == 2 and A.shape[0] == A.shape[1]


@spec
def node(x, A):
    return 0 <= x and x < len(A)


@spec
def edge(A, i, j):
    return A[i, j] != 0


@spec
def dedge(A, i, j):       # i -> j
    return A[i, j] != 0 and A[j, i] == 0


@spec
def uedge(A, i, j):       # i - j
    return A[i, j] != 0 and A[j, i] != 0


@spec
def adjacent(A, i, j):
    return A[i, j] != 0 or A[j, i] != 0


@spec
def zero_diag(A):
    return all(A[i, i] == 0 for i in range(len(A)))


@spec
def binary(A):
    return all(A[i, j] == 0 or A[i, j] == 1 for i in range(len(A)) for j in range(len(A)))


@spec
def no_two_cycles(A):
    return all(implies(A[i, j] != 0, A[j, i] == 0) for i in range(len(A)) for j in range(len(A)))


@spec
def graph(A):
    """the two input classes the properties quantify over: binary PDAGs and DAG weight matrices of any sign"""
    return square(A) and zero_diag(A) and (binary(A) or no_two_cycles(A))


@spec
def directed_part(P):
    return array_of(len(P), len(P), lambda i, j: P[i, j] if dedge(P, i, j) else 0.0)


@spec
def pdag_ok(P):
    """a partially directed graph whose directed part is acyclic (what the properties call a PDAG)"""
    return square(P) and zero_diag(P) and acyclic(directed_part(P))
