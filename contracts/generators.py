"""C11 / C12: sempler.generators."""
from vk.dsl import *   # noqa: F401,F403


@spec
def dag_avg_deg_spec(p, k, w_min, w_max, seed):
    s0 = rng_state(seed)
    U, s1 = rng_uniform(s0, 0.0, 1.0, (p, p))
    Wt, s2 = rng_uniform(s1, w_min, w_max, (p, p))
    perm, s3 = rng_permutation(s2, p)
    return (array_of(p, p, lambda a, b: Wt[perm[a], perm[b]] if (perm[a] < perm[b] and U[perm[a], perm[b]] <= k / (p - 1)) else 0.0), perm)


@spec
def dag_full_spec(p, w_min, w_max, seed):
    s0 = rng_state(seed)
    Wt, s1 = rng_uniform(s0, w_min, w_max, (p, p))
    perm, s2 = rng_permutation(s1, p)
    return (array_of(p, p, lambda a, b: Wt[perm[a], perm[b]] if perm[a] < perm[b] else 0.0), perm)


@spec
def is_permutation(L, p):
    return len(L) == p and all(0 <= L[k] and L[k] < p for k in range(p)) and distinct(L)


@spec
def weights_in(W, lo, hi):
    return all(implies(W[a, b] != 0, lo <= W[a, b] and W[a, b] <= hi) for a in range(len(W)) for b in range(len(W)))


@contract("sempler.generators.dag_avg_deg", cases={'return_ordering': [False, True], 'random_state': ['int', 'none']})
def dag_avg_deg(p: Int, k: Real, w_min: Real, w_max: Real):
    requires(p >= 2, 0 <= k, k <= p - 1, w_min <= w_max)
    let(W=result[0] if return_ordering else result)
    # the returned matrix, entry by entry, in terms of the generator's draws (one Bernoulli(k/(p-1)) test per unordered pair)
    ensures(implies(random_state is not None, same_array(W, dag_avg_deg_spec(p, k, w_min, w_max, random_state)[0])))
    ensures(W.shape[0] == p and W.shape[1] == p, zero_diag(W), weights_in(W, w_min, w_max), no_two_cycles(W))
    ensures(acyclic(W))
    hint(acyclic_if_ranked(result[0] if return_ordering else result, lambda u: permutation[u]), at='return')
    # the ordering returned on request is a permutation of the nodes and a topological order of the returned graph
    ensures(implies(return_ordering, is_permutation(result[1], p)
                    and all(implies(result[0][result[1][a], result[1][b]] != 0, a < b) for a in range(p) for b in range(p))))
    reproducible(private=True, when=p >= 3)
    fresh(result)


@contract("sempler.generators.dag_full", cases={'return_ordering': [False, True], 'random_state': ['int', 'none']})
def dag_full(p: Int, w_min: Real, w_max: Real):
    requires(p >= 0, w_min <= w_max)
    let(W=result[0] if return_ordering else result)
    ensures(implies(random_state is not None, same_array(W, dag_full_spec(p, w_min, w_max, random_state)[0])))
    ensures(W.shape[0] == p and W.shape[1] == p, zero_diag(W), weights_in(W, w_min, w_max), no_two_cycles(W))
    ensures(acyclic(W))
    hint(acyclic_if_ranked(result[0] if return_ordering else result, lambda u: permutation[u]), at='return')
    # complete whenever 0 is outside the weight range
    ensures(implies(w_min > 0 or w_max < 0, all(implies(a != b, W[a, b] != 0 or W[b, a] != 0) for a in range(p) for b in range(p))))
    ensures(implies(return_ordering, is_permutation(result[1], p)
                    and all(implies(result[0][result[1][a], result[1][b]] != 0, a < b) for a in range(p) for b in range(p))))
    reproducible(private=True, when=p >= 2)
    fresh(result)


@spec
def max_size_of(size):
    return size[1] if isinstance(size, tuple) else size


@spec
def min_size_of(size):
    return size[0] if isinstance(size, tuple) else size


@spec
def good_target_list(L, p, lo, hi):
    """distinct variables from 0..p-1 whose number lies in [lo, hi]"""
    return lo <= len(L) and len(L) <= hi and distinct(L) and all(0 <= L[t] and L[t] < p for t in range(len(L)))


@contract("sempler.generators.intervention_targets", cases={'size': ['int', 'pair', 'triple'], 'replace': [True, False], 'random_state': ['int', 'none']})
def intervention_targets(p: Int, K: Int) -> ListOf(ListOf(Int)):
    requires(p >= 1, K >= 0, min_size_of(size) >= 0, min_size_of(size) <= max_size_of(size))
    raises(ValueError, when=(isinstance(size, tuple) and len(size) != 2) or max_size_of(size) > p or (not replace and max_size_of(size) * K > p))
    ensures(len(result) == K,
            all(good_target_list(result[m], p, min_size_of(size), max_size_of(size)) for m in range(K)))
    # without replacement no variable occurs in two interventions
    ensures(implies(not replace, all(implies(m != m2, result[m][a] != result[m2][b])
                                     for m in range(K) for m2 in range(K) for a in range(len(result[m])) for b in range(len(result[m2])))))
    reproducible(private=True, nondegenerate=False)
    fresh(result)


@invariant("sempler.generators.intervention_targets", loop=1)
def _it_replace(interventions, sizes, p, size):
    declare(interventions=ListOf(ListOf(Int)))
    holds(len(interventions) == _k1,
          all(good_target_list(interventions[m], p, min_size_of(size), max_size_of(size)) for m in range(_k1)))


@invariant("sempler.generators.intervention_targets", loop=2)
def _it_noreplace(interventions, remaining_targets, sizes, p, K, size):
    declare(interventions=ListOf(ListOf(Int)))
    holds(len(interventions) == _k2,
          all(good_target_list(interventions[m], p, min_size_of(size), max_size_of(size)) for m in range(_k2)),
          all(implies(x in remaining_targets, 0 <= x and x < p) for x in range(p)),
          remaining_targets <= set(range(p)),
          # enough variables are left for the interventions still to be drawn
          card(remaining_targets) >= max_size_of(size) * (K - _k2),
          all(interventions[m][a] not in remaining_targets for m in range(_k2) for a in range(len(interventions[m]))),
          all(implies(m != m2, interventions[m][a] != interventions[m2][b])
              for m in range(_k2) for m2 in range(_k2) for a in range(len(interventions[m])) for b in range(len(interventions[m2]))))
