"""C11 / C12: sempler.generators."""
from vk.dsl import *   # noqa: F401,F403


@spec
def dag_avg_deg_spec(p, k, w_min, w_max, seed):
    s0 = rng_state(seed)
    U, s1 = rng_uniform(s0, 0.0, 1.0, (p, p))
    Wt, s2 = rng_uniform(s1, w_min, w_max, (p, p))
    perm, s3 = rng_permutation(s2, p)
    return (array_of(p, p, lambda a, b: Wt[perm[a], perm[b]] if (perm[a] < perm[b] and U[perm[a], perm[b]] <= k / (p - 1)) else 0.0), perm)


@spec
def dag_full_spec(p, w_min, w_max, seed):
    s0 = rng_state(seed)
    Wt, s1 = rng_uniform(s0, w_min, w_max, (p, p))
    perm, s2 = rng_permutation(s1, p)
    return (array_of(p, p, lambda a, b: Wt[perm[a], perm[b]] if perm[a] < perm[b] else 0.0), perm)


@spec
def is_permutation(L, p):
    return len(L) == p and all(0 <= L[k] and L[k] < p for k in range(p)) and distinct(L)


@spec
def weights_in(W, lo, hi):
    return all(implies(W[a, b] != 0, lo <= W[a, b] and W[a, b] <= hi) for a in range(len(W)) for b in range(len(W)))


@contract("sempler.generators.dag_avg_deg", cases={'return_ordering': [False, True], 'random_state': ['int']})
def dag_avg_deg(p: Int, k: Real, w_min: Real, w_max: Real):
    requires(p >= 2, 0 <= k, k <= p - 1, w_min <= w_max)
    let(W=result[0] if return_ordering else result)
    # the returned matrix, entry by entry, in terms of the generator's draws (one Bernoulli(k/(p-1)) test per unordered pair)
    ensures(same_array(W, dag_avg_deg_spec(p, k, w_min, w_max, random_state)[0]))
    ensures(W.shape[0] == p and W.shape[1] == p, zero_diag(W), weights_in(W, w_min, w_max), no_two_cycles(W))
    ensures(acyclic(W))
    hint(acyclic_if_ranked(result[0] if return_ordering else result, lambda u: dag_avg_deg_spec(p, k, w_min, w_max, random_state)[1][u]), at='return')
    # the ordering returned on request is a permutation of the nodes and a topological order of the returned graph
    ensures(implies(return_ordering, is_permutation(result[1], p)
                    and all(implies(result[0][result[1][a], result[1][b]] != 0, a < b) for a in range(p) for b in range(p))))
    fresh(result)


@contract("sempler.generators.dag_full", cases={'return_ordering': [False, True], 'random_state': ['int']})
def dag_full(p: Int, w_min: Real, w_max: Real):
    requires(p >= 0, w_min <= w_max)
    let(W=result[0] if return_ordering else result)
    ensures(same_array(W, dag_full_spec(p, w_min, w_max, random_state)[0]))
    ensures(W.shape[0] == p and W.shape[1] == p, zero_diag(W), weights_in(W, w_min, w_max), no_two_cycles(W))
    ensures(acyclic(W))
    hint(acyclic_if_ranked(result[0] if return_ordering else result, lambda u: dag_full_spec(p, w_min, w_max, random_state)[1][u]), at='return')
    # complete whenever 0 is outside the weight range
    ensures(implies(w_min > 0 or w_max < 0, all(implies(a != b, W[a, b] != 0 or W[b, a] != 0) for a in range(p) for b in range(p))))
    ensures(implies(return_ordering, is_permutation(result[1], p)
                    and all(implies(result[0][result[1][a], result[1][b]] != 0, a < b) for a in range(p) for b in range(p))))
    fresh(result)
