"""C15 leaf relations: sempler.utils.pa / ch / neighbors / adj / na (any square matrix)."""
from vk.dsl import *   # noqa: F401,F403


@contract("sempler.utils.pa")
def pa(i: Int, A: Arr2) -> SetOf(Int):
    requires(square(A), node(i, A))
    ensures(result == {j for j in range(len(A)) if dedge(A, j, i)})
    fresh(result)


@contract("sempler.utils.ch")
def ch(i: Int, A: Arr2) -> SetOf(Int):
    requires(square(A), node(i, A))
    ensures(result == {j for j in range(len(A)) if dedge(A, i, j)})
    fresh(result)


@contract("sempler.utils.neighbors")
def neighbors(i: Int, A: Arr2) -> SetOf(Int):
    requires(square(A), node(i, A))
    ensures(result == {j for j in range(len(A)) if uedge(A, i, j)})
    fresh(result)


@contract("sempler.utils.adj")
def adj(i: Int, A: Arr2) -> SetOf(Int):
    requires(square(A), node(i, A))
    ensures(result == {j for j in range(len(A)) if adjacent(A, i, j)})
    fresh(result)


@contract("sempler.utils.na")
def na(y: Int, x: Int, A: Arr2) -> SetOf(Int):
    requires(square(A), node(x, A), node(y, A))
    ensures(result == {j for j in range(len(A)) if uedge(A, y, j) and adjacent(A, x, j)})
    fresh(result)


# ---- reachability (recursive functions: the callee's own contract is used at the recursive call; termination is not proved)

@spec
def reach_plus(A, x, i):
    """a directed path with at least one edge from x to i"""
    return any(dedge(A, x, k) and reach(A, k, i) for k in range(len(A)))


@contract("sempler.utils.descendants")
def descendants(i: Int, A: Arr2) -> SetOf(Int):
    requires(pdag_ok(A), node(i, A))     # acyclic directed part: the recursion terminates (termination itself is not proved)
    ensures(result == {j for j in range(len(A)) if reach(A, i, j)})
    fresh(result)


@invariant("sempler.utils.descendants", loop=1)
def _desc_inv(desc, i, A):
    holds(desc == {x for x in range(len(A)) if x == i or any(j in _done1 and reach(A, j, x) for j in range(len(A)))},
          _iter1 == {j for j in range(len(A)) if dedge(A, i, j)})


@contract("sempler.utils.desc")
def desc_(i: Int, A: Arr2) -> SetOf(Int):
    requires(pdag_ok(A), node(i, A))     # acyclic directed part: the recursion terminates (termination itself is not proved)
    ensures(result == {j for j in range(len(A)) if reach(A, i, j)})
    fresh(result)


@invariant("sempler.utils.desc", loop=1)
def _desc2_inv(descendants, i, A):
    holds(descendants == {x for x in range(len(A)) if x == i or any(j in _done1 and reach(A, j, x) for j in range(len(A)))},
          _iter1 == {j for j in range(len(A)) if dedge(A, i, j)})


@contract("sempler.utils.ancestors")
def ancestors(i: Int, A: Arr2) -> SetOf(Int):
    requires(pdag_ok(A), node(i, A))     # acyclic directed part: the recursion terminates (termination itself is not proved)
    ensures(result == {x for x in range(len(A)) if reach_plus(A, x, i)})
    fresh(result)


@invariant("sempler.utils.ancestors", loop=1)
def _anc_inv(anc, i, A):
    holds(anc == {x for x in range(len(A)) if dedge(A, x, i) or any(j in _done1 and reach_plus(A, x, j) for j in range(len(A)))},
          _iter1 == {j for j in range(len(A)) if dedge(A, j, i)})


@contract("sempler.utils.an")
def an_(i: Int, A: Arr2) -> SetOf(Int):
    requires(pdag_ok(A), node(i, A))     # acyclic directed part: the recursion terminates (termination itself is not proved)
    ensures(result == {x for x in range(len(A)) if reach_plus(A, x, i)})
    fresh(result)


@invariant("sempler.utils.an", loop=1)
def _an_inv(ancestors, i, A):
    holds(ancestors == {x for x in range(len(A)) if dedge(A, x, i) or any(j in _done1 and reach_plus(A, x, j) for j in range(len(A)))},
          _iter1 == {j for j in range(len(A)) if dedge(A, j, i)})


@contract("sempler.utils.transitive_closure")
def transitive_closure(A: Arr2) -> Arr2:
    requires(square(A))
    raises(ValueError, when=not acyclic(A))
    hint(acyclic_if_ranked(directed_part(A), lambda u: rank(A, u)), at='before:descendants')
    ensures(same_array(result, array_of(len(A), len(A), lambda i, j: 1.0 if (i != j and reach(A, i, j)) else 0.0)))
    fresh(result)


@invariant("sempler.utils.transitive_closure", loop=1)
def _tc_inv(closure, A):
    holds(same_array(closure, array_of(len(A), len(A), lambda i, j: 1.0 if (i < _k1 and i != j and reach(A, i, j)) else 0.0)))


@contract("sempler.utils.chain_component")
def chain_component(i: Int, G: Arr2) -> SetOf(Int):
    requires(square(G), node(i, G))
    # connectivity through undirected edges only
    ensures(result == {j for j in range(len(G)) if ucomp(G, i, j)})
    hint(closed_superset('ucomp', G, i, lambda x: x in visited), at='return')
    fresh(result)


@invariant("sempler.utils.chain_component", loop=1)
def _cc_outer(visited, to_visit, i, G):
    holds(i in visited or i in to_visit,
          all(implies(x in visited or x in to_visit, ucomp(G, i, x)) for x in range(len(G))),
          all(implies(x in visited or x in to_visit, node(x, G)) for x in visited | to_visit),
          all(implies(v in visited and uedge(G, v, w), w in visited or w in to_visit) for v in range(len(G)) for w in range(len(G))))


@invariant("sempler.utils.chain_component", loop=2)
def _cc_inner(visited, to_visit, i, G):
    holds(i in visited or i in to_visit,
          all(implies(x in visited or x in to_visit or x in _iter2, ucomp(G, i, x)) for x in range(len(G))),
          all(implies(x in visited or x in to_visit or x in _iter2, node(x, G)) for x in (visited | to_visit) | _iter2),
          all(implies(v in visited and uedge(G, v, w), w in visited or w in to_visit) for v in range(len(G)) for w in range(len(G))))


@spec
def meets(path, S):
    return any(path[m] in S for m in range(len(path)))


@spec
def sep(G, S, a, b):
    return all(meets(path, S) for path in sd_paths(G, a, b))


@contract("sempler.utils.semi_directed_paths")
def semi_directed_paths(fro: Int, to: Int, A: Arr2) -> ListOf(ListOf(Int)):
    requires(square(A), zero_diag(A), node(fro, A), node(to, A))
    ensures(same_path_set(result, sd_paths(A, fro, to)))
    ensures(defines(result, sd_paths(A, fro, to)))
    fresh(result)


@contract("sempler.utils.separates")
def separates(S: SetOf(Int), A: SetOf(Int), B: SetOf(Int), G: Arr2) -> Bool:
    requires(square(G), zero_diag(G), all(node(x, G) for x in A), all(node(x, G) for x in B), all(node(x, G) for x in S))
    raises(ValueError, when=any((x in A and x in B) or (x in A and x in S) or (x in B and x in S) for x in range(len(G))))
    # every semi-directed path from a node of A to a node of B meets S
    ensures(result == all(sep(G, S, a, b) for a in A for b in B))


@invariant("sempler.utils.separates", loop=1)
def _sep1(S, A, B, G):
    holds(all(implies(a2 in _done1 and b2 in B, sep(G, S, a2, b2)) for a2 in range(len(G)) for b2 in range(len(G))))


@invariant("sempler.utils.separates", loop=2)
def _sep2(S, A, B, G, a):
    holds(all(implies(a2 in _done1 and b2 in B, sep(G, S, a2, b2)) for a2 in range(len(G)) for b2 in range(len(G))),
          all(implies(b2 in _done2, sep(G, S, a, b2)) for b2 in range(len(G))))


@invariant("sempler.utils.separates", loop=3)
def _sep3(S, A, B, G, a, b):
    holds(all(implies(a2 in _done1 and b2 in B, sep(G, S, a2, b2)) for a2 in range(len(G)) for b2 in range(len(G))),
          all(implies(b2 in _done2, sep(G, S, a, b2)) for b2 in range(len(G))),
          all(meets(sd_paths(G, a, b)[m], S) for m in range(_k3)),
          len(_iter3) == len(sd_paths(G, a, b)),
          all(same_list(_iter3[m], sd_paths(G, a, b)[m]) for m in range(len(_iter3))))
