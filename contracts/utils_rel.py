"""C15 leaf relations: sempler.utils.pa / ch / neighbors / adj / na (any square matrix)."""
from vk.dsl import *   # noqa: F401,F403


@contract("sempler.utils.pa")
def pa(i: Int, A: Arr2) -> SetOf(Int):
    requires(square(A), node(i, A))
    ensures(result == {j for j in range(len(A)) if dedge(A, j, i)})
    fresh(result)


@contract("sempler.utils.ch")
def ch(i: Int, A: Arr2) -> SetOf(Int):
    requires(square(A), node(i, A))
    ensures(result == {j for j in range(len(A)) if dedge(A, i, j)})
    fresh(result)


@contract("sempler.utils.neighbors")
def neighbors(i: Int, A: Arr2) -> SetOf(Int):
    requires(square(A), node(i, A))
    ensures(result == {j for j in range(len(A)) if uedge(A, i, j)})
    fresh(result)


@contract("sempler.utils.adj")
def adj(i: Int, A: Arr2) -> SetOf(Int):
    requires(square(A), node(i, A))
    ensures(result == {j for j in range(len(A)) if adjacent(A, i, j)})
    fresh(result)


@contract("sempler.utils.na")
def na(y: Int, x: Int, A: Arr2) -> SetOf(Int):
    requires(square(A), node(x, A), node(y, A))
    ensures(result == {j for j in range(len(A)) if uedge(A, y, j) and adjacent(A, x, j)})
    fresh(result)
