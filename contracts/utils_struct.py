"""C16 structural decompositions (sempler.utils)."""
from vk.dsl import *   # noqa: F401,F403


@contract("sempler.utils.only_directed")
def only_directed(P: Arr2) -> Arr2:
    requires(square(P))
    ensures(defines(result, array_of(len(P), len(P), lambda i, j: P[i, j] if dedge(P, i, j) else 0)))
    fresh(result)


@contract("sempler.utils.only_undirected")
def only_undirected(P: Arr2) -> Arr2:
    requires(square(P))
    ensures(defines(result, array_of(len(P), len(P), lambda i, j: P[i, j] if uedge(P, i, j) else 0)))
    fresh(result)


@contract("sempler.utils.skeleton")
def skeleton(A: Arr2) -> Arr2i:
    requires(graph(A))
    ensures(defines(result, array_of(len(A), len(A), lambda i, j: 1 if adjacent(A, i, j) else 0, kind='int')))
    fresh(result)


@contract("sempler.utils.induced_subgraph")
def induced_subgraph(S: SetOf(Int), G: Arr2) -> Arr2:
    requires(square(G), all(node(s, G) for s in S))
    ensures(same_array(result, array_of(len(G), len(G), lambda i, j: G[i, j] if (i in S and j in S) else 0)))
    fresh(result)


@contract("sempler.utils.directed_edges")
def directed_edges(A: Arr2) -> ListOf(Tup(Int, Int)):
    requires(square(A))
    ensures(set(result) == {(i, j) for i in range(len(A)) for j in range(len(A)) if dedge(A, i, j)})
    ensures(distinct(result))
    ensures(len(result) == count(len(A), len(A), lambda i, j: dedge(A, i, j)))
    fresh(result)


@contract("sempler.utils.undirected_edges")
def undirected_edges(P: Arr2) -> ListOf(Tup(Int, Int)):
    requires(square(P))
    ensures(set(result) == {(i, j) for i in range(len(P)) for j in range(len(P)) if uedge(P, i, j) and i > j})
    ensures(distinct(result))
    fresh(result)


@contract("sempler.utils.edge_weights")
def edge_weights(W: Arr2) -> DictOf(Tup(Int, Int), Real):
    requires(square(W))
    ensures(set(result) == {(i, j) for i in range(len(W)) for j in range(len(W)) if W[i, j] != 0})
    ensures(all(result[(i, j)] == W[i, j] for i in range(len(W)) for j in range(len(W)) if W[i, j] != 0))
    fresh(result)


@spec
def vs(A, i, c, j):
    """i -> c <- j unshielded collider with i < j"""
    return i < j and dedge(A, i, c) and dedge(A, j, c) and not adjacent(A, i, j)


@contract("sempler.utils.vstructures")
def vstructures(A: Arr2) -> SetOf(Tup(Int, Int, Int)):
    requires(square(A))
    ensures(result == {(i, c, j) for i in range(len(A)) for c in range(len(A)) for j in range(len(A)) if vs(A, i, c, j)})
    fresh(result)


@invariant("sempler.utils.vstructures", loop=1)
def _vs_outer(vstructs, A):
    declare(vstructs=ListOf(Tup(Int, Int, Int)))
    holds(set(vstructs) == {(i, c, j) for i in range(len(A)) for c in range(len(A)) for j in range(len(A))
                            if vs(A, i, c, j) and any(_iter1[m] == c for m in range(_k1))})


@invariant("sempler.utils.vstructures", loop=2)
def _vs_inner(vstructs, A, c):
    declare(vstructs=ListOf(Tup(Int, Int, Int)))
    holds(set(vstructs) == {(i, cc, j) for i in range(len(A)) for cc in range(len(A)) for j in range(len(A))
                            if vs(A, i, cc, j) and (any(_iter1[m] == cc for m in range(_k1))
                                                    or (cc == c and ((i, j) in _done2 or (j, i) in _done2)))})


@contract("sempler.utils.moral_graph")
def moral_graph(A: Arr2) -> Arr2i:
    requires(graph(A))
    ensures(same_array(result, array_of(len(A), len(A), lambda i, j: 1 if (adjacent(A, i, j) or (i != j and any(dedge(A, i, c) and dedge(A, j, c) for c in range(len(A))))) else 0, kind='int')))
    fresh(result)


@invariant("sempler.utils.moral_graph", loop=1)
def _moral(moral, A):
    holds(same_array(moral, array_of(len(A), len(A), lambda i, j: 1 if (adjacent(A, i, j) or any(((i, c, j) in _done or (j, c, i) in _done) for c in range(len(A)))) else 0, kind='int')))


@contract("sempler.utils.degrees")
def degrees(A: Arr2) -> Arr1i:
    requires(graph(A))
    ensures(same_array(result, array_of(len(A), lambda j: count(len(A), lambda i: adjacent(A, i, j)), kind='int')))
    fresh(result)


@contract("sempler.utils.is_clique")
def is_clique(S: SetOf(Int), A: Arr2) -> Bool:
    requires(graph(A), all(node(s, A) for s in S))
    ensures(result == all(adjacent(A, a, b) for a in S for b in S if a != b))


@contract("sempler.utils.is_complete")
def is_complete(P: Arr2) -> Bool:
    requires(graph(P))
    ensures(result == all(adjacent(P, a, b) for a in range(len(P)) for b in range(len(P)) if a != b))


@spec
def n_edges(A):
    return count(len(A), len(A), lambda i, j: A[i, j] != 0)
