"""C02: sempler.anm.ANM.sample - every row satisfies the structural assignments.

User callables are opaque.  The k-th variable's assignment / noise / intervention callables are logged as ghost
functions of k:  call_ncols(k), call_col(k, c)  (which column of X the c-th argument column was),  call_arg(k, r, c)
(the argument the assignment received),  call_ret(k, r)  (what it returned, broadcast over rows),  draw(kind, k, r).
The bounded harness vkb.c02 checks the same statement with recording callables on the real code.
"""
from vk.dsl import *   # noqa: F401,F403


@spec
def anm_ok(m):
    return (m.p == len(m.A) and square(m.A) and len(m.assignments) == m.p and len(m.noise_distributions) == m.p
            and all(u in m.ordering for u in range(m.p)) and distinct(m.ordering)
            and all(node(m.ordering[k], m.A) for k in range(len(m.ordering)))
            and all(implies(m.A[m.ordering[k], m.ordering[k2]] != 0, k < k2) for k in range(len(m.ordering)) for k2 in range(len(m.ordering))))


@spec
def noise_term(j, r, shift, noise_iv):
    """original noise + shift | new noise | original noise  (shift takes precedence over a noise intervention in this class)"""
    return (draw('noise', j, r) + draw('shift', j, r)) if j in shift else (draw('newnoise', j, r) if j in noise_iv else draw('noise', j, r))


@spec
def eq_holds(X, A, n, j, do, shift, noise_iv):
    """the structural equation of variable j on the rows of X"""
    return (all(X[r, j] == draw('do', j, r) for r in range(n)) if j in do else
            (all(X[r, j] == call_ret(j, r) + noise_term(j, r, shift, noise_iv) for r in range(n))
             # the assignment received exactly one column per parent, in increasing variable index, holding the sampled parent values
             and call_ncols(j) >= 0
             and all(0 <= call_col(j, c) and call_col(j, c) < len(A) and A[call_col(j, c), j] != 0 for c in range(call_ncols(j)))
             and all(implies(c < c2, call_col(j, c) < call_col(j, c2)) for c in range(call_ncols(j)) for c2 in range(call_ncols(j)))
             and all(implies(A[s, j] != 0, any(call_col(j, c) == s for c in range(call_ncols(j)))) for s in range(len(A)))
             and all(call_arg(j, r, c) == X[r, call_col(j, c)] for r in range(n) for c in range(call_ncols(j)))))


@contract("sempler.anm.ANM.sample", cases={'do_interventions': ['dictcall:do'], 'shift_interventions': ['dictcall:shift'], 'noise_interventions': ['dictcall:newnoise'],
                                           'random_state': ['none', 'int'], 'assign_shape': ['vec', 'col', 'scalar']},
          quick_cases=[{'do_interventions': 'dictcall:do', 'shift_interventions': 'dictcall:shift', 'noise_interventions': 'dictcall:newnoise', 'random_state': 'int', 'assign_shape': 'vec'},
                       {'do_interventions': 'dictcall:do', 'shift_interventions': 'dictcall:shift', 'noise_interventions': 'dictcall:newnoise', 'random_state': 'none', 'assign_shape': 'col'}],
          self_from_init=True)
def anm_sample(self: Obj('sempler.anm.ANM', p=Int, A=Arr2, ordering=ListOf(Int), assignments=Callables('assign'), noise_distributions=Callables('noise')), n: Int) -> Arr2:
    requires(anm_ok(self), n >= 0,
             all(0 <= t and t < self.p for t in do_interventions), all(0 <= t and t < self.p for t in shift_interventions),
             all(0 <= t and t < self.p for t in noise_interventions))
    ensures(result.shape[0] == n and result.shape[1] == self.p)
    ensures(all(eq_holds(result, self.A, n, j, do_interventions, shift_interventions, noise_interventions) for j in range(self.p)))
    # C13: before the first draw the global generator has been reseeded with the given seed (every int, 0 included) or left alone (None)
    check(global_is(global_state() if random_state is None else global_seeded(random_state)), at='before:zeros')
    modifies(np.random)
    fresh(result)


@invariant("sempler.anm.ANM.sample", loop=1)
def _anm_loop(X, self, n, do_interventions, shift_interventions, noise_interventions):
    holds(X.shape[0] == n and X.shape[1] == self.p,
          all(eq_holds(X, self.A, n, self.ordering[m], do_interventions, shift_interventions, noise_interventions) for m in range(_k1)))


@contract("sempler.anm.ANM.__init__")
def anm_init(self: Obj('sempler.anm.ANM'), A: Arr2, assignments: Callables('assign'), noise_distributions: Callables('noise')):
    requires(square(A), len(assignments) == len(A), len(noise_distributions) == len(A))
    raises(ValueError, when=not acyclic(A))
    modifies(self)
    establishes(p=len(A), A=array_of(len(A), len(A), lambda i, j: A[i, j]))
    # the stored ordering is a topological order of the stored graph (class invariant that sample relies on)
    ensures(all(u in self.ordering for u in range(len(A))), distinct(self.ordering),
            all(node(self.ordering[k], A) for k in range(len(self.ordering))),
            all(implies(A[self.ordering[k], self.ordering[k2]] != 0, k < k2) for k in range(len(self.ordering)) for k2 in range(len(self.ordering))),
            len(self.assignments) == len(A), len(self.noise_distributions) == len(A))
    # the callables are the model's own deep copies (stateful callable objects must not stay shared with the caller)
    ensures(own_copies(self.assignments, assignments), own_copies(self.noise_distributions, noise_distributions))
    fresh(self.A, self.assignments, self.noise_distributions)
