"""C14 (frames / freshness) for the small public helpers of sempler.utils that no other property anchors:
each leaves its arguments untouched and returns an object of its own."""
from vk.dsl import *   # noqa: F401,F403


@contract("sempler.utils.is_supergraph")
def is_supergraph(sup: Arr2, A: Arr2) -> Bool:
    requires(square(sup), square(A), len(sup) == len(A), binary(A))
    # every edge of A is an edge of sup
    ensures(result == all(implies(A[i, j] != 0, sup[i, j] != 0) for i in range(len(A)) for j in range(len(A))))


@contract("sempler.utils.sampling_matrix")
def sampling_matrix(W: Arr2) -> Arr2:
    requires(square(W), acyclic(W))
    # L-UNITRI (cited): I - W^T is non-singular for a DAG W
    hint(unitri_nonsingular(W), at='before:inv')
    ensures(same_array(result, inverse(identity(len(W)) - transpose(W))))
    fresh(result)


@contract("sempler.utils.nonzero")
def nonzero(A: Arr1) -> Arr1i:
    requires(len(A.shape) == 1)
    fresh(result)
