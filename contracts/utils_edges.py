"""C18: sempler.utils.remove_edges / add_edges."""
from vk.dsl import *   # noqa: F401,F403


@contract("sempler.utils.remove_edges", cases={'random_state': ['int']})
def remove_edges(A: Arr2, no_edges: Int) -> Arr2i:
    requires(square(A), acyclic(A), no_edges >= 0)
    raises(ValueError, when=no_edges > n_edges(A))
    # a 0/1 subgraph of the input pattern with exactly no_edges edges fewer
    ensures(result.shape[0] == len(A) and result.shape[1] == len(A), binary(result),
            all(implies(result[i, j] != 0, A[i, j] != 0) for i in range(len(A)) for j in range(len(A))),
            n_edges(result) == n_edges(A) - no_edges)
    reproducible(private=True, nondegenerate=False)
    fresh(result)


@invariant("sempler.utils.remove_edges", loop=1)
def _rm(pruned, A, no_edges):
    holds(pruned.shape[0] == len(A) and pruned.shape[1] == len(A), binary(pruned),
          all(implies(pruned[i, j] != 0, entry_A[i, j] != 0) for i in range(len(A)) for j in range(len(A))),
          n_edges(pruned) == n_edges(entry_A) - _k1,
          # the edges still to be removed are present (the chosen rows are pairwise different edges)
          all(pruned[_iter1[m][0], _iter1[m][1]] != 0 for m in range(_k1, len(_iter1))),
          all(implies(m != m2, _iter1[m][0] != _iter1[m2][0] or _iter1[m][1] != _iter1[m2][1]) for m in range(len(_iter1)) for m2 in range(len(_iter1))),
          all(0 <= _iter1[m][0] and _iter1[m][0] < len(A) and 0 <= _iter1[m][1] and _iter1[m][1] < len(A) for m in range(len(_iter1))))
    hint(count_change(len(A), len(A), lambda i, j: head_pruned[i, j] != 0, lambda i, j: pruned[i, j] != 0, fro, to))


@contract("sempler.utils.add_edges", cases={'random_state': ['int']})
def add_edges(A: Arr2, no_edges: Int) -> Arr2i:
    requires(square(A), acyclic(A), no_edges >= 0)
    let(E=n_edges(A))
    raises(ValueError, when=2 * no_edges > len(A) * (len(A) - 1) - 2 * E)
    # that the final assertion never fires (every feasible request succeeds) needs a graph lemma that is not mechanised:
    # it is decided by the bounded harness vkb.c18 only; here the AssertionError outcome is merely allowed
    raises(AssertionError, may=True)
    hint(consecutive_even(len(A)), acyclic_if_ranked(A, lambda u: rank(old(A), u)), at='before:default_rng')
    lemma(A.sum() == E, 2 * can_add == len(A) * (len(A) - 1) - 2 * E, supergraph.sum() == n_edges(supergraph))
    # an acyclic 0/1 supergraph of the input pattern with exactly no_edges more edges
    ensures(result.shape[0] == len(A) and result.shape[1] == len(A), binary(result),
            all(implies(A[i, j] != 0, result[i, j] != 0) for i in range(len(A)) for j in range(len(A))),
            acyclic(result),
            n_edges(result) == E + no_edges)
    reproducible(private=True, nondegenerate=False)
    fresh(result)


@invariant("sempler.utils.add_edges", loop=1)
def _add(supergraph, A, i, edges):
    holds(supergraph.shape[0] == len(A) and supergraph.shape[1] == len(A), binary(supergraph),
          all(implies(A[a, b] != 0, supergraph[a, b] != 0) for a in range(len(A)) for b in range(len(A))),
          acyclic(supergraph), i >= 0)
