"""C01 (and the LGANM part of C04/C13/C14): sempler.lganm."""
from vk.dsl import *   # noqa: F401,F403


@spec
def iv_ok(v):
    return (isinstance(v, tuple) and len(v) == 2) or type(v) in [float, int]


@spec
def iv_mean(v):
    return v[0] if isinstance(v, tuple) else v


@spec
def iv_var(v):          # a scalar parameter is a point mass
    return v[1] if isinstance(v, tuple) else 0


@spec
def has(d, t):
    return d is not None and t in d


@spec
def keys_ok(d, p):
    return d is None or (all(0 <= t and t < p for t in d) and all(iv_ok(d[t]) for t in d))


@spec
def lganm_ok(m):
    return (m.p == len(m.W) and square(m.W) and len(m.means.shape) == 1 and len(m.means) == m.p
            and len(m.variances.shape) == 1 and len(m.variances) == m.p and acyclic(m.W))


@spec
def intervened_W(m, do):
    """a do-target loses its incoming edges"""
    return array_of(m.p, m.p, lambda s, t: 0.0 if has(do, t) else m.W[s, t])


@spec
def intervened_means(m, do, noise, shift):
    """do overrides noise overrides shift"""
    return array_of(m.p, lambda t: iv_mean(do[t]) if has(do, t) else (iv_mean(noise[t]) if has(noise, t)
                                                                   else (m.means[t] + iv_mean(shift[t]) if has(shift, t) else m.means[t])))


@spec
def intervened_variances(m, do, noise, shift):
    return array_of(m.p, lambda t: iv_var(do[t]) if has(do, t) else (iv_var(noise[t]) if has(noise, t)
                                                                  else (m.variances[t] + iv_var(shift[t]) if has(shift, t) else m.variances[t])))


@contract("sempler.lganm._parse_interventions")
def parse_interventions(interventions_dict: DictIv) -> Arr2:
    requires(len(interventions_dict) > 0)
    raises(ValueError, when=any(not iv_ok(interventions_dict[t]) for t in interventions_dict))
    let(keys=list(interventions_dict))
    # one row [target, mean, variance] per key (scalar parameter: variance 0)
    ensures(defines(result, array_of(len(keys), 3, lambda k, c: keys[k] if c == 0 else (iv_mean(interventions_dict[keys[k]]) if c == 1
                                                                                       else iv_var(interventions_dict[keys[k]])))))
    fresh(result)


@invariant("sempler.lganm._parse_interventions", loop=1)
def _parse_inv(interventions, interventions_dict):
    declare(interventions=ListOf(ListOf(Real)))
    # one row per key already visited, in iteration order; no malformed value among them
    holds(len(interventions) == _k1,
          all(len(interventions[k]) == 3 for k in range(_k1)),
          all(iv_ok(_iter1[k][1]) for k in range(_k1)),
          all(interventions[k][0] == _iter1[k][0] and interventions[k][1] == iv_mean(_iter1[k][1]) and interventions[k][2] == iv_var(_iter1[k][1])
              for k in range(_k1)))


LG = "Obj('sempler.lganm.LGANM', p=Int, W=Arr2, means=Arr1, variances=Arr1)"


@contract("sempler.lganm.LGANM.sample", cases={'init': [0, 1], 'population': [True, False], 'do_interventions': ['dict', 'none'], 'shift_interventions': ['dict', 'none'],
                                               'noise_interventions': ['dict', 'none'], 'random_state': ['none', 'int']},
          quick_cases=[{'population': True, 'do_interventions': 'dict', 'shift_interventions': 'dict', 'noise_interventions': 'dict', 'random_state': 'none'},
                       {'population': True, 'do_interventions': 'none', 'shift_interventions': 'none', 'noise_interventions': 'none', 'random_state': 'none'},
                       {'population': True, 'do_interventions': 'dict', 'shift_interventions': 'none', 'noise_interventions': 'none', 'random_state': 'none'},
                       {'population': True, 'do_interventions': 'none', 'shift_interventions': 'dict', 'noise_interventions': 'dict', 'random_state': 'none'},
                       {'population': False, 'do_interventions': 'dict', 'shift_interventions': 'none', 'noise_interventions': 'dict', 'random_state': 'int'},
                       {'population': False, 'do_interventions': 'none', 'shift_interventions': 'none', 'noise_interventions': 'none', 'random_state': 'none'},
                       # integer-typed model arrays: parameters must be honoured exactly whatever the dtype
                       {'init': 1, 'population': True, 'do_interventions': 'dict', 'shift_interventions': 'dict', 'noise_interventions': 'none', 'random_state': 'none'}],
          # integer-typed models (init=1) differ only in the float copies taken at the top of the function: four combinations suffice
          restrict=[{'init': 1}, [{'do_interventions': 'dict', 'shift_interventions': 'dict', 'noise_interventions': 'dict', 'random_state': 'none'},
                                  {'do_interventions': 'none', 'shift_interventions': 'none', 'noise_interventions': 'none', 'random_state': 'int'}]],
          self_from_init=True, init_case=[{'means': 'arr1', 'variances': 'arr1', 'random_state': 'none'}, {'means': 'arr1i', 'variances': 'arr1i', 'random_state': 'none'}])
def lganm_sample(self: Obj('sempler.lganm.LGANM', p=Int, W=Arr2, means=Arr1, variances=Arr1), n: Int):
    requires(lganm_ok(self), n >= 0, keys_ok(do_interventions, self.p), keys_ok(shift_interventions, self.p), keys_ok(noise_interventions, self.p))
    let(Wp=intervened_W(self, do_interventions),
        mu=intervened_means(self, do_interventions, noise_interventions, shift_interventions),
        var=intervened_variances(self, do_interventions, noise_interventions, shift_interventions))
    let(Mm=identity(self.p) - transpose(Wp))
    # population setting: the returned law solves the intervened structural equations
    #   (I - W'^T) mean = mu'   and   (I - W'^T) cov (I - W'^T)^T = diag(var')
    ensures(implies(population, result.p == self.p))
    ensures(implies(population, same_array(matmul(Mm, result.mean), mu)))
    ensures(implies(population, same_array(matmul(matmul(Mm, result.covariance), transpose(Mm)), diag_of(var))))
    # finite samples (C04): numpy's multivariate normal applied to exactly that population law (witness: the local `distribution`)
    ensures_exists(implies(not population,
                           same_array(matmul(Mm, distribution.mean), mu)
                           and same_array(matmul(matmul(Mm, distribution.covariance), transpose(Mm)), diag_of(var))
                           and same_array(result, g_mvn(global_state() if random_state is None else global_seeded(random_state), distribution.mean, distribution.covariance, n)[0])
                           and result.shape[0] == n and result.shape[1] == self.p))
    witness(distribution=population_law(self, do_interventions, noise_interventions, shift_interventions))
    hint(acyclic_if_ranked(W, lambda u: rank(self.W, u)), unitri_nonsingular(W), at='before:inv')
    # ghost assertions: the working copies hold exactly the intervened parameters (the override logic), then the algebra
    lemma(same_array(W, Wp), same_array(means, mu), same_array(variances, var))
    lemma(same_matrix(identity(self.p) - transpose(W), Mm))
    lemma(same_matrix(matmul(Mm, A), identity(self.p)), same_matrix(matmul(transpose(A), transpose(Mm)), identity(self.p)))
    lemma(same_matrix(matmul(Mm, mean), means))
    lemma(same_matrix(matmul(Mm, covariance), matmul(diag_of(variances), transpose(A))),
          same_matrix(matmul(matmul(Mm, covariance), transpose(Mm)), diag_of(variances)),
          same_matrix(diag_of(variances), diag_of(var)))
    lemma(same_matrix(distribution.mean, mean), same_matrix(distribution.covariance, covariance))
    lemma(same_matrix(matmul(Mm, distribution.mean), means), same_matrix(means, mu))
    lemma(same_matrix(matmul(matmul(Mm, distribution.covariance), transpose(Mm)), diag_of(var)))
    reproducible(when=not population)
    fresh(result)


@spec
def population_law(m, do, noise, shift):
    """concrete witness only (numpy): the Gaussian solving the intervened equations"""
    return nd_of(solve(identity(m.p) - transpose(intervened_W(m, do)), intervened_means(m, do, noise, shift)),
                 matmul(matmul(inverse(identity(m.p) - transpose(intervened_W(m, do))), diag_of(intervened_variances(m, do, noise, shift))),
                        transpose(inverse(identity(m.p) - transpose(intervened_W(m, do))))))


@spec
def param_bad(v, p):
    return not ((isinstance(v, tuple) and len(v) == 2) or (is_ndarray(v) and len(v) == p))


@spec
def in_draw_range(x, lo, hi):
    return (lo <= x and x < hi) if lo < hi else ((x == lo) if lo == hi else (hi < x and x <= lo))


@contract("sempler.lganm.LGANM.__init__", cases={'means': ['rpair', 'arr1'], 'variances': ['rpair', 'arr1'], 'random_state': ['none', 'int']})
def lganm_init(self: Obj('sempler.lganm.LGANM'), W: Arr2):
    requires(square(W))
    raises(ValueError, when=not acyclic(W) or param_bad(variances, len(W)) or param_bad(means, len(W)))
    modifies(self)
    establishes(p=len(W), W=array_of(len(W), len(W), lambda i, j: W[i, j]))
    # explicit arrays are copied; (low, high) ranges are drawn inside the range, one value per variable
    ensures(len(self.variances) == len(W), len(self.means) == len(W))
    ensures(implies(is_ndarray(variances), same_array(self.variances, variances)), implies(is_ndarray(means), same_array(self.means, means)))
    ensures(implies(isinstance(variances, tuple), all(in_draw_range(self.variances[i], variances[0], variances[1]) for i in range(len(W)))),
            implies(isinstance(means, tuple), all(in_draw_range(self.means[i], means[0], means[1]) for i in range(len(W)))))
    # with a seed the draws are the first (variances) and next (means) uniform draws of default_rng(seed)
    ensures(implies(random_state is not None and isinstance(variances, tuple),
                    same_array(self.variances, rng_uniform(rng_state(random_state), variances[0], variances[1], (len(W),))[0])))
    ensures(implies(random_state is not None and isinstance(means, tuple) and isinstance(variances, tuple),
                    same_array(self.means, rng_uniform(rng_uniform(rng_state(random_state), variances[0], variances[1], (len(W),))[1], means[0], means[1], (len(W),))[0])))
    ensures(implies(random_state is not None and isinstance(means, tuple) and is_ndarray(variances),
                    same_array(self.means, rng_uniform(rng_state(random_state), means[0], means[1], (len(W),))[0])))
    reproducible(self.variances, self.means, private=True, when=isinstance(variances, tuple) or isinstance(means, tuple))
    fresh(self.W, self.variances, self.means)
