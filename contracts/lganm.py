"""C01 (and the LGANM part of C04/C13/C14): sempler.lganm."""
from vk.dsl import *   # noqa: F401,F403


@spec
def iv_ok(v):
    return (isinstance(v, tuple) and len(v) == 2) or type(v) in [float, int]


@spec
def iv_mean(v):
    return v[0] if isinstance(v, tuple) else v


@spec
def iv_var(v):          # a scalar parameter is a point mass
    return v[1] if isinstance(v, tuple) else 0


@spec
def has(d, t):
    return d is not None and t in d


@spec
def keys_ok(d, p):
    return d is None or (all(0 <= t and t < p for t in d) and all(iv_ok(d[t]) for t in d))


@spec
def lganm_ok(m):
    return (m.p == len(m.W) and square(m.W) and len(m.means.shape) == 1 and len(m.means) == m.p
            and len(m.variances.shape) == 1 and len(m.variances) == m.p and acyclic(m.W))


@spec
def intervened_W(m, do):
    """a do-target loses its incoming edges"""
    return array_of(m.p, m.p, lambda s, t: 0.0 if has(do, t) else m.W[s, t])


@spec
def intervened_means(m, do, noise, shift):
    """do overrides noise overrides shift"""
    return array_of(m.p, lambda t: iv_mean(do[t]) if has(do, t) else (iv_mean(noise[t]) if has(noise, t)
                                                                   else (m.means[t] + iv_mean(shift[t]) if has(shift, t) else m.means[t])))


@spec
def intervened_variances(m, do, noise, shift):
    return array_of(m.p, lambda t: iv_var(do[t]) if has(do, t) else (iv_var(noise[t]) if has(noise, t)
                                                                  else (m.variances[t] + iv_var(shift[t]) if has(shift, t) else m.variances[t])))


@contract("sempler.lganm._parse_interventions")
def parse_interventions(interventions_dict: DictIv) -> Arr2:
    requires(len(interventions_dict) > 0)
    raises(ValueError, when=any(not iv_ok(interventions_dict[t]) for t in interventions_dict))
    let(keys=list(interventions_dict))
    # one row [target, mean, variance] per key (scalar parameter: variance 0)
    ensures(defines(result, array_of(len(keys), 3, lambda k, c: keys[k] if c == 0 else (iv_mean(interventions_dict[keys[k]]) if c == 1
                                                                                       else iv_var(interventions_dict[keys[k]])))))
    fresh(result)


LG = "Obj('sempler.lganm.LGANM', p=Int, W=Arr2, means=Arr1, variances=Arr1)"


@contract("sempler.lganm.LGANM.sample", cases={'population': [True], 'do_interventions': ['dict', 'none'], 'shift_interventions': ['dict', 'none'],
                                               'noise_interventions': ['dict', 'none'], 'random_state': ['none']})
def lganm_sample_population(self: Obj('sempler.lganm.LGANM', p=Int, W=Arr2, means=Arr1, variances=Arr1)) -> Obj('sempler.normal_distribution.NormalDistribution', p=Int, mean=Arr1, covariance=Arr2):
    requires(lganm_ok(self), keys_ok(do_interventions, self.p), keys_ok(shift_interventions, self.p), keys_ok(noise_interventions, self.p))
    let(Wp=intervened_W(self, do_interventions),
        mu=intervened_means(self, do_interventions, noise_interventions, shift_interventions),
        var=intervened_variances(self, do_interventions, noise_interventions, shift_interventions))
    let(Mm=identity(self.p) - transpose(Wp))
    # the returned law solves the intervened structural equations:  (I - W'^T) mean = mu'   and   (I - W'^T) cov (I - W'^T)^T = diag(var')
    ensures(result.p == self.p,
            same_array(matmul(Mm, result.mean), mu),
            same_array(matmul(matmul(Mm, result.covariance), transpose(Mm)), diag_of(var)))
    hint(acyclic_if_ranked(W, lambda u: rank(self.W, u)), unitri_nonsingular(W), at='before:inv')
    fresh(result)
