"""C13 - seeded calls are reproducible regardless of history.

    cd /repo && PYTHONPATH=/repo:/verif/fake_rpy2:/verif /venv/bin/python -m vkb.c13 quick|thorough <seed>
    cd /repo && PYTHONPATH=/repo:/verif/fake_rpy2:/verif /venv/bin/python -m vkb.c13 replay <file>

The oracle is the property itself: byte-wise equality (dtype, shape, bytes) of
the results of identical seeded calls separated by checker-chosen histories of
reseeding / drawing from numpy's global generator, fresh generators and other
seeded library calls; inequality for unseeded calls and across seeds.
"""
import random

import numpy as np

from . import common as C

HARNESS = "vkb.c13"
S = C.load_sempler()
U = S.utils
G = S.generators
SEEDS = (0, 1, 42, 2 ** 32 - 1)
ALT_SEEDS = (0, 1, 42, 7, 2 ** 32 - 1)

# ----------------------------------------------------------------------------
# the APIs: run(args, random_state) -> result (models are rebuilt from the JSON-able args)


def _noise(spec):
    kind = spec[0]
    return {"normal": S.noise.normal, "uniform": S.noise.uniform, "laplace": S.noise.laplace}[kind](*spec[1:])


def _lin(w):
    w = np.array(w, dtype=float)
    return lambda x: x @ w


def _assignments(A):
    A = np.asarray(A)
    return [None if not (A[:, i] != 0).any() else (_lin(A[A[:, i] != 0, i]) if i % 2 else (lambda x: np.sin(x).sum(axis=1))) for i in range(len(A))]


def _anm(args):
    A = np.asarray(args["A"])
    return S.ANM(A, _assignments(A), [_noise(s) for s in args["noise"]])


def _interv(args, name):
    d = args.get(name)
    return d if d is not None else {}


def run_lganm_init(args, rs):
    lg = S.LGANM(np.asarray(args["W"]), args["means"], args["variances"], random_state=rs)
    return [lg.W, lg.means, lg.variances]


def run_lganm_sample(args, rs, model=None):
    lg = model or S.LGANM(np.asarray(args["W"]), np.asarray(args["means"]), np.asarray(args["variances"]))
    return lg.sample(args["n"], do_interventions=_interv(args, "do"), shift_interventions=_interv(args, "shift"),
                     noise_interventions=_interv(args, "noise"), random_state=rs)


def run_nd_sample(args, rs, model=None):
    d = model or S.NormalDistribution(args["mean"], args["covariance"])
    return d.sample(args["n"], random_state=rs)


def run_anm_sample(args, rs, model=None):
    anm = model or _anm(args)
    mk = lambda d: {k: _noise(v) for k, v in (d or {}).items()}        # noqa: E731
    return anm.sample(args["n"], do_interventions=mk(args.get("do")), shift_interventions=mk(args.get("shift")),
                      noise_interventions=mk(args.get("noise_int")), random_state=rs)


def run_dag_avg_deg(args, rs):
    return G.dag_avg_deg(args["p"], args["k"], args.get("w_min", 1), args.get("w_max", 1), return_ordering=args.get("return_ordering", False), random_state=rs)


def run_dag_full(args, rs):
    return G.dag_full(args["p"], args.get("w_min", 1), args.get("w_max", 1), return_ordering=args.get("return_ordering", False), random_state=rs)


def run_targets(args, rs):
    return G.intervention_targets(args["p"], args["K"], args["size"], replace=args["replace"], random_state=rs)


def _data(sizes):
    return [np.arange(3 * n, dtype=float).reshape(n, 3) + 1000 * e for e, n in enumerate(sizes)]


def run_split(args, rs):
    return U.split_data(_data(args["sizes"]), args["ratios"], random_state=rs)


def run_add(args, rs):
    return U.add_edges(np.asarray(args["A"]), args["no_edges"], random_state=rs)


def run_remove(args, rs):
    return U.remove_edges(np.asarray(args["A"]), args["no_edges"], random_state=rs)


MODELS = {"sempler.LGANM.sample": lambda a: S.LGANM(np.asarray(a["W"]), np.asarray(a["means"]), np.asarray(a["variances"])),
          "sempler.NormalDistribution.sample": lambda a: S.NormalDistribution(a["mean"], a["covariance"]),
          "sempler.ANM.sample": _anm}

APIS = {"sempler.LGANM.__init__": run_lganm_init, "sempler.LGANM.sample": run_lganm_sample,
        "sempler.NormalDistribution.sample": run_nd_sample, "sempler.ANM.sample": run_anm_sample,
        "sempler.generators.dag_avg_deg": run_dag_avg_deg, "sempler.generators.dag_full": run_dag_full,
        "sempler.generators.intervention_targets": run_targets, "sempler.utils.split_data": run_split,
        "sempler.utils.add_edges": run_add, "sempler.utils.remove_edges": run_remove}

# APIs for which the property demands that unseeded consecutive calls differ
UNSEEDED = ("sempler.LGANM.sample", "sempler.NormalDistribution.sample", "sempler.ANM.sample",
            "sempler.generators.dag_avg_deg", "sempler.generators.intervention_targets")

# ----------------------------------------------------------------------------
# argument settings   (api, args, non-degenerate?)


def chain(p, w=1.0):
    W = np.zeros((p, p))
    for i in range(p - 1):
        W[i, i + 1] = w * (-1) ** i
    if p >= 3:
        W[0, p - 1] = 0.5
    return W


def full(p):
    return np.triu(np.ones((p, p), dtype=int), k=1)


def settings():
    out = []
    for p in (1, 2, 5):
        W = chain(p, 1.5)
        out.append(("sempler.LGANM.__init__", {"W": W, "means": (0, 1), "variances": (1, 2)}, True))
        out.append(("sempler.LGANM.__init__", {"W": W, "means": (-2.5, 3.5), "variances": np.ones(p)}, True))
        out.append(("sempler.LGANM.__init__", {"W": W.astype(int), "means": np.zeros(p), "variances": (0.5, 0.75)}, True))
        for n in (1, 10):
            out.append(("sempler.LGANM.sample", {"W": W, "means": np.arange(p, dtype=float), "variances": np.full(p, 0.5), "n": n}, True))
            out.append(("sempler.LGANM.sample", {"W": W, "means": np.arange(p), "variances": np.arange(1, p + 1), "n": n,
                                                 "do": {0: (1.5, 2.0)}, "shift": {p - 1: (0.5, 0.25)}, "noise": {p // 2: (1, 3)}}, True))
            out.append(("sempler.LGANM.sample", {"W": W, "means": np.zeros(p), "variances": np.ones(p), "n": n, "do": {p - 1: 2.5}, "shift": None, "noise": {}}, p > 1))
            B = np.tril(np.ones((p, p))) * 0.5 + np.eye(p)
            out.append(("sempler.NormalDistribution.sample", {"mean": np.linspace(-1, 1, p), "covariance": B @ B.T, "n": n}, True))
            out.append(("sempler.NormalDistribution.sample", {"mean": np.zeros(p), "covariance": np.ones((p, p)), "n": n}, True))      # singular
            noises = [("normal", 0, 1), ("uniform", -1, 2), ("laplace", 0.5, 2)]
            for shiftk in range(3):
                nz = [noises[(i + shiftk) % 3] for i in range(p)]
                out.append(("sempler.ANM.sample", {"A": W, "noise": nz, "n": n}, True))
            out.append(("sempler.ANM.sample", {"A": full(p), "noise": [("normal", 1, 4)] * p, "n": n, "do": {0: ("uniform", 2, 3)},
                                               "shift": {p - 1: ("laplace", 0, 1)}, "noise_int": {p // 2: ("normal", 5, 0.25)}}, True))
        for ro in (False, True):
            out.append(("sempler.generators.dag_full", {"p": p, "w_min": 0.5, "w_max": 2.0, "return_ordering": ro}, p >= 2))
            out.append(("sempler.generators.dag_full", {"p": p, "return_ordering": ro}, p >= 5))
    out.append(("sempler.NormalDistribution.sample", {"mean": 0, "covariance": 1, "n": 10}, True))
    out.append(("sempler.NormalDistribution.sample", {"mean": 2.5, "covariance": 0.25, "n": 1}, True))
    out.append(("sempler.NormalDistribution.sample", {"mean": [1.0], "covariance": [[4.0]], "n": 10}, True))
    # the non-degeneracy flag is only set where a chance coincidence has negligible probability
    for p in (2, 4, 5, 8):
        for ro in (False, True):
            out.append(("sempler.generators.dag_avg_deg", {"p": p, "k": min(2, p - 1), "w_min": 0.5, "w_max": 2.0, "return_ordering": ro}, p >= 4))
            out.append(("sempler.generators.dag_avg_deg", {"p": p, "k": 1.5 if p > 2 else 0.5, "return_ordering": ro}, p >= 8))
    for replace in (True, False):
        out.append(("sempler.generators.intervention_targets", {"p": 30, "K": 8, "size": 3, "replace": replace}, True))
        out.append(("sempler.generators.intervention_targets", {"p": 30, "K": 5, "size": (1, 4), "replace": replace}, True))
        out.append(("sempler.generators.intervention_targets", {"p": 10, "K": 5, "size": 1, "replace": replace}, False))
        out.append(("sempler.generators.intervention_targets", {"p": 10, "K": 3, "size": (1, 3), "replace": replace}, False))
        out.append(("sempler.generators.intervention_targets", {"p": 5, "K": 2, "size": 2, "replace": replace}, False))
        out.append(("sempler.generators.intervention_targets", {"p": 6, "K": 2, "size": (0, 3), "replace": replace}, False))
        out.append(("sempler.generators.intervention_targets", {"p": 2, "K": 1, "size": 1, "replace": replace}, False))
        out.append(("sempler.generators.intervention_targets", {"p": 1, "K": 1, "size": 1, "replace": replace}, False))
    out.append(("sempler.utils.split_data", {"sizes": [10], "ratios": [0.5, 0.5]}, True))
    out.append(("sempler.utils.split_data", {"sizes": [1, 11, 20], "ratios": [0.7, 0.2, 0.1]}, True))
    out.append(("sempler.utils.split_data", {"sizes": [1], "ratios": [1.0]}, False))
    out.append(("sempler.utils.add_edges", {"A": np.zeros((5, 5), dtype=int), "no_edges": 3}, True))
    out.append(("sempler.utils.add_edges", {"A": chain(5), "no_edges": 2}, True))
    out.append(("sempler.utils.add_edges", {"A": chain(2), "no_edges": 0}, False))
    out.append(("sempler.utils.add_edges", {"A": np.zeros((1, 1)), "no_edges": 0}, False))
    out.append(("sempler.utils.remove_edges", {"A": full(5), "no_edges": 3}, True))
    out.append(("sempler.utils.remove_edges", {"A": chain(5), "no_edges": 2}, False))
    out.append(("sempler.utils.remove_edges", {"A": chain(2), "no_edges": 1}, False))
    return out


SETTINGS = settings()

# ----------------------------------------------------------------------------
# histories: JSON-able lists of operations executed between the two identical calls


def do_history(history):
    for op in history:
        kind = op[0]
        if kind == "np.seed":
            np.random.seed(op[1])
        elif kind == "np.draw":
            getattr(np.random, op[1])(size=op[2])
        elif kind == "default_rng":
            np.random.default_rng(op[1]).uniform(size=3)
        elif kind == "lib":
            api, args, rs = SETTINGS[op[1]][0], SETTINGS[op[1]][1], op[2]
            C.call(APIS[api], args, rs)


BASE_HISTORY = [["np.seed", 123], ["np.draw", "normal", 7], ["default_rng", None]]


def random_history(rng, length):
    out = []
    for _ in range(length):
        r = rng.random()
        if r < 0.2:
            out.append(["np.seed", rng.choice((0, 1, 42, 123, 999, 2 ** 32 - 1))])
        elif r < 0.4:
            out.append(["np.draw", rng.choice(("normal", "uniform", "laplace", "standard_normal", "random")), rng.randrange(0, 9)])
        elif r < 0.5:
            out.append(["default_rng", rng.choice((None, 0, 42))])
        else:
            out.append(["lib", rng.randrange(len(SETTINGS)), rng.choice((None, 0, 1, 42, 5))])
    return out


def make_check(api):
    run = APIS[api]

    def check(args, random_state=0, history=None, mode="repro"):
        history = BASE_HISTORY if history is None else history
        snap = C.freeze(args)
        viols = []
        if mode == "repro":
            model = MODELS[api](args) if api in MODELS else None
            kw = {"model": model} if model is not None else {}
            st1, r1 = C.call(run, args, random_state, **kw)
            do_history(history)
            st2, r2 = C.call(run, args, random_state, **kw)       # same model object, after the history
            np.random.seed(999)
            st3, r3 = C.call(run, args, random_state)              # fresh model right after reseeding the global generator
            calls = 3
            if "exc" in (st1, st2, st3):
                bad = [r for s, r in ((st1, r1), (st2, r2), (st3, r3)) if s == "exc"][0]
                viols += C.unexpected_exception(bad, api.split("sempler.")[-1] + " with a seed")
            else:
                f1, f2, f3 = C.freeze(r1), C.freeze(r2), C.freeze(r3)
                if f1 != f2:
                    viols.append(("seeded call not reproducible after other random activity", "random_state=%s: first %s, after the history %s" % (random_state, C.short(r1, 150), C.short(r2, 150))))
                if f1 != f3:
                    viols.append(("seeded call not reproducible after np.random.seed(999)", "random_state=%s: first %s, then %s" % (random_state, C.short(r1, 150), C.short(r3, 150))))
        elif mode == "unseeded":
            do_history(history)
            st1, r1 = C.call(run, args, None)
            st2, r2 = C.call(run, args, None)
            calls = 2
            if "exc" in (st1, st2):
                viols += C.unexpected_exception(r1 if st1 == "exc" else r2, api.split("sempler.")[-1] + " without a seed")
            elif C.freeze(r1) == C.freeze(r2):
                viols.append(("unseeded consecutive calls return the same result", C.short(r1, 200)))
        else:   # seeds_differ
            res = [C.call(run, args, s) for s in ALT_SEEDS]
            calls = len(res)
            if any(s == "exc" for s, _ in res):
                viols += C.unexpected_exception([r for s, r in res if s == "exc"][0], api.split("sempler.")[-1] + " with a seed")
            elif len({C.freeze(r) for _, r in res}) == 1:
                viols.append(("the result does not depend on random_state", "seeds %s all give %s" % (list(ALT_SEEDS), C.short(res[0][1], 200))))
        if C.freeze(args) != snap:
            viols.append(("arguments modified", "args changed"))
        return calls, viols
    return check


CHECKS = {api: make_check(api) for api in APIS}


def worker(task):
    t = C.Tally(HARNESS, CHECKS)
    idxs, n_hist, hseed = task
    for idx in idxs:
        api, args, nondeg = SETTINGS[idx]
        rng = random.Random("c13-%d-%d" % (idx, hseed))
        histories = [BASE_HISTORY, [], BASE_HISTORY + [["lib", idx, 7]], BASE_HISTORY + [["lib", (idx + 17) % len(SETTINGS), None]]]
        histories += [random_history(rng, rng.randrange(1, 7)) for _ in range(n_hist)]
        for s in SEEDS:
            for h in histories:
                t.check(api, args=args, random_state=s, history=h, mode="repro")
        if nondeg:
            t.check(api, args=args, mode="seeds_differ")
            if api in UNSEEDED:
                for h in histories[:6]:
                    t.check(api, args=args, history=h, mode="unseeded")
        t.mark((idx,))
    return t.export()


def samples():
    out = []
    for idx in (0, 3, len(SETTINGS) - 3):
        api, args, _ = SETTINGS[idx]
        def lib(api=api, args=args):
            a = APIS[api](args, 0)
            do_history(BASE_HISTORY)
            b = APIS[api](args, 0)
            return {"first": C.short(a, 150), "second": C.short(b, 150), "identical": C.freeze(a) == C.freeze(b)}
        out.append({"function": api, "inputs": {"args": C.jsonable(args), "random_state": 0, "history": BASE_HISTORY}, "library": C.lib(lib), "oracle": "identical"})
    return out


def run(tier, seed):
    thorough = tier == "thorough"
    n_hist = 1000 if thorough else 60
    tally = C.Tally(HARNESS, CHECKS)
    tasks = [(ch, n_hist, seed) for ch in C.chunked(range(len(SETTINGS)), 2)]
    C.run_pool(worker, tasks, tally)
    rule = ("%d argument settings over %d APIs (LGANM constructor with (lo,hi) ranges, LGANM / NormalDistribution (incl. 1-dimensional and singular) / "
            "ANM (library normal, uniform, laplace noise; with interventions) sampling, dag_avg_deg, dag_full, intervention_targets (both replace modes, "
            "int and tuple sizes), split_data, add_edges, remove_edges; p in {1,2,5(,8,10)}, n in {1,10}) x seeds %s x %d histories (none; np.random.seed(123) + "
            "normal(size=7) + default_rng().uniform(); the same plus a seeded / unseeded library call; %d random histories of <=6 operations from "
            "{np.random.seed, global draws, fresh generators, library calls with other seeds or none}): call, history, same call on the same model, "
            "np.random.seed(999), same call on a fresh model: all three byte-identical (dtype, shape, bytes). Non-degenerate settings: seeds %s do not "
            "all give the same result; for the sampling APIs two consecutive unseeded calls differ. Arguments unchanged. non-trivial = argument setting"
            % (len(SETTINGS), len(APIS), list(SEEDS), 4 + n_hist, n_hist, list(ALT_SEEDS)))
    return C.report(tally, rule, exhaustive=False, bound="listed argument settings; histories of <=6 operations", samples=C.safe_samples(samples))


if __name__ == "__main__":
    C.main(HARNESS, CHECKS, run)
