"""Independent brute-force oracles for the bounded stand-in tier.

Nothing in this file imports or calls sempler.  Graphs on p labelled nodes are
encoded as Python ints ("codes"): bit (i*p + j) is set iff entry (i, j) of the
adjacency matrix is non-zero.  A[i,j] != 0 and A[j,i] == 0 is the directed edge
i -> j;  both non-zero is the undirected edge i - j.

Self test:   python -m vkb.oracles
"""
import itertools
import random

import numpy as np

# ----------------------------------------------------------------------------
# encoding


def bit(p, i, j):
    return 1 << (i * p + j)


def encode(M):
    """Code of the non-zero pattern of a square matrix."""
    M = np.asarray(M)
    code = 0
    for k in np.flatnonzero(M.reshape(-1) != 0):
        code |= 1 << int(k)
    return code


def decode(p, code, dtype=np.int64):
    M = np.zeros(p * p, dtype=dtype)
    c, k = code, 0
    while c:
        if c & 1:
            M[k] = 1
        c >>= 1
        k += 1
    return M.reshape(p, p)


def edges(p, code):
    """List of (i, j) with bit (i, j) set."""
    out = []
    c = code
    while c:
        low = c & -c
        out.append(divmod(low.bit_length() - 1, p))
        c ^= low
    return out


def transpose(p, code):
    t = 0
    for (i, j) in edges(p, code):
        t |= 1 << (j * p + i)
    return t


def n_edges(p, code):
    """Number of edges (an undirected edge counts once)."""
    return bin(code | transpose(p, code)).count("1") // 2


def parts(p, code):
    """(directed part, undirected part, skeleton) of a PDAG code."""
    t = transpose(p, code)
    return code & ~t, code & t, code | t


def diag_mask(p):
    m = 0
    for i in range(p):
        m |= bit(p, i, i)
    return m


# ----------------------------------------------------------------------------
# acyclicity (repeatedly strip the nodes without a remaining parent)


def acyclic(p, code):
    """True iff the digraph with an arc i->j for every set bit has no cycle
    (self-loops and 2-cycles are cycles)."""
    full = (1 << p) - 1
    chmask = [(code >> (i * p)) & full for i in range(p)]
    remaining = full
    while remaining:
        haspar = 0
        for i in range(p):
            if (remaining >> i) & 1:
                haspar |= chmask[i]
        free = remaining & ~haspar
        if not free:
            return False
        remaining &= ~free
    return True


def acyclic_dfs(p, code):
    """Second, structurally different acyclicity test (colour DFS) used only by
    the self test to cross-check `acyclic`."""
    succ = [[j for j in range(p) if (code >> (i * p + j)) & 1] for i in range(p)]
    colour = [0] * p

    def visit(v):
        colour[v] = 1
        for w in succ[v]:
            if colour[w] == 1:
                return False
            if colour[w] == 0 and not visit(w):
                return False
        colour[v] = 2
        return True

    return all(colour[v] != 0 or visit(v) for v in range(p))


def is_dag_code(p, code):
    return acyclic(p, code)


# ----------------------------------------------------------------------------
# v-structures (unshielded colliders)


def vstructs(p, code):
    """frozenset of (i, c, j), i < j, with i -> c <- j both directed and i, j
    not adjacent (neither direction)."""
    d, _, sk = parts(p, code)
    out = []
    for c in range(p):
        pars = [i for i in range(p) if (d >> (i * p + c)) & 1]
        for a in range(len(pars)):
            for b in range(a + 1, len(pars)):
                i, j = pars[a], pars[b]
                if not (sk >> (i * p + j)) & 1:
                    out.append((i, c, j))
    return frozenset(out)


# ----------------------------------------------------------------------------
# exhaustive enumeration of DAGs and the MEC table

_DAGS = {}
_TABLE = {}
TABLE_MAX_P = 5


def all_dags(p):
    """All DAGs on p labelled nodes (list of codes), by trying, for every
    unordered pair, {no edge, i->j, j->i} and keeping the acyclic ones."""
    if p not in _DAGS:
        pairs = [(i, j) for i in range(p) for j in range(i + 1, p)]
        opts = [(0, bit(p, i, j), bit(p, j, i)) for (i, j) in pairs]
        out = []
        for combo in itertools.product(*opts):
            code = 0
            for b in combo:
                code |= b
            if acyclic(p, code):
                out.append(code)
        out.sort()
        _DAGS[p] = out
    return _DAGS[p]


def mec_key(p, code):
    return (parts(p, code)[2], vstructs(p, code))


def mec_table(p):
    """dict (skeleton, v-structures) -> tuple of all DAG codes with that key."""
    if p not in _TABLE:
        tab = {}
        for g in all_dags(p):
            tab.setdefault(mec_key(p, g), []).append(g)
        _TABLE[p] = {k: tuple(v) for k, v in tab.items()}
    return _TABLE[p]


def orientations(p, base, und):
    """All codes obtained from `base` by orienting every undirected edge in
    `und` (a symmetric code) one way or the other."""
    pairs = [(i, j) for (i, j) in edges(p, und) if i < j]
    for combo in itertools.product((0, 1), repeat=len(pairs)):
        code = base
        for (i, j), c in zip(pairs, combo):
            code |= bit(p, j, i) if c else bit(p, i, j)
        yield code


def extensions_bruteforce(p, pcode):
    """Consistent extensions of the PDAG by direct search: orient the
    undirected edges in all 2^u ways, keep the acyclic results with the same
    v-structures as the PDAG (skeleton and directed edges are kept by
    construction)."""
    d, und, _ = parts(p, pcode)
    vs = vstructs(p, pcode)
    return sorted(g for g in orientations(p, d, und) if acyclic(p, g) and vstructs(p, g) == vs)


def extensions(p, pcode):
    """Consistent extensions of PDAG P: DAGs with the skeleton of P, the
    v-structures of P, and every directed edge of P."""
    if p <= TABLE_MAX_P:
        d, _, sk = parts(p, pcode)
        cands = mec_table(p).get((sk, vstructs(p, pcode)), ())
        return [g for g in cands if g & d == d]
    return extensions_bruteforce(p, pcode)


def mec_of(p, code):
    """Markov equivalence class of a DAG: same skeleton, same v-structures."""
    if p <= TABLE_MAX_P:
        return list(mec_table(p)[mec_key(p, code)])
    sk = parts(p, code)[2]
    vs = vstructs(p, code)
    return sorted(g for g in orientations(p, 0, sk) if acyclic(p, g) and vstructs(p, g) == vs)


def essential(codes):
    """Essential graph of a set of DAGs: (i,j) is 1 iff some member has i->j."""
    e = 0
    for g in codes:
        e |= g
    return e


def parents(p, code, t):
    """Parent set (as a bit mask) of node t in a DAG code."""
    m = 0
    for i in range(p):
        if (code >> (i * p + t)) & 1:
            m |= 1 << i
    return m


def imec_of(p, code, I):
    """I-MEC of (A, I): the members of A's MEC in which every target has the
    same parent set as in A."""
    I = sorted(int(t) for t in I)
    ref = [parents(p, code, t) for t in I]
    return [g for g in mec_of(p, code) if [parents(p, g, t) for t in I] == ref]


def chain_code(p):
    c = 0
    for i in range(p - 1):
        c |= bit(p, i, i + 1)
    return c


# ----------------------------------------------------------------------------
# PDAG domains


def offdiag(p):
    return [i * p + j for i in range(p) for j in range(p) if i != j]


def pdag_from_index(p, idx, _cache={}):
    """idx in range(2**(p*(p-1))) -> code of the idx-th 0/1 matrix with zero
    diagonal."""
    pos = _cache.get(p)
    if pos is None:
        pos = _cache[p] = offdiag(p)
    code = 0
    k = 0
    while idx:
        if idx & 1:
            code |= 1 << pos[k]
        idx >>= 1
        k += 1
    return code


def n_matrices(p):
    return 1 << (p * (p - 1))


def is_pdag(p, code):
    """Zero diagonal and acyclic directed part."""
    if code & diag_mask(p):
        return False
    return acyclic(p, parts(p, code)[0])


def all_pdags(p):
    return [c for c in (pdag_from_index(p, k) for k in range(n_matrices(p))) if is_pdag(p, c)]


def sample_pdags(p, n, seed):
    """Seeded sample (with varied density, duplicates removed) of PDAGs with
    acyclic directed part."""
    rng = random.Random("pdag-%d-%d" % (p, seed))
    pairs = [(i, j) for i in range(p) for j in range(i + 1, p)]
    seen = set()
    out = []
    tries = 0
    while len(out) < n and tries < 50 * n + 1000:
        tries += 1
        q = rng.choice((0.3, 0.45, 0.6, 0.75, 0.9))
        code = 0
        for (i, j) in pairs:
            if rng.random() < q:
                s = rng.randrange(3)
                if s != 1:
                    code |= bit(p, i, j)
                if s != 0:
                    code |= bit(p, j, i)
        if code in seen or not is_pdag(p, code):
            continue
        seen.add(code)
        out.append(code)
    return out


def weighted(p, code, seed, dtype=np.float64):
    """Matrix with the pattern `code` and random signed weights (deterministic
    in (seed, p, code))."""
    rng = np.random.default_rng([int(seed), p, code % (1 << 62), code >> 62])
    if np.dtype(dtype).kind == "f":
        mag = rng.uniform(0.5, 2.0, size=(p, p))
    else:
        mag = rng.integers(1, 6, size=(p, p))
    sign = rng.choice([-1, 1], size=(p, p))
    return (decode(p, code, dtype) * mag * sign).astype(dtype)


# ----------------------------------------------------------------------------
# relations, paths, components  (C15)


def pa_set(p, code, i):
    return {j for j in range(p) if (code >> (j * p + i)) & 1 and not (code >> (i * p + j)) & 1}


def ch_set(p, code, i):
    return {j for j in range(p) if (code >> (i * p + j)) & 1 and not (code >> (j * p + i)) & 1}


def nb_set(p, code, i):
    return {j for j in range(p) if (code >> (i * p + j)) & 1 and (code >> (j * p + i)) & 1}


def adj_set(p, code, i):
    return {j for j in range(p) if (code >> (i * p + j)) & 1 or (code >> (j * p + i)) & 1}


def reach_directed(p, code, i, forward=True):
    """Nodes reachable from i by >= 1 directed edge (forward) or from which i
    is so reachable (backward).  i itself is included only if on a cycle."""
    step = ch_set if forward else pa_set
    seen = set()
    frontier = list(step(p, code, i))
    while frontier:
        v = frontier.pop()
        if v in seen:
            continue
        seen.add(v)
        frontier.extend(step(p, code, v))
    return seen


def semi_succ(p, code, i):
    """j such that i -> j is directed or i - j is undirected."""
    out = []
    for j in range(p):
        fwd = (code >> (i * p + j)) & 1
        back = (code >> (j * p + i)) & 1
        if (fwd and not back) or (fwd and back):
            out.append(j)
    return out


def semi_directed_paths(p, code, fro, to):
    """All simple paths fro ... to following directed edges forwards or
    undirected edges (recursive DFS).  fro == to gives the trivial path."""
    out = []

    def rec(path):
        v = path[-1]
        if v == to:
            out.append(tuple(path))
            return
        for w in semi_succ(p, code, v):
            if w not in path:
                path.append(w)
                rec(path)
                path.pop()

    rec([fro])
    return out


def separated(p, code, S, A, B):
    """True iff no semi-directed path from A to B avoids S (reachability in
    the graph with S deleted)."""
    S = set(S)
    seen = set()
    frontier = [a for a in A if a not in S]
    while frontier:
        v = frontier.pop()
        if v in seen:
            continue
        seen.add(v)
        for w in semi_succ(p, code, v):
            if w not in S and w not in seen:
                frontier.append(w)
    return not (seen & set(B))


def chain_component(p, code, i):
    """Connected component of i using undirected edges only (union-find)."""
    parent = list(range(p))

    def find(x):
        while parent[x] != x:
            parent[x] = parent[parent[x]]
            x = parent[x]
        return x

    for a in range(p):
        for b in nb_set(p, code, a):
            ra, rb = find(a), find(b)
            if ra != rb:
                parent[ra] = rb
    r = find(i)
    return {j for j in range(p) if find(j) == r}


def closure_code(p, code):
    """Transitive closure of a DAG: (i,j) iff a directed path of >= 1 edge."""
    c = 0
    for i in range(p):
        for j in reach_directed(p, code, i, True):
            c |= bit(p, i, j)
    return c


# ----------------------------------------------------------------------------
# self test

KNOWN_DAGS = {1: 1, 2: 3, 3: 25, 4: 543, 5: 29281}
KNOWN_MECS = {1: 1, 2: 2, 3: 11, 4: 185, 5: 8782}
KNOWN_PDAGS = {1: 1, 2: 4, 3: 62}


def selftest(maxp=5):
    for p in range(1, maxp + 1):
        assert len(all_dags(p)) == KNOWN_DAGS[p], (p, len(all_dags(p)))
        assert len(mec_table(p)) == KNOWN_MECS[p], (p, len(mec_table(p)))
        assert sum(len(v) for v in mec_table(p).values()) == KNOWN_DAGS[p]
    for p in range(1, 5):
        # acyclicity: two independent implementations on every digraph
        for k in range(n_matrices(p)):
            c = pdag_from_index(p, k)
            assert acyclic(p, c) == acyclic_dfs(p, c), (p, c)
            assert decode(p, c).sum() == bin(c).count("1") and encode(decode(p, c)) == c
            assert encode(decode(p, c).T) == transpose(p, c)
        pd = all_pdags(p)
        if p in KNOWN_PDAGS:
            assert len(pd) == KNOWN_PDAGS[p], (p, len(pd))
        for c in pd:
            assert extensions(p, c) == extensions_bruteforce(p, c), (p, c)
        for g in all_dags(p):
            m = mec_of(p, g)
            assert g in m and extensions(p, essential(m)) == sorted(m), (p, g)
            assert imec_of(p, g, set()) == m and imec_of(p, g, set(range(p))) == [g]
            for a in range(p):
                for b in range(p):
                    if a != b:
                        for S in itertools.chain.from_iterable(
                                itertools.combinations([x for x in range(p) if x not in (a, b)], r) for r in range(p - 1)):
                            byp = all(set(path) & set(S) for path in semi_directed_paths(p, essential(m), a, b))
                            assert byp == separated(p, essential(m), S, {a}, {b})
    # classic facts: the 3 DAGs on the complete skeleton K_p form one class of p! members
    for p in range(2, maxp + 1):
        full = (1 << (p * p)) - 1 - diag_mask(p)
        assert len(mec_table(p)[(full, frozenset())]) == [1, 1, 2, 6, 24, 120][p]
        assert len(mec_of(p, chain_code(p))) == p
    assert len(mec_of(7, chain_code(7))) == 7
    return True


if __name__ == "__main__":
    import time
    t = time.time()
    selftest()
    print("oracle self test ok (%.1f s); PDAGs p=4: %d" % (time.time() - t, len(all_pdags(4))))
