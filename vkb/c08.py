"""C08 - the CPDAG is the essential graph of the equivalence class.

    cd /repo && PYTHONPATH=/repo:/verif /venv/bin/python -m vkb.c08 quick|thorough <seed>
    cd /repo && PYTHONPATH=/repo:/verif /venv/bin/python -m vkb.c08 replay <file>
"""
import numpy as np

from . import common as C
from . import oracles as O

HARNESS = "vkb.c08"
U = C.load_utils()
F = "sempler.utils."
K_DAG, K_PDAG = 1, 2


def check_dag_to_cpdag(G):
    G = np.asarray(G)
    p = len(G)
    code = O.encode(G)
    snap = C.snapshot(G)
    st, r = C.call(U.dag_to_cpdag, G)
    if not O.is_dag_code(p, code):
        viols = C.expect_value_error(st, r, "dag_to_cpdag on a non-DAG")
    elif st == "exc":
        viols = C.unexpected_exception(r, "dag_to_cpdag")
    else:
        viols = C.graph_violations(r, p, O.essential(O.mec_of(p, code)), "dag_to_cpdag vs essential graph of the class")
    if not C.unchanged(snap, G):
        viols.append(("dag_to_cpdag: input modified", "G changed"))
    return 1, viols


def check_pdag_to_cpdag(pdag):
    pdag = np.asarray(pdag)
    p = len(pdag)
    code = O.encode(pdag)
    if not O.is_pdag(p, code):
        return 0, []
    snap = C.snapshot(pdag)
    st, r = C.call(U.pdag_to_cpdag, pdag)
    exts = O.extensions(p, code)
    if not exts:
        viols = C.expect_value_error(st, r, "pdag_to_cpdag on a PDAG without consistent extension")
    elif st == "exc":
        viols = C.unexpected_exception(r, "pdag_to_cpdag on a PDAG with a consistent extension")
    else:
        viols = C.graph_violations(r, p, O.essential(O.mec_of(p, exts[0])),
                                   "pdag_to_cpdag vs essential graph of the class of the extensions")
    if not C.unchanged(snap, pdag):
        viols.append(("pdag_to_cpdag: input modified", "pdag changed"))
    return 1, viols


def check_dag_to_cpdag_large(G):
    """graphs too large for the brute-force class, from families whose essential graph is known in closed form; the family is
    recognised here from G itself: (a) no node has two parents -> no v-structure -> every edge reversible (the skeleton);
    (b) every pair adjacent (complete DAG) -> the complete undirected graph; (c) all edges point into one node whose parents are
    pairwise non-adjacent and >= 2 -> every edge is in a v-structure -> the DAG itself."""
    G = np.asarray(G)
    p = len(G)
    B = (G != 0).astype(int)
    snap = C.snapshot(G)
    indeg = B.sum(axis=0)
    if indeg.max() <= 1 or (B + B.T + np.eye(p, dtype=int)).min() >= 1:
        expected = ((B + B.T) != 0).astype(int)
    elif (indeg > 0).sum() == 1 and indeg.max() >= 2:
        expected = B
    else:
        return 0, []
    st, r = C.call(U.dag_to_cpdag, G)
    if st == "exc":
        viols = C.unexpected_exception(r, "dag_to_cpdag on a large DAG (%d edges)" % B.sum())
    elif not isinstance(r, np.ndarray) or r.shape != (p, p) or not np.array_equal(r, expected):
        viols = [("dag_to_cpdag vs closed-form essential graph (large graph, %d edges)" % B.sum(), "wrong graph: %d entries differ" % (int((np.asarray(r) != expected).sum()) if isinstance(r, np.ndarray) and r.shape == (p, p) else -1))]
    else:
        viols = []
    if not C.unchanged(snap, G):
        viols.append(("dag_to_cpdag: input modified", "G changed"))
    return 1, viols


def large_graphs(seed):
    rng = np.random.default_rng(seed)
    out = []
    for p in (17, 24):                     # complete DAGs: 136 and 276 edges
        perm = rng.permutation(p)
        out.append(np.triu(np.ones((p, p), dtype=int), 1)[perm][:, perm])
    for p in (140, 300):                   # random out-trees and a chain: p - 1 edges
        T = np.zeros((p, p), dtype=int)
        for v in range(1, p):
            T[rng.integers(0, v), v] = 1
        perm = rng.permutation(p)
        out.append(T[perm][:, perm])
        out.append(np.diag(np.ones(p - 1), 1))
    for p in (131, 260):                   # collider stars: p - 1 compelled edges
        S = np.zeros((p, p))
        c = int(rng.integers(0, p))
        S[:, c] = rng.uniform(0.5, 2, size=p) * rng.choice((-1, 1), size=p)
        S[c, c] = 0
        out.append(S)
    return out


CHECKS = {F + "dag_to_cpdag": check_dag_to_cpdag, F + "pdag_to_cpdag": check_pdag_to_cpdag, F + "dag_to_cpdag#large": check_dag_to_cpdag_large}


def do_pdag(t, p, pc):
    if pc:
        t.mark(C.key(K_PDAG, p, pc))
    t.check(F + "pdag_to_cpdag", pdag=O.decode(p, pc))


def worker(task):
    t = C.Tally(HARNESS, CHECKS)
    kind = task[0]
    if kind == "dag":
        _, p, codes, seed = task
        for code in codes:
            if code:
                t.mark(C.key(K_DAG, p, code))
            t.check(F + "dag_to_cpdag", G=O.decode(p, code))
            t.check(F + "dag_to_cpdag", G=O.decode(p, code, np.float64))
            t.check(F + "dag_to_cpdag", G=O.weighted(p, code, seed))
    elif kind == "large":
        for k, G in enumerate(large_graphs(task[1])):
            if k % task[3] == task[2]:
                t.mark(C.key(K_DAG, len(G), int((G != 0).sum()) * 1000 + k))
                t.check(F + "dag_to_cpdag#large", G=G)
    elif kind == "pdag_range":
        _, p, lo, hi = task
        for idx in range(lo, hi):
            pc = O.pdag_from_index(p, idx)
            if O.is_pdag(p, pc):
                do_pdag(t, p, pc)
    elif kind == "pdag_list":
        _, p, codes = task
        for pc in codes:
            do_pdag(t, p, pc)
    return t.export()


def samples():
    out = []
    for G in (np.array([[0, 1, 1, 0], [0, 0, 0, 1], [0, 0, 0, 1], [0, 0, 0, 0]]),
              np.array([[0, 1, 0], [0, 0, 1], [0, 0, 0]]),
              np.array([[0., -1.5, 0, 0], [0, 0, 0, 0], [0, 0.7, 0, 2.], [0, 0, 0, 0]])):
        p = len(G)
        out.append({"function": F + "dag_to_cpdag", "inputs": {"G": C.jsonable(G)},
                    "library": C.lib(U.dag_to_cpdag, G, render=lambda r: r.tolist()), "oracle": C.mat(p, O.essential(O.mec_of(p, O.encode(G))))})
    P = np.array([[0, 1, 0, 0], [1, 0, 1, 0], [0, 0, 0, 0], [0, 0, 1, 0]])
    out.append({"function": F + "pdag_to_cpdag", "inputs": {"pdag": C.jsonable(P)}, "library": C.lib(U.pdag_to_cpdag, P, render=lambda r: r.tolist()),
                "oracle": C.mat(4, O.essential(O.mec_of(4, O.extensions(4, O.encode(P))[0])))})
    P = np.array([[0, 1, 0, 1], [1, 0, 1, 0], [0, 1, 0, 1], [1, 0, 1, 0]])
    out.append({"function": F + "pdag_to_cpdag", "inputs": {"pdag": C.jsonable(P)}, "library": C.lib(U.pdag_to_cpdag, P, render=lambda r: r.tolist()),
                "oracle": "ValueError (no consistent extension: %d)" % len(O.extensions(4, O.encode(P)))})
    return out


def run(tier, seed):
    thorough = tier == "thorough"
    pmax = 5 if thorough else 4
    for p in range(1, pmax + 1):
        O.mec_table(p)
    tasks = []
    for p in range(1, pmax + 1):
        for ch in C.chunked(O.all_dags(p), 40 if p < 5 else 150):
            tasks.append(("dag", p, ch, seed))
    for p in range(1, pmax + 1):
        for (lo, hi) in C.ranges(0, O.n_matrices(p), 128 if p < 5 else 4096):
            tasks.append(("pdag_range", p, lo, hi))
    tasks.sort(key=lambda t: -t[1])
    tasks = [("large", seed, k, 8) for k in range(8)] + tasks
    tally = C.Tally(HARNESS, CHECKS)
    C.run_pool(worker, tasks, tally)
    rule = ("dag_to_cpdag: every DAG on p<=%d labelled nodes x {int 0/1, float 0/1, signed float weights}, output must be the 0/1 "
            "union graph of the brute-force class {same skeleton, same v-structures} (hence identical for all members); "
            "pdag_to_cpdag: every 0/1 zero-diagonal matrix with acyclic directed part on p<=%d: essential graph of the class of its "
            "consistent extensions, ValueError iff it has none. non-trivial = graph with >=1 edge; distinct = exact integer key "
            "(kind, p, matrix bits) in a set; plus 8 large DAGs (136..299 edges: complete DAGs p=17,24, out-trees and chains "
            "p=140,300, collider stars p=131,260) against their closed-form essential graphs" % (pmax, pmax))
    return C.report(tally, rule, exhaustive=True, bound="p<=%d" % pmax, samples=C.safe_samples(samples))


if __name__ == "__main__":
    C.main(HARNESS, CHECKS, run)
