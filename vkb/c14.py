"""C14 - models are immutable under use; caller data is never modified; no aliasing.

    cd /repo && PYTHONPATH=/repo:/verif/fake_rpy2:/verif /venv/bin/python -m vkb.c14 quick|thorough <seed>
    cd /repo && PYTHONPATH=/repo:/verif/fake_rpy2:/verif /venv/bin/python -m vkb.c14 replay <file>

(a) LGANM / ANM / NormalDistribution under random call histories: byte-wise
attribute snapshots, comparison with a fresh identical model, write-through
tests on everything returned, mutation of the constructor arguments.
(b) every public graph utility: arguments byte-identical after the call and
after scribbling over the result, np.shares_memory between results and arguments.
The oracle is the property itself (byte equality / memory overlap); nothing of
sempler is used to decide.
"""
import inspect
import itertools
import random

import numpy as np

from . import common as C
from . import oracles as O
from .c13 import _assignments, _noise

HARNESS = "vkb.c14"
S = C.load_sempler()
U = S.utils
F_LGANM, F_ND, F_ANM = "sempler.LGANM", "sempler.NormalDistribution", "sempler.ANM"
FU = "sempler.utils."

# ----------------------------------------------------------------------------
# (a) models


def build(kind, spec):
    """(model, constructor arguments as handed to the library)"""
    if kind == F_LGANM:
        args = [np.array(spec["W"]), np.array(spec["means"]), np.array(spec["variances"])]
        return S.LGANM(*args), args
    if kind == F_ND:
        args = [np.array(spec["mean"]) if not np.isscalar(spec["mean"]) else spec["mean"],
                np.array(spec["covariance"]) if not np.isscalar(spec["covariance"]) else spec["covariance"]]
        return S.NormalDistribution(*args), args
    A = np.array(spec["A"])
    if spec.get("stateful"):
        # assignments / noise terms given as callable OBJECTS that own arrays (a fitted linear map, an empirical residual pool):
        # the constructor's deep copies must make the model independent of later changes to that state
        args = [A, [None if not (A[:, i] != 0).any() else LinearMap(A[A[:, i] != 0, i]) for i in range(len(A))],
                [ResidualPool(tuple(x)) for x in spec["noise"]]]
    else:
        args = [A, _assignments(A), [_noise(tuple(x)) for x in spec["noise"]]]
    return S.ANM(*args), args


class LinearMap:
    def __init__(self, w):
        self.w = np.array(w, dtype=float)

    def __call__(self, x):
        return x @ self.w


class ResidualPool:
    """draws from a fixed pool of residuals with numpy's global generator (like the library's own noise terms)"""
    def __init__(self, spec):
        self.pool = np.linspace(-1.0, 1.0, 7) * (1.0 + abs(float(spec[-1]))) + float(spec[1])

    def __call__(self, n):
        return self.pool[np.random.randint(0, len(self.pool), size=n)]


def _scribble_state(args):
    for a in args:
        for x in (a if isinstance(a, list) else [a]):
            if isinstance(x, (LinearMap, ResidualPool)):
                C.scribble([v for v in vars(x).values() if isinstance(v, np.ndarray)])


def canon(r):
    if isinstance(r, S.NormalDistribution):
        return ["NormalDistribution", r.mean, r.covariance, r.p]
    return r


def attrs(model):
    return C.freeze(dict(vars(model)))


def apply_op(kind, model, op):
    name = op[0]
    if kind == F_LGANM:
        if name == "sample":
            _, n, do, shift, noise, rs = op
            return model.sample(n, do_interventions=do, shift_interventions=shift, noise_interventions=noise, random_state=rs)
        _, do, shift, noise = op
        return model.sample(population=True, do_interventions=do, shift_interventions=shift, noise_interventions=noise)
    if kind == F_ND:
        if name == "sample":
            return model.sample(op[1], random_state=op[2])
        return getattr(model, name)(*op[1:])
    _, n, do, shift, noise, rs = op
    mk = lambda d: {k: _noise(tuple(v)) for k, v in d.items()}     # noqa: E731
    return model.sample(n, do_interventions=mk(do), shift_interventions=mk(shift), noise_interventions=mk(noise), random_state=rs)


def deterministic(op):
    return not (op[0] == "sample" and op[-1] is None)


def check_model(kind):
    def check(spec, ops):
        st, built = C.call(build, kind, spec)
        if st == "exc":
            return 1, C.unexpected_exception(built, kind + " constructor")
        model, cargs = built
        pristine = C.freeze(cargs)
        snap = attrs(model)
        calls, viols = 1, []
        if C.shares([v for v in vars(model).values()], cargs):
            viols.append(("constructor keeps a reference to the caller's arrays", "an attribute shares memory with a constructor argument"))
        if any(v is a for v in vars(model).values() for a in cargs if isinstance(a, list)):
            viols.append(("constructor keeps a reference to the caller's lists", "an attribute is the caller's list object"))
        mutated = False

        def model_ok(when, what=""):
            if attrs(model) != snap:
                changed = [k for k, v in vars(model).items() if C.freeze(v) != dict(snap[1]).get(C.freeze(k))]
                viols.append(("model attributes changed %s" % when, "%s: attributes %s differ from the snapshot taken after construction" % (what, changed)))

        for step, op in enumerate(ops):
            if viols:
                break
            if op[0] == "mutate_args":
                _scribble_state(cargs)         # arrays owned by callable objects handed to the constructor (before the lists are scribbled)
                C.scribble([a for a in cargs if isinstance(a, (np.ndarray, list))])
                mutated = True
                model_ok("after the caller modified the constructor arguments", "step %d" % step)
                continue
            osnap = C.freeze(op)
            st, r = C.call(apply_op, kind, model, op)
            fresh, fargs = build(kind, spec)
            stf, rf = C.call(apply_op, kind, fresh, op)
            calls += 2
            what = "step %d %s%s" % (step, C.short(op, 120), " (after the caller modified the constructor arguments)" if mutated else "")
            model_ok("by a call", what)
            if C.freeze(op) != osnap:
                viols.append(("a call modified its arguments (intervention dict / index list)", what))
            if st != stf or (st == "exc" and type(r) is not type(rf)):
                viols.append(("result depends on the call history or on later changes to the constructor arguments",
                              "%s: used model %s, fresh model %s" % (what, C.short(r, 100), C.short(rf, 100))))
                continue
            if st == "exc":
                continue
            if deterministic(op):
                if C.freeze(canon(r)) != C.freeze(canon(rf)):
                    viols.append(("result depends on the call history or on later changes to the constructor arguments",
                                  "%s: used model %s, fresh model %s" % (what, C.short(canon(r), 150), C.short(canon(rf), 150))))
            elif np.shape(r) != np.shape(rf):
                viols.append(("unseeded sample has a history-dependent shape", what))
            if C.shares(r, [list(vars(model).values()), cargs, op]):
                viols.append(("a returned array shares memory with the model's attributes or with caller data", what))
            if not mutated and C.freeze(cargs) != pristine:
                viols.append(("a call modified the arrays given to the constructor", what))
            C.scribble(r)
            model_ok("by writing into a returned object", what)
            if deterministic(op):
                st2, r2 = C.call(apply_op, kind, model, op)
                calls += 1
                if st2 == "exc" or C.freeze(canon(r2)) != C.freeze(canon(rf)):
                    viols.append(("repeating a query after writing into its previous result gives a different answer",
                                  "%s: %s, expected %s" % (what, C.short(canon(r2), 150), C.short(canon(rf), 150))))
                model_ok("by a repeated call", what)
        return calls, viols
    return check


# ----------------------------------------------------------------------------
# (b) graph utilities: parameter names of every function -> how to fill them


def _fn(name):
    return getattr(U, name)


UTIL_FUNCTIONS = ["pa", "ch", "neighbors", "adj", "na", "ancestors", "descendants", "an", "desc", "transitive_closure", "semi_directed_paths",
                  "separates", "chain_component", "induced_subgraph", "vstructures", "moral_graph", "degrees", "only_directed", "only_undirected",
                  "undirected_edges", "directed_edges", "edge_weights", "skeleton", "is_clique", "is_dag", "is_complete", "topological_ordering",
                  "mec", "imec", "all_dags", "dag_to_cpdag", "pdag_to_cpdag", "pdag_to_dag", "is_consistent_extension", "has_consistent_extension",
                  "are_forward_neighbors", "are_backward_neighbors", "maximally_orient", "pdag_to_icpdag", "dag_to_icpdag", "order_edges",
                  "label_edges", "rule_1", "rule_2", "rule_3", "rule_4", "remove_edges", "add_edges", "split_data", "matrix_block", "sort", "cartesian"]


def check_util(name):
    def check(**kwargs):
        fn = _fn(name)
        snap = C.freeze(kwargs)
        st, r = C.call(fn, **kwargs)
        viols = []
        if C.freeze(kwargs) != snap:
            viols.append((name + ": an argument was modified by the call", "arguments differ from their snapshot%s" % (" (call raised %s)" % type(r).__name__ if st == "exc" else "")))
            return 1, viols
        if st == "ok":
            containers = [v for v in kwargs.values() if isinstance(v, (set, dict, list, np.ndarray))]
            if any(r is v for v in containers):
                viols.append((name + ": the result is one of the argument objects", type(r).__name__))
            if C.shares(r, list(kwargs.values())):
                viols.append((name + ": a returned array shares memory with an argument", "np.shares_memory"))
            try:
                C.scribble(r)
            except Exception:       # noqa: BLE001 - read-only result
                pass
            if C.freeze(kwargs) != snap:
                viols.append((name + ": writing into the result changes an argument", "arguments differ from their snapshot"))
        return 1, viols
    return check


CHECKS = {F_LGANM: check_model(F_LGANM), F_ND: check_model(F_ND), F_ANM: check_model(F_ANM)}
CHECKS.update({FU + n: check_util(n) for n in UTIL_FUNCTIONS})

# ----------------------------------------------------------------------------
# domains


def rand_interventions(p, rng, lganm=True):
    out = []
    for _ in range(3):
        d = {}
        for t in range(p):
            if rng.random() < 0.3:
                if lganm:
                    d[t] = rng.choice(((0.5, 0.25), (2, 3), 1.5, (-1.0, 0.0), 2))
                else:
                    d[t] = rng.choice((("normal", 1, 2), ("uniform", 0, 2), ("laplace", 0.5, 1)))
        out.append(d)
    if not lganm and any(t in out[2] for t in out[1]):
        out[2] = {t: v for t, v in out[2].items() if t not in out[1]}         # shift+noise on one target is outside the common contract
    return out


def lganm_case(p, code, rng):
    typ = rng.randrange(3)
    W = O.weighted(p, code, rng.randrange(1000), dtype=np.int64 if typ == 1 else np.float64)
    means = np.array([rng.choice((-1, 0, 2)) for _ in range(p)], dtype=np.int64 if typ else np.float64) + (0 if typ else 0.5)
    variances = np.array([rng.choice((0, 1, 3)) for _ in range(p)], dtype=np.int64 if typ else np.float64) + (0 if typ else 0.25)
    ops = []
    for _ in range(rng.randrange(1, 9)):
        r = rng.random()
        do, shift, noise = rand_interventions(p, rng)
        if rng.random() < 0.15:
            do, shift = {}, None
        if r < 0.45:
            ops.append(["population", do, shift, noise])
        elif r < 0.9:
            ops.append(["sample", rng.choice((1, 3, 10)), do, shift, noise, rng.choice((None, 0, 7))])
        else:
            ops.append(["mutate_args"])
    return {"W": W, "means": means, "variances": variances}, ops


def nd_case(p, rng):
    if p == 0:
        spec = {"mean": rng.choice((0, 1.5)), "covariance": rng.choice((1, 2.5))}
        p = 1
    else:
        B = np.array([[rng.choice((-1.0, 0.0, 0.5, 2.0)) for _ in range(p)] for _ in range(p)])
        spec = {"mean": np.array([rng.choice((-1.5, 0.0, 2.0)) for _ in range(p)]), "covariance": B @ B.T + np.eye(p) * 0.5}
        if rng.random() < 0.3:
            spec = {"mean": spec["mean"].round().astype(np.int64), "covariance": (np.round(spec["covariance"]) + p * 5 * np.eye(p)).astype(np.int64)}
    idx = list(range(p))
    ops = []
    for _ in range(rng.randrange(1, 9)):
        r = rng.random()
        k = rng.randrange(0, p + 1)
        sub = rng.sample(idx, k)
        rest = [i for i in idx if i not in sub]
        if r < 0.2:
            ops.append(["sample", rng.choice((1, 4)), rng.choice((None, 0, 3))])
        elif r < 0.4:
            X = sub if sub else [0]
            ops.append(["marginal", X if rng.random() < 0.7 else np.array(X)])
        elif r < 0.6 and rest:
            Y = rng.sample(rest, rng.randrange(1, len(rest) + 1))
            x = [rng.choice((-0.5, 0.0, 1.25)) for _ in sub]
            ops.append(["conditional", Y, sub if rng.random() < 0.7 else np.array(sub, dtype=int), x if rng.random() < 0.5 else np.array(x)])
        elif r < 0.75:
            y = rng.choice(idx)
            ops.append(["regress", y, [i for i in sub if i != y]])
        elif r < 0.9:
            y = rng.choice(idx)
            Xs = [i for i in sub if i != y]
            ops.append(["mse", y, Xs if rng.random() < 0.6 else np.array(Xs, dtype=int)])
        else:
            ops.append(["mutate_args"])
    return spec, ops


def anm_case(p, code, rng):
    A = O.decode(p, code) if rng.random() < 0.5 else O.weighted(p, code, rng.randrange(1000))
    noises = [rng.choice((("normal", 0, 1), ("uniform", -1, 1), ("laplace", 0, 0.5))) for _ in range(p)]
    ops = []
    for _ in range(rng.randrange(1, 9)):
        if rng.random() < 0.12:
            ops.append(["mutate_args"])
        else:
            do, shift, noise = rand_interventions(p, rng, lganm=False)
            ops.append(["sample", rng.choice((0, 1, 6)), do, shift, noise, rng.choice((None, 0, 5))])
    return {"A": A, "noise": noises, "stateful": rng.random() < 0.4}, ops


def model_worker(task):
    t = C.Tally(HARNESS, CHECKS)
    items, reps, hseed = task
    for (p, code) in items:
        rng = random.Random("c14m-%d-%d-%d" % (p, code, hseed))
        for rep in range(reps):
            spec, ops = lganm_case(p, code, rng)
            t.check(F_LGANM, spec=spec, ops=ops)
            spec, ops = anm_case(p, code, rng)
            t.check(F_ANM, spec=spec, ops=ops)
            spec, ops = nd_case(p if rep % 5 else 0, rng)
            t.check(F_ND, spec=spec, ops=ops)
            t.mark(("model", p, code, rep))
    return t.export()


def util_calls(p, code, G, rng, full):
    """(function name, kwargs) for one graph; node / pair arguments exhaustively for p<=3, sampled for p=4."""
    nodes = list(range(p))
    pairs = [(i, j) for i in nodes for j in nodes if i != j]
    if not full and len(pairs) > 4:
        pairs = rng.sample(pairs, 4)
    some_nodes = nodes if full or p <= 3 else rng.sample(nodes, 2)
    subsets = [set(s) for k in range(p + 1) for s in itertools.combinations(nodes, k)]
    some_sets = subsets if (full and p <= 3) else rng.sample(subsets, min(3, len(subsets)))
    out = []
    for f in ("pa", "ch", "neighbors", "adj", "ancestors", "descendants", "an", "desc"):
        out += [(f, {"i": i, "A": G.copy()}) for i in some_nodes]
    out += [("chain_component", {"i": i, "G": G.copy()}) for i in some_nodes]
    out += [("na", {"y": i, "x": j, "A": G.copy()}) for i, j in pairs]
    out += [("semi_directed_paths", {"fro": i, "to": j, "A": G.copy()}) for i, j in pairs]
    for f in ("rule_1", "rule_2", "rule_3", "rule_4"):
        out += [(f, {"i": i, "j": j, "A": G.copy()}) for i, j in pairs]
    for f, a in (("transitive_closure", "A"), ("vstructures", "A"), ("moral_graph", "A"), ("degrees", "A"), ("only_directed", "P"), ("only_undirected", "P"),
                 ("undirected_edges", "P"), ("directed_edges", "A"), ("edge_weights", "W"), ("skeleton", "A"), ("is_dag", "A"), ("is_complete", "P"),
                 ("topological_ordering", "A"), ("mec", "A"), ("all_dags", "pdag"), ("dag_to_cpdag", "G"), ("pdag_to_cpdag", "pdag"), ("pdag_to_dag", "P"),
                 ("has_consistent_extension", "pdag"), ("maximally_orient", "P"), ("order_edges", "G")):
        out.append((f, {a: G.copy()}))
    for s in some_sets:
        out.append(("induced_subgraph", {"S": set(s), "G": G.copy()}))
        out.append(("is_clique", {"S": set(s) if rng.random() < 0.7 else sorted(s), "A": G.copy()}))
        out.append(("imec", {"A": G.copy(), "I": set(s)}))
        out.append(("dag_to_icpdag", {"G": G.copy(), "I": set(s)}))
        out.append(("pdag_to_icpdag", {"P": G.copy(), "I": set(s) if rng.random() < 0.7 else sorted(s)}))
    for _ in range(3 if p >= 2 else 1):
        lab = [rng.randrange(4) for _ in nodes]          # 0: none, 1: S, 2: A, 3: B
        if rng.random() < 0.2 and p >= 2:
            out.append(("separates", {"S": {0}, "A": {0, 1}, "B": {p - 1}, "G": G.copy()}))          # not disjoint -> ValueError
        out.append(("separates", {"S": {i for i in nodes if lab[i] == 1}, "A": {i for i in nodes if lab[i] == 2}, "B": {i for i in nodes if lab[i] == 3}, "G": G.copy()}))
    # extensions / neighbours
    exts = O.extensions(p, code) if O.is_pdag(p, code) else []
    dag = O.decode(p, exts[0] if exts else O.all_dags(p)[rng.randrange(len(O.all_dags(p)))]).astype(G.dtype)
    out.append(("is_consistent_extension", {"G": dag, "P": G.copy()}))
    for (x, y) in pairs[:2]:
        P2 = G.copy()
        if not (P2[x, y] or P2[y, x]):
            P2[x, y] = P2[y, x] = 1
        out.append(("are_forward_neighbors", {"P1": G.copy(), "P2": P2, "x": x, "y": y}))
        out.append(("are_backward_neighbors", {"P1": P2.copy(), "P2": G.copy(), "x": x, "y": y}))
    if O.acyclic(p, code):
        st, ordered = C.call(U.order_edges, G.copy())
        if st == "ok" and isinstance(ordered, np.ndarray):
            out.append(("label_edges", {"ordered": ordered.copy()}))
        e = bin(code).count("1")
        for k in sorted({0, min(1, e), e, e + 1}):
            out.append(("remove_edges", {"A": G.copy(), "no_edges": k, "random_state": rng.randrange(3)}))
        room = p * (p - 1) // 2 - e
        for k in sorted({0, min(1, room), room, room + 1}):
            out.append(("add_edges", {"A": G.copy(), "no_edges": k, "random_state": rng.randrange(3)}))
    # array helpers on the same matrix
    rows = rng.sample(nodes, rng.randrange(1, p + 1))
    cols = rng.sample(nodes, rng.randrange(1, p + 1))
    out.append(("matrix_block", {"M": G.copy(), "rows": rows, "cols": cols}))
    out.append(("matrix_block", {"M": G.astype(float), "rows": np.array(rows), "cols": np.array(cols)}))
    order = nodes[:]
    rng.shuffle(order)
    out.append(("sort", {"L": rows[:], "order": order}))
    out.append(("sort", {"L": np.array(rows), "order": np.array(order)}))
    out.append(("sort", {"L": cols[:], "order": None}))
    return out


def extra_util_calls(rng):
    out = []
    for sizes in ([5], [0, 3], [7, 10, 2]):
        data = [np.arange(2 * n, dtype=float).reshape(n, 2) + 100 * e for e, n in enumerate(sizes)]
        for ratios in ([0.5, 0.5], [0.7, 0.2, 0.1], [1.0], np.array([0.25, 0.75]), [0.6, 0.6]):
            out.append(("split_data", {"data": [d.copy() for d in data], "ratios": ratios if not isinstance(ratios, np.ndarray) else ratios.copy(), "random_state": rng.randrange(5)}))
    for arrays in ([np.array([1, 2, 3]), np.array([4, 5])], [np.array([True, False])] * 3, [[1, 2], [3], [5, 6]], [np.array([7])], [np.arange(2), np.arange(3), np.arange(2), np.arange(2)]):
        out.append(("cartesian", {"arrays": list(arrays)}))
        out.append(("cartesian", {"arrays": list(arrays), "dtype": int}))
    return out


def util_worker(task):
    t = C.Tally(HARNESS, CHECKS)
    items, hseed, full = task
    for (p, code) in items:
        rng = random.Random("c14u-%d-%d-%d" % (p, code, hseed))
        for dtype in (np.int64, np.float64):
            G = O.decode(p, code).astype(dtype)
            for name, kw in util_calls(p, code, G, rng, full):
                t.check(FU + name, **kw)
            t.mark(("util", p, code, str(np.dtype(dtype))))
        if O.acyclic(p, code) and code:
            W = O.weighted(p, code, hseed)
            for name, kw in util_calls(p, code, W, rng, False):
                if name in ("only_directed", "only_undirected", "edge_weights", "skeleton", "topological_ordering", "transitive_closure", "induced_subgraph",
                            "matrix_block", "order_edges", "dag_to_cpdag", "remove_edges", "add_edges", "moral_graph", "pa", "ancestors"):
                    t.check(FU + name, **kw)
    return t.export()


def extra_worker(task):
    t = C.Tally(HARNESS, CHECKS)
    rng = random.Random("c14x-%d" % task)
    for name, kw in extra_util_calls(rng):
        t.check(FU + name, **kw)
        t.mark(("extra", name, repr(C.freeze(kw))[:80]))
    return t.export()


def samples():
    out = []
    W = np.array([[0, 2, 0], [0, 0, -1], [0, 0, 0]])
    spec = {"W": W, "means": np.array([1, 0, 2]), "variances": np.array([1, 2, 1])}
    ops = [["population", {1: (0.5, 0.25)}, {}, None], ["mutate_args"], ["sample", 3, {}, {0: 1.5}, {}, 0], ["population", {}, {}, {}]]
    out.append({"function": F_LGANM, "inputs": {"spec": C.jsonable(spec), "ops": C.jsonable(ops)}, "library": C.lib(lambda: [c for c, _ in CHECKS[F_LGANM](spec, ops)[1]]),
                "oracle": "no violation"})
    P = np.array([[0, 1, 0], [0, 0, 1], [0, 0, 0]])
    for f, kw in (("all_dags", {"pdag": P}), ("maximally_orient", {"P": P}), ("matrix_block", {"M": P, "rows": [0, 1], "cols": [1]})):
        out.append({"function": FU + f, "inputs": {k: C.jsonable(v) for k, v in kw.items()}, "library": C.lib(lambda f=f, kw=kw: [c for c, _ in CHECKS[FU + f](**kw)[1]]),
                    "oracle": "no violation (fully directed PDAG: results must still be fresh arrays)"})
    return out


def run(tier, seed):
    thorough = tier == "thorough"
    tally = C.Tally(HARNESS, CHECKS)
    dags = [(p, c) for p in (1, 2, 3, 4) for c in O.all_dags(p)]
    reps = 40 if thorough else 8
    C.run_pool(model_worker, [(ch, reps, seed) for ch in C.chunked(dags, 8)], tally)
    pd = [(p, c) for p in (1, 2, 3) for c in O.all_pdags(p)]
    p4 = O.all_pdags(4)
    if not thorough:
        r = random.Random(seed)
        p4 = sorted(r.sample(p4, 600))
    t2 = C.Tally(HARNESS, CHECKS)
    tasks = [(ch, seed, True) for ch in C.chunked(pd, 4)] + [(ch, seed, thorough) for ch in C.chunked([(4, c) for c in p4], 10)]
    tasks.sort(key=lambda x: -x[0][0][0])
    C.run_pool(util_worker, tasks, t2)
    tally.merge(t2.export())
    t3 = C.Tally(HARNESS, CHECKS)
    C.run_pool(extra_worker, [seed, seed + 1], t3, nproc=1)
    tally.merge(t3.export())
    missing = [n for n in UTIL_FUNCTIONS if tally.counts.get(FU + n, 0) == 0]
    rule = ("(a) for every DAG on p<=4 nodes, %d random LGANM / ANM / NormalDistribution models (int and float arrays, signed weights, scalar 1-d normal) each with a "
            "random history of 1..8 calls (sample seeded / unseeded, sample(population=True), marginal, conditional, regress, mse with random intervention "
            "dicts / index lists or arrays, and 'caller overwrites the constructor arguments'): after every call all attributes (vars(model), arrays "
            "by dtype+shape+bytes) equal the snapshot taken after construction, deterministic results equal those of a fresh model built from pristine "
            "arguments, results share no memory with attributes / constructor arguments / call arguments, 12345 is written over every returned "
            "object and the model and a repeated query are re-checked, call arguments unchanged. (b) %d public sempler.utils functions on every PDAG "
            "with acyclic directed part on p<=3 and %s on p=4 (int64 and float64 0/1, signed weight DAGs for the weight-preserving functions; "
            "node / pair / node-set arguments exhaustive for p<=3): every argument byte-identical after the call (ValueError or not), no returned "
            "array shares memory with an argument, result is not an argument object, arguments still identical after writing over the result; "
            "cartesian only with out=None. functions never reached: %s. non-trivial = model case / (graph, dtype)"
            % (reps, len(UTIL_FUNCTIONS), "all %d" % len(p4) if thorough else "600 sampled", missing))
    return C.report(tally, rule, exhaustive=False, bound="p<=4; histories of <=8 calls", samples=C.safe_samples(samples))


if __name__ == "__main__":
    C.main(HARNESS, CHECKS, run)
