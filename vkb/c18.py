"""C18 - add_edges / remove_edges change exactly the requested number of edges.

    cd /repo && PYTHONPATH=/repo:/verif /venv/bin/python -m vkb.c18 quick|thorough <seed>
    cd /repo && PYTHONPATH=/repo:/verif /venv/bin/python -m vkb.c18 replay <file>
"""
import numpy as np

from . import common as C
from . import oracles as O

HARNESS = "vkb.c18"
U = C.load_utils()
F = "sempler.utils."
K_DAG, K_WDAG = 1, 7


def _check(fn, name, A, no_edges, random_state, adding):
    A = np.asarray(A)
    p = len(A)
    code = O.encode(A)
    k = int(no_edges)
    if not O.is_dag_code(p, code) or k < 0:
        return 0, []
    e = bin(code).count("1")
    feasible = k <= (p * (p - 1) // 2 - e if adding else e)
    snap = C.snapshot(A)
    st, r = C.call(fn, A, no_edges, random_state)
    st2, r2 = C.call(fn, A, no_edges, random_state)
    viols = []
    if not C.unchanged(snap, A):
        viols.append((name + ": input modified", "A changed"))
    if not feasible:
        what = name + " with an infeasible request (%s)" % ("more than p(p-1)/2 - #edges" if adding else "more than #edges")
        return 2, viols + C.expect_value_error(st, r, what) + C.expect_value_error(st2, r2, what)
    if st == "exc" or st2 == "exc":
        bad = r if st == "exc" else r2
        return 2, viols + C.unexpected_exception(bad, name + " with a feasible request")
    if not isinstance(r, np.ndarray) or r.shape != (p, p):
        return 2, viols + [(name + ": result is not a p x p array", C.short(r))]
    if not C.is01(r):
        viols.append((name + ": entries are not 0/1", "values %s" % np.unique(r).tolist()[:8]))
    g = O.encode(r)
    ge = bin(g).count("1")
    if adding:
        if g & code != code:
            viols.append((name + ": result is not a supergraph of the input pattern", "A %s result %s" % (C.mat(p, code), C.mat(p, g))))
        if ge != e + k:
            viols.append((name + ": wrong number of edges added", "%d edges before, %d after, %d requested" % (e, ge, k)))
        if g & O.diag_mask(p):
            viols.append((name + ": self-loop created", C.mat(p, g)))
        if g & O.transpose(p, g):
            viols.append((name + ": two-cycle created", C.mat(p, g)))
        if not O.acyclic(p, g):
            viols.append((name + ": result is not acyclic", C.mat(p, g)))
    else:
        if g & ~code:
            viols.append((name + ": result is not a subgraph of the input pattern", "A %s result %s" % (C.mat(p, code), C.mat(p, g))))
        if ge != e - k:
            viols.append((name + ": wrong number of edges removed", "%d edges before, %d after, %d requested" % (e, ge, k)))
    if not (isinstance(r2, np.ndarray) and r2.shape == r.shape and (r2 == r).all()):
        viols.append((name + ": not deterministic in random_state", "two calls with the same seed differ"))
    return 2, viols


def check_remove_edges(A, no_edges, random_state=42):
    return _check(U.remove_edges, "remove_edges", A, no_edges, random_state, False)


def check_add_edges(A, no_edges, random_state=42):
    return _check(U.add_edges, "add_edges", A, no_edges, random_state, True)


CHECKS = {F + "remove_edges": check_remove_edges, F + "add_edges": check_add_edges}


def worker(task):
    t = C.Tally(HARNESS, CHECKS)
    _, p, codes, seed, nseeds = task
    full = p * (p - 1) // 2
    for code in codes:
        e = bin(code).count("1")
        for variant, kind in ((O.decode(p, code), K_DAG), (O.weighted(p, code, seed), K_WDAG)):
            if code:
                t.mark(C.key(kind, p, code))
            for rs in range(nseeds):
                for k in range(0, e + 2):
                    t.check(F + "remove_edges", A=variant, no_edges=k, random_state=rs)
                for k in range(0, full - e + 2):
                    t.check(F + "add_edges", A=variant, no_edges=k, random_state=rs)
    return t.export()


def samples():
    out = []
    A = np.array([[0, 1, 0, 0], [0, 0, 1, 0], [0, 0, 0, 0], [0, 1, 0, 0]])
    out.append({"function": F + "add_edges", "inputs": {"A": C.jsonable(A), "no_edges": 3, "random_state": 0},
                "library": C.lib(U.add_edges, A, 3, 0, render=lambda r: r.tolist()), "oracle": "acyclic 0/1 supergraph with 3+3 edges; max addable 3"})
    out.append({"function": F + "add_edges", "inputs": {"A": C.jsonable(A), "no_edges": 4, "random_state": 0},
                "library": C.lib(U.add_edges, A, 4, 0, render=lambda r: r.tolist()), "oracle": "ValueError (4 > 6 - 3)"})
    W = np.array([[0, -1.5, 0.5], [0, 0, 2.], [0, 0, 0]])
    out.append({"function": F + "remove_edges", "inputs": {"A": C.jsonable(W), "no_edges": 2, "random_state": 1},
                "library": C.lib(U.remove_edges, W, 2, 1, render=lambda r: r.tolist()), "oracle": "0/1 subgraph of the pattern with 3-2 edges"})
    out.append({"function": F + "remove_edges", "inputs": {"A": C.jsonable(W), "no_edges": 4, "random_state": 1},
                "library": C.lib(U.remove_edges, W, 4, 1, render=lambda r: r.tolist()), "oracle": "ValueError (4 > 3)"})
    return out


def run(tier, seed):
    thorough = tier == "thorough"
    pmax = 5 if thorough else 4
    nseeds = 5 if thorough else 3
    tasks = []
    for p in range(1, pmax + 1):
        for ch in C.chunked(O.all_dags(p), 20 if p < 5 else 60):
            tasks.append(("dag", p, ch, seed, nseeds))
    tasks.sort(key=lambda t: -t[1])
    tally = C.Tally(HARNESS, CHECKS)
    C.run_pool(worker, tasks, tally)
    rule = ("every DAG on p<=%d labelled nodes x {int 0/1, signed float weights} x random_state 0..%d x every no_edges from 0 to one past "
            "the feasible maximum (#edges for remove_edges, p(p-1)/2 - #edges for add_edges); each case is called twice (determinism). "
            "Feasible: 0/1 sub-/supergraph of the pattern with exactly k fewer/more edges, add_edges result acyclic by the oracle's own "
            "detector, no self-loop or 2-cycle; infeasible: ValueError and nothing else; input unchanged. non-trivial = DAG with >=1 edge; "
            "distinct = exact integer key (kind, p, matrix bits) in a set" % (pmax, nseeds - 1))
    return C.report(tally, rule, exhaustive=True, bound="p<=%d, seeds 0..%d" % (pmax, nseeds - 1), samples=C.safe_samples(samples))


if __name__ == "__main__":
    C.main(HARNESS, CHECKS, run)
