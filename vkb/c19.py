"""C19 - semi-synthetic DRFNet samples factorise according to the given graph.

    cd /repo && PYTHONPATH=/repo:/verif/fake_rpy2:/verif /venv/bin/python -m vkb.c19 quick|thorough <seed>
    cd /repo && PYTHONPATH=/repo:/verif/fake_rpy2:/verif /venv/bin/python -m vkb.c19 replay <file>

The R forest is replaced by the deterministic stand-in behind the rpy2 interface
(/verif/fake_rpy2, put on sys.path before sempler.semi is imported); its CALLS
log shows what the Python side (sempler.semi + drf/code.py) sent to the backend.
The data carry values that are unique per (environment, variable), so the
checker can tell where every synthetic value came from.
"""
import random

import numpy as np

from . import common as C
from . import oracles as O

HARNESS = "vkb.c19"
S = C.load_sempler()                     # inserts the stand-in rpy2 first
import sempler.semi as SEMI              # noqa: E402
from rpy2.robjects import packages as BACKEND   # noqa: E402

F_SAMPLE = "sempler.semi.DRFNet.sample"
F_ERR = "sempler.semi.DRFNet"

# ----------------------------------------------------------------------------
# data: variable i of environment k takes the values 10^(i mod 5 - 2) * (1000*(k+1) + 37*i + row) in a scrambled row order


def make_data(p, sizes, seed=0):
    out = []
    for k, n in enumerate(sizes):
        X = np.zeros((n, p))
        for i in range(p):
            perm = np.random.default_rng([seed, k, i]).permutation(n)
            X[:, i] = 10.0 ** (i % 5 - 2) * (100000 * (i + 1) + 1000 * (k + 1) + perm)
        out.append(X)
    return out


def parents_of(graph):
    p = len(graph)
    return [[j for j in range(p) if graph[j, i] != 0] for i in range(p)]


def check_sample(graph, data, n=None, random_state=None):
    graph = np.asarray(graph)
    data = [np.asarray(d) for d in data]
    p, e = len(graph), len(data)
    pa = parents_of(graph)
    snap = C.freeze([graph, data, n])
    del BACKEND.CALLS[:]
    st, net = C.call(SEMI.DRFNet, graph, data)
    if st == "exc":
        return 1, C.unexpected_exception(net, "DRFNet constructor with valid arguments")
    viols = []
    calls = 1
    # --- fitting: one forest per (non-source node, environment) on data[k][:, sorted parents] -> data[k][:, i]
    fits = [c for c in BACKEND.CALLS if c[0] == "fit"]
    want_fits = {(i, k) for i in range(p) if pa[i] for k in range(e)}
    got_fits = {}
    for c in fits:
        X, Y = c[1], c[2]
        owner = [(i, k) for (i, k) in want_fits if Y.shape == (len(data[k]), 1) and np.array_equal(Y[:, 0], data[k][:, i])]
        if len(owner) != 1:
            viols.append(("DRFNet: a forest is fitted on a response that is not one variable of one environment", "Y = %s" % C.short(Y.tolist(), 150)))
            continue
        i, k = owner[0]
        got_fits[(i, k)] = got_fits.get((i, k), 0) + 1
        if X.shape != (len(data[k]), len(pa[i])) or not np.array_equal(X, data[k][:, pa[i]]):
            viols.append(("DRFNet: the forest of a variable is not fitted on its parents' columns in increasing index order",
                          "node %d environment %d parents %s: predictors %s" % (i, k, pa[i], C.short(X.tolist(), 200))))
    if set(got_fits) != want_fits or any(v != 1 for v in got_fits.values()):
        viols.append(("DRFNet: not exactly one forest per (non-source variable, environment)", "fitted %s expected %s" % (sorted(got_fits.items()), sorted(want_fits))))
    # --- sampling
    mark = len(BACKEND.CALLS)
    st, out = C.call(net.sample, n, random_state)
    calls += 1
    if st == "exc":
        return calls, viols + C.unexpected_exception(out, "DRFNet.sample with valid arguments")
    sizes = [len(d) for d in data] if n is None else ([n] * e if isinstance(n, int) else list(n))
    if not isinstance(out, list) or len(out) != e or any(not isinstance(a, np.ndarray) or a.shape != (sizes[k], p) for k, a in enumerate(out)):
        return calls, viols + [("DRFNet.sample: result is not a list with one (n_k, p) array per environment",
                                "expected shapes %s, got %s" % ([(s, p) for s in sizes], C.short([getattr(a, "shape", a) for a in out] if isinstance(out, list) else out)))]
    predicts = [c for c in BACKEND.CALLS[mark:] if c[0] == "predict"]
    seen = {}
    for c in predicts:
        fit, D = c[1], c[2]
        owner = [(i, k) for (i, k) in want_fits if fit.Y.shape == (len(data[k]), 1) and np.array_equal(fit.Y[:, 0], data[k][:, i])]
        if len(owner) != 1:
            continue
        seen.setdefault(owner[0], []).append((fit, D))
    idx = {}
    for k in range(e):
        for i in range(p):
            col = out[k][:, i]
            pos = {v: r for r, v in enumerate(data[k][:, i].tolist())}
            if not all(v in pos for v in col.tolist()):
                viols.append(("DRFNet.sample: a value was never observed for that variable in that environment",
                              "environment %d variable %d: %s" % (k, i, [v for v in col.tolist() if v not in pos][:4])))
                continue
            idx[(k, i)] = [pos[v] for v in col.tolist()]
            if pa[i]:
                q = seen.get((i, k), [])
                if len(q) != 1:
                    viols.append(("DRFNet.sample: the forest of a non-source variable is not queried exactly once for its environment",
                                  "node %d environment %d: %d queries" % (i, k, len(q))))
                    continue
                fit, D = q[0]
                want = out[k][:, pa[i]]
                if D.shape != want.shape or not np.array_equal(D, want):
                    viols.append(("DRFNet.sample: the forest did not receive exactly the synthetic parent columns in increasing index order",
                                  "node %d environment %d parents %s: received %s, sample has %s" % (i, k, pa[i], C.short(D.tolist(), 150), C.short(want.tolist(), 150))))
                if fit.X.shape != (len(data[k]), len(pa[i])) or not np.array_equal(fit.X, data[k][:, pa[i]]):
                    viols.append(("DRFNet.sample: the forest queried is not the one fitted on the variable's sorted parents in that environment",
                                  "node %d environment %d" % (i, k)))
        # independent bootstrap of the source variables
        sources = [i for i in range(p) if not pa[i] and (k, i) in idx]
        if len(data[k]) >= 2 and sizes[k] * np.log10(len(data[k])) >= 10:        # chance coincidence < 1e-10
            for a in range(len(sources)):
                for b in range(a + 1, len(sources)):
                    if idx[(k, sources[a])] == idx[(k, sources[b])]:
                        viols.append(("DRFNet.sample: two source variables are resampled with the same row indices (not independent)",
                                      "environment %d variables %d and %d: rows %s" % (k, sources[a], sources[b], idx[(k, sources[a])][:10])))
    # --- reproducibility / non-degeneracy
    C.perturb_global_rng(1)
    st2, out2 = C.call(net.sample, n, random_state)
    calls += 1
    if st2 == "exc":
        viols += C.unexpected_exception(out2, "second DRFNet.sample call")
    elif random_state is not None:
        if C.freeze(out2) != C.freeze(out):
            viols.append(("DRFNet.sample: not reproducible with a random_state", "random_state=%s: two calls differ" % random_state))
    elif sum(s * np.log10(max(1, len(d))) for s, d in zip(sizes, data)) >= 10 and C.freeze(out2) == C.freeze(out):     # >= 1 source variable per environment
        viols.append(("DRFNet.sample: unseeded consecutive calls return the same sample", C.short(out, 150)))
    if C.freeze([graph, data, n]) != snap:
        viols.append(("DRFNet: arguments modified", "graph / data / n changed"))
    if C.shares(out, data):
        viols.append(("DRFNet.sample: result shares memory with the caller's data", "np.shares_memory"))
    return calls, viols


# ----------------------------------------------------------------------------
# documented errors

ERR_CASES = {
    "graph_list": ("ctor", TypeError), "graph_none": ("ctor", TypeError), "graph_1d": ("ctor", ValueError), "graph_3d": ("ctor", ValueError),
    "graph_cycle": ("ctor", ValueError), "graph_selfloop": ("ctor", ValueError), "graph_2cycle_cancelling": ("ctor", ValueError),
    "data_array": ("ctor", TypeError), "data_tuple": ("ctor", TypeError), "data_elem_list": ("ctor", TypeError), "data_elem_none": ("ctor", TypeError),
    "data_elem_1d": ("ctor", ValueError), "data_elem_3d": ("ctor", ValueError), "data_cols_few": ("ctor", ValueError), "data_cols_many": ("ctor", ValueError),
    "n_float": ("sample", TypeError), "n_str": ("sample", TypeError), "n_tuple": ("sample", TypeError), "n_zero": ("sample", ValueError), "n_negative": ("sample", ValueError),
    "n_list_zero": ("sample", ValueError), "n_list_negative": ("sample", ValueError), "n_list_short": ("sample", ValueError), "n_list_long": ("sample", ValueError),
    "n_list_empty": ("sample", ValueError), "n_list_float": ("sample", TypeError), "n_list_str": ("sample", TypeError),
}


def check_errors(case, p=3, e=2):
    where, exc = ERR_CASES[case]
    p = max(2, int(p))
    graph = np.triu(np.ones((p, p), dtype=int), k=1)
    data = make_data(p, [10 + k for k in range(e)])
    n = None
    if case == "graph_list":
        graph = graph.tolist()
    elif case == "graph_none":
        graph = None
    elif case == "graph_1d":
        graph = np.zeros(p)
    elif case == "graph_3d":
        graph = np.zeros((p, p, 1))
    elif case == "graph_cycle":
        graph = graph.copy()
        graph[p - 1, 0] = 1
    elif case == "graph_selfloop":
        graph = graph.astype(float)
        graph[0, 0] = -1.0
    elif case == "graph_2cycle_cancelling":
        graph = np.zeros((p, p))
        graph[0, 1], graph[1, 0] = 1.0, -1.0
    elif case == "data_array":
        data = np.array([d[:10] for d in data])
    elif case == "data_tuple":
        data = tuple(data)
    elif case == "data_elem_list":
        data[-1] = data[-1].tolist()
    elif case == "data_elem_none":
        data[0] = None
    elif case == "data_elem_1d":
        data[-1] = data[-1][:, 0]
    elif case == "data_elem_3d":
        data[0] = data[0][:, :, None]
    elif case == "data_cols_few":
        data[-1] = data[-1][:, :p - 1]
    elif case == "data_cols_many":
        data[0] = np.hstack([data[0], data[0][:, :1]])
    else:
        n = {"n_float": 5.0, "n_str": "5", "n_tuple": (5,) * e, "n_zero": 0, "n_negative": -3, "n_list_zero": [5] * (e - 1) + [0],
             "n_list_negative": [-1] + [5] * (e - 1), "n_list_short": [5] * (e - 1), "n_list_long": [5] * (e + 1), "n_list_empty": [],
             "n_list_float": [5] * (e - 1) + [5.0], "n_list_str": ["5"] + [5] * (e - 1)}[case]
    st, net = C.call(SEMI.DRFNet, graph, data)
    what = "DRFNet(%s)" % case
    if where == "ctor":
        if st == "exc" and type(net) is exc:
            return 1, []
        return 1, [("invalid graph / data argument does not raise the documented %s" % exc.__name__,
                    "%s: %s" % (what, "no exception" if st == "ok" else "%s: %s" % (type(net).__name__, C.short(str(net), 150))))]
    if st == "exc":
        return 1, C.unexpected_exception(net, "DRFNet constructor with valid arguments")
    viols = []
    for rs in (None, 0):
        st, r = C.call(net.sample, n, rs)
        if not (st == "exc" and type(r) is exc):
            viols.append(("invalid n does not raise the documented %s" % exc.__name__,
                          "sample(n=%r, random_state=%s) with %d environments: %s" % (n, rs, e, "returned %s" % C.short([getattr(a, "shape", a) for a in r] if isinstance(r, list) else r, 100)
                                                                                       if st == "ok" else "%s: %s" % (type(r).__name__, C.short(str(r), 150)))))
            break
    return 3, viols


CHECKS = {F_SAMPLE: check_sample, F_ERR: check_errors}

# ----------------------------------------------------------------------------
# domain


def big_graphs(hseed, count):
    """p in {4, 10}; the first p=10 graph has a node with parents {1, 8} (set iteration order 8, 1) and one with {0, 9, 3}."""
    out = []
    G = np.zeros((10, 10), dtype=int)
    G[1, 4] = G[8, 4] = 1
    G[0, 5] = G[9, 5] = G[3, 5] = 1
    G[4, 6] = 1
    out.append(G)
    G = np.zeros((10, 10), dtype=int)
    G[8, 2] = G[1, 2] = G[9, 2] = 1
    G[2, 0] = G[8, 0] = 1
    G[9, 8] = 1
    out.append(G)
    rng = random.Random("c19-%d" % hseed)
    for c in range(count):
        p = 4 if c % 2 else 10
        order = list(range(p))
        rng.shuffle(order)
        G = np.zeros((p, p), dtype=int)
        for a in range(p):
            for b in range(a + 1, p):
                if rng.random() < (0.5 if p == 4 else 0.25):
                    G[order[a], order[b]] = 1
        out.append(G)
    return out


def n_options(e, rng):
    opts = [None, rng.choice((1, 3, 9, 12)), [rng.choice((1, 2, 8, 13)) for _ in range(e)]]
    return opts


SIZE_SETS = ([11], [10, 14], [12, 7, 15], [30], [10, 21])


def worker(task):
    t = C.Tally(HARNESS, CHECKS)
    graphs, seeds, hseed = task
    for gi, G in graphs:
        p = len(G)
        rng = random.Random("c19w-%d-%d" % (gi, hseed))
        code = O.encode(G)
        variants = [G, O.weighted(p, code, hseed)] if p <= 4 else [G if gi % 2 else O.weighted(p, code, hseed)]
        for V in variants:
            for sizes in (SIZE_SETS if p <= 3 else rng.sample(SIZE_SETS, 3)):
                data = make_data(p, sizes, seed=gi)
                for n in n_options(len(sizes), rng):
                    for s in seeds:
                        t.check(F_SAMPLE, graph=V, data=data, n=n, random_state=s)
            t.mark((p, V.tobytes()))
    return t.export()


def err_worker(task):
    t = C.Tally(HARNESS, CHECKS)
    for case in task:
        for p in (2, 3, 5):
            for e in (1, 2, 3):
                t.check(F_ERR, case=case, p=p, e=e)
        t.mark(("err", case))
    return t.export()


def samples():
    out = []
    G = big_graphs(0, 0)[0]
    data = make_data(10, [10, 12])
    def lib():
        del BACKEND.CALLS[:]
        net = SEMI.DRFNet(G, data)
        s = net.sample(3, random_state=0)
        q = [c[2].shape for c in BACKEND.CALLS if c[0] == "predict"]
        return {"shapes": [a.shape for a in s], "backend predict queries": q, "column 4 of env 0": s[0][:, 4].tolist()}
    out.append({"function": F_SAMPLE, "inputs": {"graph": "10 nodes, 4 <- {1, 8}, 5 <- {0, 3, 9}, 6 <- {4}", "sizes": [10, 12], "n": 3, "random_state": 0},
                "library": C.lib(lib), "oracle": "2 arrays (3, 10); queries with 2, 3 and 1 columns per environment; values of column 4 among data[0][:, 4]"})
    out.append({"function": F_ERR, "inputs": {"case": "n_list_long", "p": 3, "e": 2}, "library": C.lib(lambda: check_errors("n_list_long", 3, 2)[1]), "oracle": "ValueError"})
    return out


def run(tier, seed):
    thorough = tier == "thorough"
    graphs = [O.decode(p, c) for p in (1, 2, 3) for c in O.all_dags(p)]
    graphs += big_graphs(seed, 60 if thorough else 20)
    if thorough:
        graphs += [O.decode(4, c) for c in O.all_dags(4)]
    seeds = (0, 1, None, 42, 2 ** 32 - 1) if thorough else (0, None, 42)
    indexed = list(enumerate(graphs))
    indexed.sort(key=lambda x: -len(x[1]))
    tasks = [(ch, seeds, seed) for ch in C.chunked(indexed, 1 if not thorough else 3)]
    tally = C.Tally(HARNESS, CHECKS)
    C.run_pool(worker, tasks, tally)
    t2 = C.Tally(HARNESS, CHECKS)
    C.run_pool(err_worker, C.chunked(sorted(ERR_CASES), 3), t2)
    tally.merge(t2.export())
    rule = ("graphs: every DAG on p<=%d nodes (0/1 and signed weights) + %d graphs on p in {4, 10} (two fixed p=10 graphs with parent sets {1,8}, {0,3,9}, {1,8,9}, "
            "{2,8}) x data with environment sizes from %s (distinct sizes, scales 1e-2..1e2, values unique per (environment, variable)) x n in {None, int, "
            "per-environment list} x random_state in %s. Checked through the stand-in backend's log: exactly one forest per (non-source variable, environment), "
            "fitted on data[k][:, sorted parents] -> data[k][:, i]; during sample each forest is queried once with exactly the synthetic parent columns "
            "of the returned sample (increasing index order); output = list of (n_k, p) arrays whose values were observed for that variable in that "
            "environment; row-index vectors of two source variables differ (checked when N_k^-n_k <= 1e-10); two calls with the same random_state separated by "
            "global-RNG activity are byte-identical, unseeded calls differ; arguments unchanged, no shared memory. %d invalid-argument cases x p in {2,3,5} x "
            "1..3 environments must raise exactly the documented TypeError / ValueError. non-trivial = graph variant / error case"
            % (4 if thorough else 3, len(graphs) - sum(len(O.all_dags(p)) for p in ((1, 2, 3, 4) if thorough else (1, 2, 3))), [list(s) for s in SIZE_SETS],
               list(seeds), len(ERR_CASES)))
    return C.report(tally, rule, exhaustive=False, bound="p<=%d exhaustive; p in {4,10} sampled" % (4 if thorough else 3), samples=C.safe_samples(samples))


if __name__ == "__main__":
    C.main(HARNESS, CHECKS, run)
