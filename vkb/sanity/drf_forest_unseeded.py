# planted bug (the pinned upstream behaviour): the forests' draws are not tied to random_state
import inspect
import sempler.semi as M
src = inspect.getsource(M.DRFNet.sample).replace("np.random.seed(random_state) if random_state is not None else None", "pass").replace("super().sample(n)", "BayesianNetwork.sample(self, n)")
assert "        pass\n" in src
ns = dict(M.__dict__)
exec(compile("class _Y:\n" + src, "<mutant DRFNet.sample>", "exec"), ns)
M.DRFNet.sample = ns["_Y"].sample
