# deliberately wrong ORACLE: the essential graph keeps only the edges common to all members
import vkb.oracles as O
def _ess(codes):
    codes = list(codes)
    e = codes[0]
    for g in codes:
        e &= g
    return e
O.essential = _ess
