# planted bug: is_consistent_extension no longer compares v-structures
utils.vstructures = lambda A: set()
