# planted bug: Meek rule 4 never fires
utils.rule_4 = lambda i, j, A: False
