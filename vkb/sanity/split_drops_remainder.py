# planted bug (the pinned upstream behaviour): the last fold also takes round(n*ratio) rows, the remainder is dropped
import inspect
src = inspect.getsource(utils.split_data).replace("if i < n_folds - 1:", "if i < n_folds:")
assert "if i < n_folds:" in src
exec(compile(src, "<mutant split_data>", "exec"), utils.__dict__)
