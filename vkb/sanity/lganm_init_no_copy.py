# planted bug: LGANM.__init__ keeps references to the caller's arrays instead of copies
import inspect
import sempler.lganm as L
src = inspect.getsource(L.LGANM.__init__).replace("self.W = W.copy()", "self.W = W").replace("self.means = means.copy()", "self.means = means")
assert "self.W = W\n" in src and "self.means = means\n" in src
ns = {}
exec(compile("import numpy as np\nimport sempler.utils as utils\nclass _X:\n" + src, "<mutant LGANM.__init__>", "exec"), ns)
L.LGANM.__init__ = ns["_X"].__init__
