# planted bug: semi_directed_paths loses one path when there are more than two
_s = utils.semi_directed_paths
utils.semi_directed_paths = lambda fro, to, A: (lambda r: r[:-1] if len(r) > 2 else r)(_s(fro, to, A))
