# planted bug: NormalDistribution.__init__ keeps the caller's arrays
import inspect
import sempler.normal_distribution as M
src = inspect.getsource(M.NormalDistribution.__init__).replace("self.mean = mean.copy()", "self.mean = mean").replace("self.covariance = covariance.copy()", "self.covariance = covariance")
assert "self.mean = mean\n" in src
ns = {}
exec(compile("import numpy as np\nimport warnings\nclass _X:\n" + src, "<mutant NormalDistribution.__init__>", "exec"), ns)
M.NormalDistribution.__init__ = ns["_X"].__init__
