# planted bug: descendants no longer contain the node itself; paths ignore undirected edges into the target
_d = utils.descendants
utils.descendants = lambda i, A: _d(i, A) - {i}
