# planted bug (the pinned upstream behaviour): every bootstrap draw is seeded with the same random_state
import inspect
import sempler.semi as M
src = inspect.getsource(M.DRFNet.sample).replace("random_state=rng", "random_state=random_state").replace("super().sample(n)", "BayesianNetwork.sample(self, n)")
assert "random_state=random_state" in src
ns = dict(M.__dict__)
exec(compile("class _Y:\n" + src, "<mutant DRFNet.sample>", "exec"), ns)
M.DRFNet.sample = ns["_Y"].sample
