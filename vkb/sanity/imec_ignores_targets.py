# planted bug: dag_to_icpdag only orients the edges OUT of the targets (parents of targets are forgotten)
import inspect
src = inspect.getsource(utils.dag_to_icpdag).replace("directed_edges += [(j, i) for j in pa(i, G)]", "pass")
assert "pass" in src
exec(compile(src, "<mutant dag_to_icpdag>", "exec"), utils.__dict__)
