# planted bug: only_directed returns its argument when there is no undirected edge (shortcut without copy)
_od = utils.only_directed
def _only_directed(P):
    if not np.logical_and(P != 0, P.T != 0).any():
        return P
    return _od(P)
utils.only_directed = _only_directed
