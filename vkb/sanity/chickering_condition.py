# planted bug: pdag_to_dag uses the (wrong) summarised condition "N_x u Pa_x is a clique" of Chickering 2002
_adj = utils.adj
def _pdag_to_dag(P, debug=False):
    oP = P.copy()
    G = utils.only_directed(P)
    indexes = list(range(len(P)))
    while P.size > 0:
        found = False
        i = 0
        while not found and i < len(P):
            sink = len(utils.ch(i, P)) == 0
            n_i = utils.neighbors(i, P)
            clique = utils.is_clique(n_i | utils.pa(i, P), P)
            found = sink and clique
            if found:
                real_i = indexes[i]
                for j in [indexes[j] for j in n_i]:
                    G[j, real_i] = 1
                keep = list(set(range(len(P))) - {i})
                P = P[keep, :][:, keep]
                indexes.remove(real_i)
            else:
                i += 1
        if not found:
            raise ValueError("PDAG %s does not admit consistent extension" % oP)
    return G
utils.pdag_to_dag = _pdag_to_dag
