# planted bug (the pinned upstream behaviour): interventions are applied on copies with the model's dtype
import inspect
import sempler.lganm as L
src = inspect.getsource(L.LGANM.sample).replace("self.variances.astype(float)", "self.variances.copy()").replace("self.means.astype(float)", "self.means.copy()")
assert "self.means.copy()" in src
ns = {}
exec(compile("import numpy as np\nfrom sempler.lganm import *\nfrom sempler.lganm import _parse_interventions\nclass _X:\n" + src, "<mutant LGANM.sample>", "exec"), ns)
L.LGANM.sample = ns["_X"].sample
