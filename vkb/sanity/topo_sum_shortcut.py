# planted bug (the pinned upstream behaviour): topological_ordering finds sources by summing weights
import inspect
src = inspect.getsource(utils.topological_ordering).replace("(A != 0).sum(axis=0) == 0", "A.sum(axis=0) == 0")
assert "A.sum(axis=0) == 0" in src
exec(compile(src, "<mutant topological_ordering>", "exec"), utils.__dict__)
