# planted bug: remove_edges refuses to remove every edge (<= instead of <)
def _remove_edges(A, no_edges, random_state=42):
    A = A.astype(bool).astype(int)
    rng = np.random.default_rng(random_state)
    edges = utils.directed_edges(A)
    if len(edges) <= no_edges and no_edges > 0:
        raise ValueError("There are not enough edges to remove.")
    pruned = A.copy()
    for (fro, to) in rng.choice(edges, no_edges, replace=False):
        pruned[fro, to] = 0
    return pruned
utils.remove_edges = _remove_edges
