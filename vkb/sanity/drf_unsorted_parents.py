# planted bug: DRFNet.sample passes the parent columns in set-iteration order (differs from sorted once an index >= 8 is involved)
import inspect
import sempler.semi as M
src = inspect.getsource(M.DRFNet.sample).replace("sample[:, sorted(parents)]", "sample[:, list(parents)]").replace("super().sample(n)", "BayesianNetwork.sample(self, n)")
assert "sample[:, list(parents)]" in src
ns = dict(M.__dict__)
exec(compile("class _Y:\n" + src, "<mutant DRFNet.sample>", "exec"), ns)
M.DRFNet.sample = ns["_Y"].sample
