# planted bug (the pinned upstream behaviour): a list n of the wrong length is not rejected
import inspect
import sempler.semi as M
src = inspect.getsource(M.BayesianNetwork.sample).replace("if len(n) != self.e:", "if False:")
assert "if False:" in src
ns = dict(M.__dict__)
exec(compile("class _Y:\n" + src, "<mutant BayesianNetwork.sample>", "exec"), ns)
M.BayesianNetwork.sample = ns["_Y"].sample
