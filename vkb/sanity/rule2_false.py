# planted bug: Meek rule 2 never fires
utils.rule_2 = lambda i, j, A: False
