# planted bug: `if random_state:` seed guard in ANM.sample loses seed 0
import inspect
import sempler.anm as M
src = inspect.getsource(M.ANM.sample).replace("if random_state is not None else None", "if random_state else None")
assert "if random_state else None" in src
ns = {}
exec(compile("import numpy as np\nclass _X:\n" + src, "<mutant ANM.sample>", "exec"), ns)
M.ANM.sample = ns["_X"].sample
