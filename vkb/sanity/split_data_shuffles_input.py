# planted bug: split_data shuffles the caller's arrays (missing copy)
import inspect
src = inspect.getsource(utils.split_data).replace("        sample = sample.copy()\n", "")
assert "sample.copy()" not in src
exec(compile(src, "<mutant split_data>", "exec"), utils.__dict__)
