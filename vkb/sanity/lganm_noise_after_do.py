# planted bug: on a shared target the noise intervention's parameters win over the do intervention's
import sempler.lganm as L
_orig = L.LGANM.sample
def _sample(self, n=100, population=False, do_interventions={}, shift_interventions={}, noise_interventions={}, random_state=None):
    do = dict(do_interventions or {})
    for t, v in (noise_interventions or {}).items():
        if t in do:
            do[t] = v
    return _orig(self, n, population, do, shift_interventions, noise_interventions, random_state)
L.LGANM.sample = _sample
