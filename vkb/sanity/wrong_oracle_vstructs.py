# deliberately wrong ORACLE: v-structures also count shielded colliders
import vkb.oracles as O
def _vs(p, code):
    d = O.parts(p, code)[0]
    out = []
    for c in range(p):
        pars = [i for i in range(p) if (d >> (i * p + c)) & 1]
        out += [(pars[a], c, pars[b]) for a in range(len(pars)) for b in range(a + 1, len(pars))]
    return frozenset(out)
O.vstructs = _vs
