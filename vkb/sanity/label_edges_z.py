# planted bug: in label_edges the test "z is not a parent of x" is dropped (z_exists ignores pa(x))
import inspect, textwrap
src = inspect.getsource(utils.label_edges).replace("len(pa(y, labelled) - {x} - pa(x, labelled)) > 0", "len(pa(y, labelled) - {x}) > 0")
assert "len(pa(y, labelled) - {x}) > 0" in src
exec(compile(src, "<mutant label_edges>", "exec"), utils.__dict__)
