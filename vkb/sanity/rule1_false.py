# planted bug: Meek rule 1 never fires
utils.rule_1 = lambda i, j, A: False
