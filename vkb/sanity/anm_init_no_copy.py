# planted bug: ANM.__init__ keeps the caller's adjacency and lists instead of copies
import sempler.anm as M
import sempler.functions as functions
def _init(self, A, assignments, noise_distributions):
    self.ordering = utils.topological_ordering(A)
    self.p = len(A)
    self.A = A
    for k, fun in enumerate(assignments):
        if fun is None:
            assignments[k] = functions.null
    self.assignments = assignments
    self.noise_distributions = noise_distributions
M.ANM.__init__ = _init
