# planted bug: intervention_targets samples the sizes from numpy's global generator (seeded once with random_state, later calls drift)
import inspect
import sempler.generators as G
src = inspect.getsource(G.intervention_targets).replace("sizes = rng.integers(size[0], size[1] + 1, K)", "sizes = np.random.randint(size[0], size[1] + 1, K)")
assert "np.random.randint" in src
exec(compile(src, "<mutant intervention_targets>", "exec"), G.__dict__)
