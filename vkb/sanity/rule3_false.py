# planted bug: Meek rule 3 never fires
utils.rule_3 = lambda i, j, A: False
