# planted bug (the pinned upstream behaviour): ratio sum compared exactly in floating point
import inspect
src = inspect.getsource(utils.split_data).replace("abs(np.sum(ratios) - 1) > 1e-9", "np.sum(ratios) != 1")
assert "np.sum(ratios) != 1" in src
exec(compile(src, "<mutant split_data>", "exec"), utils.__dict__)
