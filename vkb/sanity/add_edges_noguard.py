# planted bug: add_edges inserts edges without the acyclicity guard
import inspect
src = inspect.getsource(utils.add_edges).replace("if is_dag(next_supergraph):", "if True:")
assert "if True:" in src
exec(compile(src, "<mutant add_edges>", "exec"), utils.__dict__)
