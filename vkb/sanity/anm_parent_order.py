# planted bug: ANM.sample hands the parent columns to the assignment in decreasing index order
import inspect
import sempler.anm as M
src = inspect.getsource(M.ANM.sample).replace("X[:, self.A[:, i] != 0]", "X[:, np.where(self.A[:, i] != 0)[0][::-1]]")
assert "[::-1]" in src
ns = {}
exec(compile("import numpy as np\nclass _X:\n" + src, "<mutant ANM.sample>", "exec"), ns)
M.ANM.sample = ns["_X"].sample
