# planted bug: ANM.sample ignores a do-intervention on a variable that is also shift-intervened
import inspect
import sempler.anm as M
src = inspect.getsource(M.ANM.sample).replace("if i in do_interventions:", "if i in do_interventions and i not in shift_interventions:")
assert "and i not in shift_interventions" in src
ns = {}
exec(compile("import numpy as np\nclass _X:\n" + src, "<mutant ANM.sample>", "exec"), ns)
M.ANM.sample = ns["_X"].sample
