# planted bug: LGANM.sample applies the interventions on the model's own float arrays (astype without copy)
import inspect
import sempler.lganm as L
src = inspect.getsource(L.LGANM.sample).replace("self.variances.astype(float)", "self.variances.astype(float, copy=False)").replace("self.means.astype(float)", "self.means.astype(float, copy=False)")
assert "copy=False" in src
ns = {}
exec(compile("import numpy as np\nfrom sempler.lganm import *\nfrom sempler.lganm import _parse_interventions\nclass _X:\n" + src, "<mutant LGANM.sample>", "exec"), ns)
L.LGANM.sample = ns["_X"].sample
