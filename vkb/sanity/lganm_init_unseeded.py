# planted bug: LGANM.__init__ ignores random_state when drawing the means
import inspect
import sempler.lganm as L
src = inspect.getsource(L.LGANM.__init__).replace("self.means = rng.uniform(means[0], means[1], size=self.p)", "self.means = np.random.uniform(means[0], means[1], size=self.p)")
assert "np.random.uniform(means[0]" in src
ns = {}
exec(compile("import numpy as np\nimport sempler.utils as utils\nclass _X:\n" + src, "<mutant LGANM.__init__>", "exec"), ns)
L.LGANM.__init__ = ns["_X"].__init__
