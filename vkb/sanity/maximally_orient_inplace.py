# planted bug: maximally_orient orients the edges in the caller's matrix
import inspect
src = inspect.getsource(utils.maximally_orient).replace("    P = P.copy()\n", "")
assert "P = P.copy()" not in src
exec(compile(src, "<mutant maximally_orient>", "exec"), utils.__dict__)
