# planted bug: `if random_state:` seed guard in NormalDistribution.sample loses seed 0
import inspect
import sempler.normal_distribution as M
src = inspect.getsource(M.NormalDistribution.sample).replace("if random_state is not None else None", "if random_state else None")
assert "if random_state else None" in src
ns = {}
exec(compile("import numpy as np\nclass _X:\n" + src, "<mutant NormalDistribution.sample>", "exec"), ns)
M.NormalDistribution.sample = ns["_X"].sample
