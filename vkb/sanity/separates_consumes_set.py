# planted bug: separates empties the caller's set A while iterating
_sep = utils.separates
def _separates(S, A, B, G):
    r = _sep(S, A, B, G)
    while A:
        A.pop()
    return r
utils.separates = _separates
