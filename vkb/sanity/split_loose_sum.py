# planted bug: ratio sum compared with numpy's default isclose tolerance (accepts sums off by 1e-5)
import inspect
src = inspect.getsource(utils.split_data).replace("abs(np.sum(ratios) - 1) > 1e-9", "not np.isclose(np.sum(ratios), 1)")
assert "np.isclose" in src
exec(compile(src, "<mutant split_data>", "exec"), utils.__dict__)
