"""C01 - LGANM population law equals the intervened structural equations.

    cd /repo && PYTHONPATH=/repo:/verif/fake_rpy2:/verif /venv/bin/python -m vkb.c01 quick|thorough <seed>
    cd /repo && PYTHONPATH=/repo:/verif/fake_rpy2:/verif /venv/bin/python -m vkb.c01 replay <file>

Oracle: exact rational arithmetic (fractions.Fraction of the given numbers).
Every variable is written as an affine combination of the noise terms by forward
substitution along the oracle's own topological order of the intervened graph;
no matrix inverse, no numpy, nothing of sempler.
"""
import itertools
import random
from fractions import Fraction

import numpy as np

from . import common as C
from . import oracles as O

HARNESS = "vkb.c01"
S = C.load_sempler()
F_POP = "sempler.LGANM.sample"
F_INIT = "sempler.LGANM.__init__"
RTOL = 1e-9
KINDS = ("none", "do", "noise", "shift", "do+noise", "do+shift", "noise+shift", "do+noise+shift")

# ----------------------------------------------------------------------------
# oracle


def fr(x):
    if isinstance(x, (int, np.integer)):
        return Fraction(int(x))
    return Fraction(float(x))


def parse(params):
    """(mean, variance) of an intervention parameter: tuple or scalar (=> point mass)."""
    if isinstance(params, tuple):
        return fr(params[0]), fr(params[1])
    return fr(params), Fraction(0)


def exact_law(W, means, variances, do, noise, shift):
    p = len(W)
    w = [[fr(W[i][j]) for j in range(p)] for i in range(p)]
    mu = [fr(x) for x in means]
    var = [fr(x) for x in variances]
    do, noise, shift = do or {}, noise or {}, shift or {}
    for t in range(p):
        if t in do:
            mu[t], var[t] = parse(do[t])
            for i in range(p):
                w[i][t] = Fraction(0)
        elif t in noise:
            mu[t], var[t] = parse(noise[t])
        elif t in shift:
            m, v = parse(shift[t])
            mu[t], var[t] = mu[t] + m, var[t] + v
    # own topological order: repeatedly take a node all of whose parents are done
    done, order = set(), []
    while len(order) < p:
        for j in range(p):
            if j not in done and all(w[i][j] == 0 or i in done for i in range(p)):
                done.add(j)
                order.append(j)
                break
        else:
            raise ValueError("cyclic")
    coef = [None] * p       # X_j = sum_l coef[j][l] * N_l
    for j in order:
        c = [Fraction(0)] * p
        c[j] = Fraction(1)
        for i in range(p):
            if w[i][j] != 0:
                for l in range(p):
                    c[l] += w[i][j] * coef[i][l]
        coef[j] = c
    mean = [sum(coef[j][l] * mu[l] for l in range(p)) for j in range(p)]
    cov = [[sum(coef[j][l] * coef[k][l] * var[l] for l in range(p)) for k in range(p)] for j in range(p)]
    return mean, cov


def _close(got, want, scale):
    return abs(Fraction(float(got)) - want) <= Fraction(RTOL) * scale


def check_population(W, means, variances, do_interventions=None, noise_interventions=None, shift_interventions=None):
    W, means, variances = np.asarray(W), np.asarray(means), np.asarray(variances)
    p = len(W)
    st, lg = C.call(S.LGANM, W, means, variances)
    if st == "exc":
        return 1, C.unexpected_exception(lg, "LGANM constructor on a DAG")
    snap = C.freeze([lg.W, lg.means, lg.variances])
    args = {"do_interventions": do_interventions, "noise_interventions": noise_interventions, "shift_interventions": shift_interventions}
    snap_args = C.freeze([W, means, variances, args])
    st, dist = C.call(lg.sample, population=True, **args)
    viols = []
    if st == "exc":
        return 2, C.unexpected_exception(dist, "LGANM.sample(population=True)")
    try:
        m, cv = np.asarray(dist.mean), np.asarray(dist.covariance)
        shape_ok = m.shape == (p,) and cv.shape == (p, p) and np.isfinite(m).all() and np.isfinite(cv).all()
    except Exception:       # noqa: BLE001
        shape_ok = False
    if not shape_ok:
        return 2, [("population law: result is not a distribution with mean (p,) and covariance (p,p)", C.short(dist))]
    em, ec = exact_law(W.tolist(), means.tolist(), variances.tolist(), do_interventions, noise_interventions, shift_interventions)
    sm = max([Fraction(1)] + [abs(x) for x in em])
    sc = max([Fraction(1)] + [abs(x) for row in ec for x in row])
    bad_m = [j for j in range(p) if not _close(m[j], em[j], sm)]
    bad_c = [(j, k) for j in range(p) for k in range(p) if not _close(cv[j, k], ec[j][k], sc)]
    if bad_m:
        viols.append(("population law: mean differs from the exact solution of the intervened equations",
                      "mean %s exact %s" % (m.tolist(), [float(x) for x in em])))
    if bad_c:
        viols.append(("population law: covariance differs from the exact solution of the intervened equations",
                      "covariance %s exact %s" % (cv.tolist(), [[float(x) for x in row] for row in ec])))
    if C.freeze([lg.W, lg.means, lg.variances]) != snap:
        viols.append(("LGANM.sample changed the model's W / means / variances (value or dtype)", "attributes differ from the snapshot after construction"))
    if lg.W.dtype != W.dtype or lg.means.dtype != means.dtype or lg.variances.dtype != variances.dtype:
        viols.append(("LGANM does not keep the dtype of the given arrays", "%s %s %s" % (lg.W.dtype, lg.means.dtype, lg.variances.dtype)))
    if C.freeze([W, means, variances, args]) != snap_args:
        viols.append(("LGANM.sample modified the caller's arrays or intervention dicts", "arguments changed"))
    return 2, viols


def check_init(W, means, variances, random_state=None):
    """Constructor: ValueError iff cyclic / wrong-length arrays; (lo, hi) ranges are drawn inside, one per variable."""
    Wa = np.atleast_2d(np.asarray(W))
    p = len(Wa)
    cyclic = not O.acyclic(p, O.encode(Wa))

    def bad(x):
        return not isinstance(x, tuple) and len(x) != p
    st, lg = C.call(S.LGANM, W, means, variances, random_state)
    if cyclic or bad(means) or bad(variances):
        return 1, C.expect_value_error(st, lg, "LGANM constructor with %s" % ("a cyclic W" if cyclic else "arrays of the wrong length"))
    if st == "exc":
        return 1, C.unexpected_exception(lg, "LGANM constructor with valid arguments")
    viols = []
    for name, given, got in (("means", means, lg.means), ("variances", variances, lg.variances)):
        if not isinstance(got, np.ndarray) or got.shape != (p,):
            viols.append(("LGANM.%s does not have shape (p,)" % name, C.short(got)))
            continue
        if isinstance(given, tuple):
            lo, hi = given
            if not ((got >= lo) & (got <= hi)).all():
                viols.append(("LGANM: sampled %s outside the requested range" % name, "%s not in [%s, %s]" % (got.tolist(), lo, hi)))
            if p >= 2 and lo < hi and len(set(got.tolist())) < 2:
                viols.append(("LGANM: sampled %s are not drawn one per variable" % name, "%s" % got.tolist()))
        elif not C.same_array(got, np.asarray(given)):
            viols.append(("LGANM.%s differs from the given array" % name, "%s vs %s" % (C.short(got), C.short(given))))
    if not (isinstance(lg.W, np.ndarray) and lg.W.shape == (p, p) and (lg.W == Wa).all()) or lg.p != p:
        viols.append(("LGANM.W / p differ from the given matrix", C.short(lg.W)))
    return 1, viols


def _law_viols(lg, W, means, variances, do, what, rtol):
    st, dist = C.call(lg.sample, population=True, do_interventions=do)
    if st == "exc":
        return C.unexpected_exception(dist, "LGANM.sample(population=True) " + what)
    em, ec = exact_law(np.asarray(W).tolist(), np.asarray(means).tolist(), np.asarray(variances).tolist(), do, None, None)
    m, cv = np.asarray(dist.mean), np.asarray(dist.covariance)
    p = len(W)
    sm = max([Fraction(1)] + [abs(x) for x in em])
    sc = max([Fraction(1)] + [abs(x) for row in ec for x in row])
    bad = [j for j in range(p) if abs(Fraction(float(m[j])) - em[j]) > Fraction(rtol) * sm]
    badc = [(j, k) for j in range(p) for k in range(p) if abs(Fraction(float(cv[j, k])) - ec[j][k]) > Fraction(rtol) * sc]
    if bad or badc:
        j = bad[0] if bad else badc[0]
        return [("population law differs from the exact solution after earlier calls on other / near-identical models (call history)",
                 "%s: entry %s library %s exact %s" % (what, j, float(m[j]) if bad else float(cv[j]), float(em[j]) if bad else float(ec[j[0]][j[1]])))]
    return []


def check_history(kind, seed=0):
    """several models in one process: (near) a model whose weights differ from the previous one only beyond the 8th digit;
    (large) 40-variable sparse models, observational call first, then a do-intervention on an inner variable with parents, then a
    second large model that agrees with the first on its corner blocks.  Every answer is compared with the exact rational law."""
    rng = random.Random("c01h-%s-%d" % (kind, seed))
    viols, calls = [], 0
    if kind == "near":
        for eps in (5e-9, 2.0 ** -30, 1e-10):
            base = rng.choice((0.5, -1.25, 2.0))
            for k, w in enumerate((base, base + eps, base, base + 2 * eps)):
                W = np.array([[0, w, 0.5], [0, 0, w], [0, 0, 0]])
                means, variances = np.array([1e3, -2.0, 0.5]), np.array([1.0, 0.5, 2.0])
                lg = S.LGANM(W, means, variances)
                for do in (None, {1: (0.25, 2.0)}):
                    viols += _law_viols(lg, W, means, variances, do, "near-identical model %d (eps %g) do=%s" % (k, eps, do), 1e-13)
                    calls += 1
                if viols:
                    return calls, viols[:1]
        return calls, viols
    p = 40
    models = []
    W = np.zeros((p, p))
    for j in range(1, p):
        W[j - 1, j] = rng.choice((0.5, -1.0, 1.5))
        if j >= 5 and rng.random() < 0.5:
            W[j - 4, j] = rng.choice((0.25, -0.5))
    means = np.array([rng.choice((0.0, 1.0, -2.0)) for _ in range(p)])
    variances = np.array([rng.choice((0.5, 1.0, 2.0)) for _ in range(p)])
    W2 = W.copy()
    W2[10:30, 10:30] *= -2.0          # same corner blocks, other interior
    for (Wm, name) in ((W, "first 40-variable model"), (W2, "second 40-variable model (same corner blocks)")):
        lg = S.LGANM(Wm, means, variances)
        for do in (None, {20: (1.5, 0.25)}, {10: 3.0, 33: (0.0, 1.0)}, None):
            viols += _law_viols(lg, Wm, means, variances, do, "%s do=%s" % (name, do), 1e-9)
            calls += 1
            if viols:
                return calls, viols[:1]
    return calls, viols


F_HIST = F_POP + "#history"
CHECKS = {F_POP: check_population, F_INIT: check_init, F_HIST: check_history}

# ----------------------------------------------------------------------------
# domain

FW = (-2.0, -1.5, -0.5, 0.25, 0.5, 1.0, 3.0, -1.0, 0.1)
IW = (-2, -1, 1, 2, 3)
TUPLES = ((0.5, 0.25), (-1.5, 2.0), (2, 3), (0.1, 0.0), (-0.75, 1.5), (3, 0), (0.3, 0.7), (1.25, 0.125))
SCALARS = (1.5, 2, -0.25, 0, 0.1, -3)


def model(p, code, variant, rng):
    """variant 0: all float, 1: all integer-typed, 2: float W / int means+variances, 3: int W / float means, int variances;
    weights into a node with >=2 parents cancel for variant 0 on even draws."""
    pat = O.decode(p, code)
    intW = variant in (1, 3)
    W = np.zeros((p, p), dtype=np.int64 if intW else np.float64)
    for j in range(p):
        par = [i for i in range(p) if pat[i, j]]
        ws = [rng.choice(IW if intW else FW) for _ in par]
        if len(par) >= 2 and rng.random() < 0.5:
            ws[-1] = -sum(ws[:-1]) or ws[-1]         # the column sums to zero
        for i, x in zip(par, ws):
            W[i, j] = x
    if variant in (1, 2):
        means = np.array([rng.choice((-1, 0, 2, 5)) for _ in range(p)], dtype=np.int64)
    else:
        means = np.array([rng.choice((0.5, -1.25, 0.0, 3.0, 0.1)) for _ in range(p)], dtype=np.float64)
    if variant in (1, 2, 3):
        variances = np.array([rng.choice((0, 1, 2, 4)) for _ in range(p)], dtype=np.int64)
    else:
        variances = np.array([rng.choice((0.0, 0.5, 1.0, 2.25, 0.1)) for _ in range(p)], dtype=np.float64)
    return W, means, variances


def interventions(assignment, rng):
    do, noise, shift = {}, {}, {}
    for t, kind in enumerate(assignment):
        for name, d in (("do", do), ("noise", noise), ("shift", shift)):
            if name in KINDS[kind].split("+"):
                d[t] = rng.choice(TUPLES) if rng.random() < 0.6 else rng.choice(SCALARS)
    # an empty kind is passed as {} or None
    out = []
    for d in (do, noise, shift):
        out.append(d if d else (None if rng.random() < 0.5 else {}))
    return out


def worker(task):
    t = C.Tally(HARNESS, CHECKS)
    p, codes, n_assign, hseed = task
    allassign = list(itertools.product(range(len(KINDS)), repeat=p))
    for code in codes:
        rng = random.Random("c01-%d-%d-%d" % (p, code, hseed))
        assigns = allassign if n_assign is None or n_assign >= len(allassign) else [allassign[0]] + rng.sample(allassign, n_assign - 1)
        for variant in range(4):
            W, means, variances = model(p, code, variant, rng)
            for a in assigns:
                do, noise, shift = interventions(a, rng)
                t.check(F_POP, W=W, means=means, variances=variances, do_interventions=do, noise_interventions=noise, shift_interventions=shift)
                t.mark((p, code, variant, a))
    return t.export()


def init_worker(task):
    t = C.Tally(HARNESS, CHECKS)
    p, lo, hi, hseed = task
    for idx in range(lo, hi):
        rng = random.Random("c01i-%d-%d-%d" % (p, idx, hseed))
        pat = np.array([(idx >> k) & 1 for k in range(p * p)]).reshape(p, p)         # every 0/1 matrix incl. diagonal
        mats = [pat.astype(np.int64), (pat * np.array([[rng.choice(FW) for _ in range(p)] for _ in range(p)])).astype(float)]
        # antisymmetric weights: every 2-cycle cancels in W + W.T and every column of a symmetric pattern sums to 0 where possible
        anti = pat.astype(float)
        for i in range(p):
            for j in range(p):
                if pat[i, j] and (i > j or (i == j and rng.random() < 0.5)):
                    anti[i, j] = -1.0
        mats.append(anti)
        for W in mats:
            t.check(F_INIT, W=W, means=np.zeros(p), variances=np.ones(p))
            t.check(F_INIT, W=W.tolist(), means=(0, 1), variances=(1, 2), random_state=idx % 3)
            t.mark((p, idx, W.tobytes()))
        if O.acyclic(p, O.encode(pat)):
            for seed in (0, 1, None):
                for rng_m, rng_v in (((0, 1), (1, 2)), ((-3.5, -3.25), (0.5, 0.75)), ((2, 2), (0, 10)), ((-1, 1), (1, 1))):
                    t.check(F_INIT, W=mats[1], means=rng_m, variances=rng_v, random_state=seed)
                    t.check(F_INIT, W=mats[0], means=np.arange(p), variances=rng_v, random_state=seed)
            for k in (p + 1, p - 1, 0, 2 * p):
                t.check(F_INIT, W=mats[0], means=np.zeros(k), variances=np.ones(p))
                t.check(F_INIT, W=mats[1], means=np.zeros(p), variances=np.ones(k))
                t.check(F_INIT, W=mats[1], means=np.zeros(k, dtype=int), variances=(0, 1))
    return t.export()


def samples():
    out = []
    W = np.array([[0, 2, -1], [0, 0, 3], [0, 0, 0]])
    means, variances = np.array([1, 0, 2]), np.array([1, 2, 1])
    for do, noise, shift in (({1: (0.5, 0.25)}, None, None), ({2: 1.5}, {2: (3, 3)}, {0: (0.5, 0.5)}), (None, {1: (0.5, 0.25)}, {1: (9, 9)})):
        def lib(W=W, do=do, noise=noise, shift=shift):
            d = S.LGANM(W, means, variances).sample(population=True, do_interventions=do or {}, noise_interventions=noise, shift_interventions=shift)
            return {"mean": d.mean.tolist(), "covariance": d.covariance.tolist()}
        em, ec = exact_law(W.tolist(), means.tolist(), variances.tolist(), do, noise, shift)
        out.append({"function": F_POP, "inputs": {"W": W.tolist(), "means": means.tolist(), "variances": variances.tolist(), "dtype": "int64",
                                                  "do": C.jsonable(do), "noise": C.jsonable(noise), "shift": C.jsonable(shift)},
                    "library": C.lib(lib), "oracle": {"mean": [str(x) for x in em], "covariance": [[str(x) for x in r] for r in ec]}})
    return out


def run(tier, seed):
    thorough = tier == "thorough"
    tasks = []
    plan = {1: None, 2: None, 3: None}
    if thorough:
        plan[4] = 600
    for p, n_assign in plan.items():
        for ch in C.chunked(O.all_dags(p), 1 if p >= 3 else 3):
            tasks.append((p, ch, n_assign, seed))
    tasks.sort(key=lambda x: -x[0])
    tally = C.Tally(HARNESS, CHECKS)
    C.run_pool(worker, tasks, tally)
    t2 = C.Tally(HARNESS, CHECKS)
    itasks = [(p, lo, hi, seed) for p in (1, 2, 3) for (lo, hi) in C.ranges(0, 1 << (p * p), 16)]
    if thorough:
        r = random.Random(seed)
        idxs = sorted(r.sample(range(1 << 16), 3000))
        itasks += [(4, i, i + 1, seed) for i in idxs]
    C.run_pool(init_worker, itasks, t2)
    tally.merge(t2.export())
    t3 = C.Tally(HARNESS, CHECKS)
    for kind in ("near", "large"):
        t3.check(F_HIST, kind=kind, seed=seed)
        t3.mark(("history", kind))
    tally.merge(t3.export())
    rule = ("population law: every DAG pattern on p<=%d nodes x 4 typings (float / integer-typed W, means, variances; signed weights from %s or %s, "
            "zero-sum columns included) x %s of {none, do, noise, shift, do+noise, do+shift, noise+shift, all three} to the nodes, parameters tuples %s or "
            "scalars %s, empty kinds passed as {} or None: mean and covariance of sample(population=True) vs exact Fraction forward substitution "
            "(do cuts incoming edges and overrides noise overrides shift; scalar => variance 0), tolerance 1e-9 x max(1, largest exact entry); model "
            "attributes byte-identical afterwards, dtypes kept, arguments unchanged. constructor: every 0/1 matrix with diagonal on p<=3%s x "
            "{0/1, signed float, antisymmetric +-1 (cancelling 2-cycles)} as array and nested list: ValueError iff the oracle finds a cycle; "
            "wrong-length means/variances => ValueError; (lo,hi) ranges: shape (p,), inside the range, not all equal when lo<hi and p>=2. "
            "call histories: 3-node models whose weights differ only beyond the 8th digit (5e-9, 2^-30, 1e-10) queried in turn (tolerance 1e-13 x scale), and two 40-variable sparse models sharing their corner blocks, observational then do on inner variables. non-trivial = (p, DAG, typing, assignment) / distinct constructor matrix"
            % (4 if thorough else 3, list(FW), list(IW),
               "every assignment (p<=3), 600 sampled per DAG and typing (p=4)" if thorough else "every assignment (p<=3)",
               list(TUPLES), list(SCALARS), " and 3000 sampled p=4" if thorough else ""))
    return C.report(tally, rule, exhaustive=True, bound="p<=%d" % (4 if thorough else 3), samples=C.safe_samples(samples))


if __name__ == "__main__":
    C.main(HARNESS, CHECKS, run)
