"""C10 - interventional equivalence classes and I-CPDAGs are exact.

    cd /repo && PYTHONPATH=/repo:/verif /venv/bin/python -m vkb.c10 quick|thorough <seed>
    cd /repo && PYTHONPATH=/repo:/verif /venv/bin/python -m vkb.c10 replay <file>
"""
import random

import numpy as np

from . import common as C
from . import oracles as O

HARNESS = "vkb.c10"
U = C.load_utils()
F = "sempler.utils."
K_PAIR, K_CHAIN = 5, 6


def as_set(I):
    return {int(t) for t in I}


def mask_to_set(p, m):
    return {i for i in range(p) if (m >> i) & 1}


def set_to_mask(I):
    m = 0
    for t in I:
        m |= 1 << int(t)
    return m


def check_imec(A, I, check_chain=True):
    A = np.asarray(A)
    I = as_set(I)
    p = len(A)
    code = O.encode(A)
    snap = C.snapshot(A)
    I0 = set(I)
    st, r = C.call(U.imec, A, I, check_chain)
    if not O.is_dag_code(p, code) or not I <= set(range(p)):
        viols = C.expect_value_error(st, r, "imec on a non-DAG or targets outside [p]")
    elif st == "exc":
        viols = C.unexpected_exception(r, "imec")
    else:
        viols = C.graph_set_violations(r, p, O.imec_of(p, code, I), "imec")
    if not C.unchanged(snap, A) or I != I0:
        viols.append(("imec: input modified", "A or I changed"))
    return 1, viols


def check_dag_to_icpdag(G, I):
    G = np.asarray(G)
    I = as_set(I)
    p = len(G)
    code = O.encode(G)
    if not O.is_dag_code(p, code) or not I <= set(range(p)):
        return 0, []
    snap = C.snapshot(G)
    I0 = set(I)
    st, r = C.call(U.dag_to_icpdag, G, I)
    if st == "exc":
        viols = C.unexpected_exception(r, "dag_to_icpdag")
    else:
        viols = C.graph_violations(r, p, O.essential(O.imec_of(p, code, I)), "dag_to_icpdag vs essential graph of the I-MEC")
    if not C.unchanged(snap, G) or I != I0:
        viols.append(("dag_to_icpdag: input modified", "G or I changed"))
    return 1, viols


def check_pdag_to_icpdag(P, I):
    P = np.asarray(P)
    I = as_set(I)
    p = len(P)
    code = O.encode(P)
    if not O.is_pdag(p, code) or not I <= set(range(p)):
        return 0, []
    snap = C.snapshot(P)
    st, r = C.call(U.pdag_to_icpdag, P, I)
    undirected_at_target = any(O.nb_set(p, code, t) for t in I)
    exts = O.extensions(p, code)
    if undirected_at_target:
        viols = C.expect_value_error(st, r, "pdag_to_icpdag with an undirected edge at a target")
    elif not exts:
        viols = C.expect_value_error(st, r, "pdag_to_icpdag on a PDAG without consistent extension")
    elif st == "exc":
        viols = C.unexpected_exception(r, "pdag_to_icpdag (all edges at targets directed, extension exists)")
    else:
        # every extension keeps the (all directed) edges at the targets, so they all lie in one I-MEC
        viols = C.graph_violations(r, p, O.essential(O.imec_of(p, exts[0], I)), "pdag_to_icpdag vs essential graph of the I-MEC")
    if not C.unchanged(snap, P):
        viols.append(("pdag_to_icpdag: input modified", "P changed"))
    return 1, viols


def check_chain_graph_IMEC(A, I):
    A = np.asarray(A)
    I = as_set(I)
    p = len(A)
    chain = O.chain_code(p)
    st, r = C.call(U.chain_graph_IMEC, A, I)
    if A.shape != (p, p) or not (A == O.decode(p, chain)).all():
        return 1, C.expect_value_error(st, r, "chain_graph_IMEC on a non-chain graph")
    if not I <= set(range(p)):
        return 0, []
    if st == "exc":
        return 1, C.unexpected_exception(r, "chain_graph_IMEC")
    viols = C.graph_set_violations(r, p, O.imec_of(p, chain, I), "chain_graph_IMEC vs oracle")
    n = 1
    if isinstance(r, np.ndarray) and r.ndim == 3:
        st2, g = C.call(U.imec, A, I, False)
        n += 1
        if st2 == "exc":
            viols += C.unexpected_exception(g, "imec(chain, I, check_chain=False)")
        else:
            viols += C.graph_set_violations(g, p, {O.encode(M) for M in r}, "general path vs chain shortcut")
    return n, viols


CHECKS = {F + "imec": check_imec, F + "dag_to_icpdag": check_dag_to_icpdag, F + "pdag_to_icpdag": check_pdag_to_icpdag,
          F + "chain_graph_IMEC": check_chain_graph_IMEC}


def do_pair(t, p, code, m, seed, members):
    I = mask_to_set(p, m)
    A = O.decode(p, code)
    if code and 0 < m < (1 << p) - 1:
        t.mark(C.key(K_PAIR, p, code, m))
    t.check(F + "imec", A=A, I=set(I), check_chain=True)
    t.check(F + "imec", A=A, I=set(I), check_chain=False)
    t.check(F + "dag_to_icpdag", G=A, I=set(I))
    W = O.weighted(p, code, seed)
    t.check(F + "imec", A=W, I=set(I), check_chain=True)
    t.check(F + "dag_to_icpdag", G=W, I=set(I))
    # completion from the CPDAG (ValueError iff a target has an undirected edge) and from the I-CPDAG itself
    t.check(F + "pdag_to_icpdag", P=O.decode(p, O.essential(O.mec_of(p, code))), I=set(I))
    im = O.imec_of(p, code, I)
    t.check(F + "pdag_to_icpdag", P=O.decode(p, O.essential(im)), I=set(I))
    if members:
        for g in im:
            if g != code:
                t.check(F + "dag_to_icpdag", G=O.decode(p, g), I=set(I))


def worker(task):
    t = C.Tally(HARNESS, CHECKS)
    kind = task[0]
    if kind == "dags":
        _, p, codes, seed = task
        for code in codes:
            for m in range(1 << p):
                do_pair(t, p, code, m, seed, False)
    elif kind == "pairs":
        _, p, pairs, seed = task
        for (code, m) in pairs:
            do_pair(t, p, code, m, seed, True)
    elif kind == "chain":
        _, p, masks = task
        A = O.decode(p, O.chain_code(p), np.float64)
        for m in masks:
            if p >= 2 and 0 < m < (1 << p) - 1:
                t.mark(C.key(K_CHAIN, p, 0, m))
            t.check(F + "chain_graph_IMEC", A=A, I=mask_to_set(p, m))
            t.check(F + "imec", A=A, I=mask_to_set(p, m), check_chain=True)
    return t.export()


def samples():
    out = []
    A = np.array([[0, 1, 1, 0], [0, 0, 0, 1], [0, 0, 0, 1], [0, 0, 0, 0]])
    for I in ({1}, {3}, set()):
        out.append({"function": F + "imec", "inputs": {"A": C.jsonable(A), "I": C.jsonable(I), "check_chain": True},
                    "library": C.lib(U.imec, A, I, render=lambda r: sorted(O.encode(M) for M in r)), "oracle": sorted(O.imec_of(4, O.encode(A), I)),
                    "note": "graph codes: bit i*p+j <=> entry (i,j)"})
    out.append({"function": F + "dag_to_icpdag", "inputs": {"G": C.jsonable(A), "I": C.jsonable({1})},
                "library": C.lib(U.dag_to_icpdag, A, {1}, render=lambda r: r.tolist()), "oracle": C.mat(4, O.essential(O.imec_of(4, O.encode(A), {1})))})
    P = O.decode(4, O.essential(O.mec_of(4, O.encode(A))))
    out.append({"function": F + "pdag_to_icpdag", "inputs": {"P": C.jsonable(P), "I": C.jsonable({0})},
                "library": C.lib(U.pdag_to_icpdag, P, {0}, render=lambda r: r.tolist()), "oracle": "ValueError (target 0 has undirected edges)"})
    return out


def run(tier, seed):
    thorough = tier == "thorough"
    for p in range(1, 6 if thorough else 5):
        O.mec_table(p)
    tasks = []
    for p in range(1, 5):
        for ch in C.chunked(O.all_dags(p), 6 if p == 4 else 25):
            tasks.append(("dags", p, ch, seed))
    n5 = 0
    if thorough:
        rng = random.Random("c10-%d" % seed)
        d5 = O.all_dags(5)
        seen = set()
        while len(seen) < 100000:
            seen.add((rng.choice(d5), rng.randrange(32)))
        pairs = sorted(seen)
        rng.shuffle(pairs)
        n5 = len(pairs)
        for ch in C.chunked(pairs, 200):
            tasks.append(("pairs", 5, ch, seed))
    rng = random.Random("c10-chain-%d" % seed)
    for p in range(1, 11):
        if p <= 6:
            masks = list(range(1 << p))
        else:
            masks = sorted({0, (1 << p) - 1} | {1 << i for i in range(p)} | {rng.randrange(1 << p) for _ in range(30)})
        for ch in C.chunked(masks, 8 if p >= 8 else 32):
            tasks.append(("chain", p, ch))
    tasks.sort(key=lambda t: (t[0] != "chain" or t[1] < 8, -t[1]))
    tally = C.Tally(HARNESS, CHECKS)
    C.run_pool(worker, tasks, tally)
    rule = ("every DAG A on p<=4 labelled nodes x every subset I of the nodes%s: imec(A,I) with check_chain True/False and with a "
            "signed-weight A must equal {members of the brute-force MEC of A whose targets have the same parent sets as in A}, each "
            "once, 0/1; dag_to_icpdag(A,I) (0/1 and weighted A%s) must equal the union graph of that set; pdag_to_icpdag(cpdag(A), I) "
            "must raise ValueError iff a target has an undirected edge (else return the I-CPDAG) and pdag_to_icpdag(icpdag, I) must "
            "return icpdag; I = {} and I = [p] are part of the enumeration (MEC/CPDAG and {A}). Chains p<=10: chain_graph_IMEC and "
            "imec(check_chain=True) vs oracle and vs imec(check_chain=False), all I for p<=6, ~40 seeded I beyond. non-trivial = A has "
            ">=1 edge and I is a non-empty proper subset; distinct = exact integer key (p, matrix bits, I mask) in a set"
            % (" plus a seeded sample of %d distinct (A, I) pairs at p=5" % n5 if thorough else "",
               "; at p=5 also from every other member of the I-MEC" if thorough else ""))
    return C.report(tally, rule, exhaustive=True, bound="p<=4 all (A,I)%s; chains p<=10" % (", sampled p=5" if thorough else ""),
                    samples=C.safe_samples(samples))


if __name__ == "__main__":
    C.main(HARNESS, CHECKS, run)
