"""C09 - consistent-extension search and Meek orientation are sound and complete.

    cd /repo && PYTHONPATH=/repo:/verif /venv/bin/python -m vkb.c09 quick|thorough <seed>
    cd /repo && PYTHONPATH=/repo:/verif /venv/bin/python -m vkb.c09 replay <file>
"""
import numpy as np

from . import common as C
from . import oracles as O

HARNESS = "vkb.c09"
U = C.load_utils()
F = "sempler.utils."
K_PDAG = 2


def check_pdag_to_dag(P):
    P = np.asarray(P)
    p = len(P)
    code = O.encode(P)
    if not O.is_pdag(p, code):
        return 0, []
    snap = C.snapshot(P)
    st, r = C.call(U.pdag_to_dag, P)
    exts = O.extensions(p, code)
    if not exts:
        viols = C.expect_value_error(st, r, "pdag_to_dag on a PDAG without consistent extension")
    elif st == "exc":
        viols = C.unexpected_exception(r, "pdag_to_dag on a PDAG with a consistent extension")
    elif not isinstance(r, np.ndarray) or r.shape != (p, p):
        viols = [("pdag_to_dag: result is not a p x p array", C.short(r))]
    else:
        viols = []
        if not C.is01(r):
            viols.append(("pdag_to_dag: entries are not 0/1", "values %s" % np.unique(r).tolist()[:8]))
        g = O.encode(r)
        if g not in exts:
            why = []
            if not O.is_dag_code(p, g):
                why.append("not a DAG")
            if O.parts(p, g)[2] != O.parts(p, code)[2]:
                why.append("skeleton differs")
            if O.vstructs(p, g) != O.vstructs(p, code):
                why.append("v-structures differ")
            d = O.parts(p, code)[0]
            if g & d != d:
                why.append("a directed edge of P is not kept")
            viols.append(("pdag_to_dag: result is not a consistent extension",
                          "returned %s (%s); %d extensions exist" % (C.mat(p, g), ", ".join(why), len(exts))))
    if not C.unchanged(snap, P):
        viols.append(("pdag_to_dag: input modified", "P changed"))
    return 1, viols


def check_has_consistent_extension(pdag):
    pdag = np.asarray(pdag)
    p = len(pdag)
    code = O.encode(pdag)
    if not O.is_pdag(p, code):
        return 0, []
    snap = C.snapshot(pdag)
    st, r = C.call(U.has_consistent_extension, pdag)
    expected = bool(O.extensions(p, code))
    if st == "exc":
        viols = C.unexpected_exception(r, "has_consistent_extension")
    elif bool(r) != expected:
        viols = [("has_consistent_extension: wrong answer", "returned %s, oracle says %s" % (r, expected))]
    else:
        viols = []
    if not C.unchanged(snap, pdag):
        viols.append(("has_consistent_extension: input modified", "pdag changed"))
    return 1, viols


def check_maximally_orient(P):
    P = np.asarray(P)
    p = len(P)
    code = O.encode(P)
    if not O.is_pdag(p, code):
        return 0, []
    exts = O.extensions(p, code)
    if not exts:
        return 0, []            # the property only speaks about PDAGs that admit an extension
    snap = C.snapshot(P)
    st, r = C.call(U.maximally_orient, P)
    if st == "exc":
        viols = C.unexpected_exception(r, "maximally_orient on a PDAG with a consistent extension")
    elif not isinstance(r, np.ndarray) or r.shape != (p, p):
        viols = [("maximally_orient: result is not a p x p array", C.short(r))]
    else:
        viols = []
        m = O.encode(r)
        # expected: an edge is directed exactly when all extensions agree on it = union graph of the extensions
        expected = O.essential(exts)
        d, und, sk = O.parts(p, code)
        md, mund, msk = O.parts(p, m)
        ed, eund, _ = O.parts(p, expected)
        if msk != sk or md & d != d:
            viols.append(("maximally_orient: skeleton changed or a directed edge of P altered",
                          "got %s from %s" % (C.mat(p, m), C.mat(p, code))))
        else:
            if md & ~ed:
                viols.append(("maximally_orient: unsound orientation (edge directed although the extensions disagree or against them)",
                              "got %s expected %s" % (C.mat(p, m), C.mat(p, expected))))
            if mund & ~eund:
                viols.append(("maximally_orient: incomplete (edge left undirected although every extension orients it the same way)",
                              "got %s expected %s" % (C.mat(p, m), C.mat(p, expected))))
        if O.is_pdag(p, m):
            e2 = O.extensions(p, m)
            if sorted(e2) != sorted(exts):
                viols.append(("maximally_orient: set of consistent extensions changed",
                              "%d extensions before, %d after" % (len(exts), len(e2))))
        else:
            viols.append(("maximally_orient: result has a cyclic directed part", C.mat(p, m)))
        if not viols and m != expected:
            viols.append(("maximally_orient: wrong graph", "got %s expected %s" % (C.mat(p, m), C.mat(p, expected))))
    if not C.unchanged(snap, P):
        viols.append(("maximally_orient: input modified", "P changed"))
    return 1, viols


CHECKS = {F + "pdag_to_dag": check_pdag_to_dag, F + "has_consistent_extension": check_has_consistent_extension,
          F + "maximally_orient": check_maximally_orient}


def do_pdag(t, p, pc):
    if pc:
        t.mark(C.key(K_PDAG, p, pc))
    P = O.decode(p, pc)
    t.check(F + "pdag_to_dag", P=P)
    t.check(F + "has_consistent_extension", pdag=P)
    t.check(F + "maximally_orient", P=P)


def worker(task):
    t = C.Tally(HARNESS, CHECKS)
    kind = task[0]
    if kind == "pdag_range":
        _, p, lo, hi = task
        for idx in range(lo, hi):
            pc = O.pdag_from_index(p, idx)
            if O.is_pdag(p, pc):
                do_pdag(t, p, pc)
    elif kind == "pdag_list":
        _, p, codes = task
        for pc in codes:
            do_pdag(t, p, pc)
    return t.export()


def samples():
    out = []
    P = np.array([[0, 1, 0, 0], [0, 0, 1, 0], [0, 1, 0, 1], [0, 0, 1, 0]])
    out.append({"function": F + "maximally_orient", "inputs": {"P": C.jsonable(P)}, "library": C.lib(U.maximally_orient, P, render=lambda r: r.tolist()),
                "oracle": C.mat(4, O.essential(O.extensions(4, O.encode(P))))})
    P = np.array([[0, 1, 1, 1], [1, 0, 0, 1], [1, 0, 0, 1], [1, 0, 0, 0]])
    out.append({"function": F + "maximally_orient", "inputs": {"P": C.jsonable(P)}, "library": C.lib(U.maximally_orient, P, render=lambda r: r.tolist()),
                "oracle": C.mat(4, O.essential(O.extensions(4, O.encode(P)))), "note": "Meek rule 3"})
    out.append({"function": F + "pdag_to_dag", "inputs": {"P": C.jsonable(P)}, "library": C.lib(U.pdag_to_dag, P, render=lambda r: r.tolist()),
                "oracle_extensions": [C.mat(4, g) for g in O.extensions(4, O.encode(P))]})
    P = np.array([[0, 1, 0, 1], [1, 0, 1, 0], [0, 1, 0, 1], [1, 0, 1, 0]])
    out.append({"function": F + "has_consistent_extension", "inputs": {"pdag": C.jsonable(P)},
                "library": C.lib(U.has_consistent_extension, P, render=bool), "oracle": bool(O.extensions(4, O.encode(P)))})
    return out


def run(tier, seed):
    thorough = tier == "thorough"
    for p in range(1, 6 if thorough else 5):
        O.mec_table(p)
    tasks = []
    for p in range(1, 5):
        for (lo, hi) in C.ranges(0, O.n_matrices(p), 64):
            tasks.append(("pdag_range", p, lo, hi))
    exhaustive5 = thorough
    if thorough:
        for (lo, hi) in C.ranges(0, O.n_matrices(5), 2048):
            tasks.append(("pdag_range", 5, lo, hi))
    tasks.sort(key=lambda t: -t[1])
    tally = C.Tally(HARNESS, CHECKS)
    C.run_pool(worker, tasks, tally)
    pm = 5 if exhaustive5 else 4
    rule = ("every 0/1 zero-diagonal matrix with acyclic directed part on p<=%d labelled nodes (including those without extension): "
            "pdag_to_dag returns a member of the brute-force extension set {DAG, same skeleton, same v-structures, directed edges kept} "
            "or raises ValueError iff that set is empty; has_consistent_extension agrees; for PDAGs with an extension maximally_orient "
            "equals the union graph of the extensions (directed iff all agree) and the extension set of the result is unchanged; inputs "
            "must not be modified. non-trivial = PDAG with >=1 edge; distinct = exact integer key (p, matrix bits) in a set" % pm)
    return C.report(tally, rule, exhaustive=True, bound="p<=%d" % pm, samples=C.safe_samples(samples))


if __name__ == "__main__":
    C.main(HARNESS, CHECKS, run)
