"""C07 - Markov equivalence classes and consistent extensions are enumerated exactly.

    cd /repo && PYTHONPATH=/repo:/verif /venv/bin/python -m vkb.c07 quick|thorough <seed>
    cd /repo && PYTHONPATH=/repo:/verif /venv/bin/python -m vkb.c07 replay <file>
"""
import numpy as np

from . import common as C
from . import oracles as O

HARNESS = "vkb.c07"
U = C.load_utils()
F = "sempler.utils."
K_DAG, K_PDAG, K_ICE, K_CHAIN = 1, 2, 3, 4

# ----------------------------------------------------------------------------
# checks: one call configuration of one library function against the oracle


def check_mec(A, check_chain=True):
    A = np.asarray(A)
    p = len(A)
    code = O.encode(A)
    snap = C.snapshot(A)
    st, r = C.call(U.mec, A, check_chain)
    if not O.is_dag_code(p, code):
        viols = C.expect_value_error(st, r, "mec on a non-DAG")
    elif st == "exc":
        viols = C.unexpected_exception(r, "mec")
    else:
        viols = C.graph_set_violations(r, p, O.mec_of(p, code), "mec")
    if not C.unchanged(snap, A):
        viols.append(("mec: input modified", "A changed"))
    return 1, viols


def check_all_dags(pdag):
    pdag = np.asarray(pdag)
    p = len(pdag)
    code = O.encode(pdag)
    if not O.is_pdag(p, code):
        return 0, []            # outside the stated domain
    snap = C.snapshot(pdag)
    st, r = C.call(U.all_dags, pdag)
    if st == "exc":
        viols = C.unexpected_exception(r, "all_dags")
    else:
        viols = C.graph_set_violations(r, p, O.extensions(p, code), "all_dags")
    if not C.unchanged(snap, pdag):
        viols.append(("all_dags: input modified", "pdag changed"))
    return 1, viols


def check_is_consistent_extension(G, P):
    G, P = np.asarray(G), np.asarray(P)
    p = len(P)
    g, pc = O.encode(G), O.encode(P)
    if G.shape != P.shape or not O.is_pdag(p, pc):
        return 0, []
    st, r = C.call(U.is_consistent_extension, G, P)
    if not O.is_dag_code(p, g):
        return 1, C.expect_value_error(st, r, "is_consistent_extension with G not a DAG")
    if st == "exc":
        return 1, C.unexpected_exception(r, "is_consistent_extension")
    expected = g in O.extensions(p, pc)
    if bool(r) != expected:
        return 1, [("is_consistent_extension: wrong membership decision", "returned %s, oracle says %s" % (r, expected))]
    return 1, []


def check_chain_graph_MEC(p):
    p = int(p)
    st, r = C.call(U.chain_graph_MEC, p)
    if st == "exc":
        return 1, C.unexpected_exception(r, "chain_graph_MEC")
    chain = O.chain_code(p)
    expected = O.mec_of(p, chain)
    viols = C.graph_set_violations(r, p, expected, "chain_graph_MEC vs oracle")
    if len(expected) != p or (isinstance(r, np.ndarray) and r.shape != (p, p, p)):
        viols.append(("chain_graph_MEC: not exactly p members of shape p x p", "shape %s" % (getattr(r, "shape", None),)))
    n = 1
    if p <= 7 and isinstance(r, np.ndarray) and r.ndim == 3:
        # the general path of the library must give the same set
        st2, g = C.call(U.mec, O.decode(p, chain, np.float64), False)
        n += 1
        if st2 == "exc":
            viols += C.unexpected_exception(g, "mec(chain, check_chain=False)")
        else:
            viols += C.graph_set_violations(g, p, {O.encode(M) for M in r}, "general path vs chain shortcut")
    return n, viols


CHECKS = {F + "mec": check_mec, F + "all_dags": check_all_dags,
          F + "is_consistent_extension": check_is_consistent_extension, F + "chain_graph_MEC": check_chain_graph_MEC}

# ----------------------------------------------------------------------------
# domain


def cyclic_graphs(p, pcode):
    out = []
    if p >= 2:
        out.append(O.bit(p, 0, 1) | O.bit(p, 1, 0))
    if p >= 3:
        out.append(O.bit(p, 0, 1) | O.bit(p, 1, 2) | O.bit(p, 2, 0))
    if O.parts(p, pcode)[1]:
        out.append(pcode)           # P itself, it has an undirected edge
    return out


def do_pdag(t, p, pc, ice):
    P = O.decode(p, pc)
    nontriv = pc != 0
    if nontriv:
        t.mark(C.key(K_PDAG, p, pc))
    t.check(F + "all_dags", pdag=P)
    if ice:
        for g in O.all_dags(p):
            t.check(F + "is_consistent_extension", G=O.decode(p, g), P=P)
            if nontriv:
                t.mark(C.key(K_ICE, p, pc, g))
        for g in cyclic_graphs(p, pc):
            t.check(F + "is_consistent_extension", G=O.decode(p, g), P=P)


def worker(task):
    t = C.Tally(HARNESS, CHECKS)
    kind = task[0]
    if kind == "dag":
        _, p, codes, seed = task
        for code in codes:
            A = O.decode(p, code)
            if code:
                t.mark(C.key(K_DAG, p, code))
            t.check(F + "mec", A=A, check_chain=True)
            t.check(F + "mec", A=A, check_chain=False)
            t.check(F + "mec", A=O.weighted(p, code, seed), check_chain=True)
    elif kind == "pdag_range":
        _, p, lo, hi, ice = task
        for idx in range(lo, hi):
            pc = O.pdag_from_index(p, idx)
            if O.is_pdag(p, pc):
                do_pdag(t, p, pc, ice)
    elif kind == "pdag_list":
        _, p, codes, ice = task
        for pc in codes:
            do_pdag(t, p, pc, ice)
    elif kind == "chain":
        _, p = task
        t.check(F + "chain_graph_MEC", p=p)
        if p >= 2:
            t.mark(C.key(K_CHAIN, p, 0))
    return t.export()


def samples():
    out = []
    A = np.array([[0, 0, 1, 0], [0, 0, 1, 0], [0, 0, 0, 1], [0, 0, 0, 0]])
    out.append({"function": F + "mec", "inputs": {"A": C.jsonable(A), "check_chain": False},
                "library": C.lib(U.mec, A, False, render=lambda r: sorted(O.encode(M) for M in r)), "oracle": sorted(O.mec_of(4, O.encode(A))),
                "note": "graph codes: bit i*p+j <=> entry (i,j)"})
    A = O.decode(3, O.chain_code(3))
    out.append({"function": F + "mec", "inputs": {"A": C.jsonable(A), "check_chain": True},
                "library": C.lib(U.mec, A, render=lambda r: sorted(O.encode(M) for M in r)), "oracle": sorted(O.mec_of(3, O.encode(A)))})
    P = np.array([[0, 1, 1, 0], [1, 0, 0, 1], [0, 0, 0, 1], [0, 1, 0, 0]])
    out.append({"function": F + "all_dags", "inputs": {"pdag": C.jsonable(P)},
                "library": C.lib(U.all_dags, P, render=lambda r: sorted(O.encode(M) for M in r)), "oracle": sorted(O.extensions(4, O.encode(P)))})
    P = np.array([[0, 1, 0], [0, 0, 1], [0, 1, 0]])
    G = np.array([[0, 1, 0], [0, 0, 0], [0, 1, 0]])
    out.append({"function": F + "is_consistent_extension", "inputs": {"G": C.jsonable(G), "P": C.jsonable(P)},
                "library": C.lib(U.is_consistent_extension, G, P, render=bool), "oracle": O.encode(G) in O.extensions(3, O.encode(P))})
    return out


def run(tier, seed):
    thorough = tier == "thorough"
    pmax_dag = 5 if thorough else 4
    ice_pmax = 4 if thorough else 3
    for p in range(1, pmax_dag + 1):
        O.mec_table(p)              # build once, inherited by the forked workers
    tasks = []
    for p in range(1, pmax_dag + 1):
        for ch in C.chunked(O.all_dags(p), 40 if p < 5 else 120):
            tasks.append(("dag", p, ch, seed))
    for p in range(1, 5):
        for (lo, hi) in C.ranges(0, O.n_matrices(p), 32 if p <= ice_pmax and p == 4 else 128):
            tasks.append(("pdag_range", p, lo, hi, p <= ice_pmax))
    if thorough:
        # all 2^20 zero-diagonal matrices at p = 5 (workers keep the 765,664 with acyclic directed part)
        for (lo, hi) in C.ranges(0, O.n_matrices(5), 2048):
            tasks.append(("pdag_range", 5, lo, hi, False))
    for p in range(1, 13):
        tasks.append(("chain", p))
    # heavy tasks first
    tasks.sort(key=lambda t: (t[0] != "chain", t[0] != "dag" or t[1] < 5, -t[1]))
    tally = C.Tally(HARNESS, CHECKS)
    C.run_pool(worker, tasks, tally)
    rule = ("mec: every DAG on p<=%d labelled nodes (bitset enumeration) x {check_chain True, False, signed-weight matrix}; "
            "all_dags: every 0/1 zero-diagonal matrix with acyclic directed part on p<=%d; is_consistent_extension: every "
            "(DAG G, PDAG P) pair of equal size p<=%d plus 2-3 cyclic G per P (ValueError expected); chain_graph_MEC: p=1..12 "
            "against the brute-force class (and against mec(chain, check_chain=False) for p<=7). Results compared as sets of "
            "non-zero patterns with a (skeleton, v-structure) table; non-trivial = graph with >=1 edge (for pairs: P has >=1 edge; "
            "chains: p>=2); distinct = exact integer key of (kind, p, matrix bits[, second matrix]) collected in a set"
            % (pmax_dag, pmax_dag, ice_pmax))
    return C.report(tally, rule, exhaustive=True, bound="p<=%d (DAGs and PDAGs), p<=%d (G,P pairs), chains p<=12"
                    % (pmax_dag, ice_pmax), samples=C.safe_samples(samples))


if __name__ == "__main__":
    C.main(HARNESS, CHECKS, run)
