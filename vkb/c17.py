"""C17 - split_data partitions every environment's observations.

    cd /repo && PYTHONPATH=/repo:/verif/fake_rpy2:/verif /venv/bin/python -m vkb.c17 quick|thorough <seed>
    cd /repo && PYTHONPATH=/repo:/verif/fake_rpy2:/verif /venv/bin/python -m vkb.c17 replay <file>

The oracle never reproduces the library's shuffle: it only uses the unique row
ids written into the data, Python's round() on the same float product and exact
rational arithmetic (fractions.Fraction of the given floats) for the ratio sum.
"""
import itertools
import random
from fractions import Fraction

import numpy as np

from . import common as C

HARNESS = "vkb.c17"
U = C.load_utils()
F = "sempler.utils.split_data"

SIZES = (0, 1, 2, 3, 5, 7, 10, 11, 99)
OTHER_SEEDS = (7, 1234, 2 ** 31)
TOL_RAISE = Fraction(1, 10 ** 6)
TOL_ACCEPT = Fraction(1, 10 ** 12)


def make_data(sizes, dtype="float64"):
    """Environment e has ids 1000*e + row in column 0 (unique over the whole data set)."""
    out = []
    for e, n in enumerate(sizes):
        ids = 1000 * e + np.arange(n)
        cols = [ids, -2 * ids + 1, (ids * 7) % 13]
        out.append(np.array(cols).T.reshape(n, 3).astype(dtype))
    return out


def exact_deviation(ratios):
    return abs(sum(Fraction(float(r)) for r in ratios) - 1)


def expected_sizes(n, ratios):
    sizes, remaining = [], n
    for r in list(ratios)[:-1]:
        s = min(remaining, max(0, round(n * r)))
        sizes.append(s)
        remaining -= s
    sizes.append(remaining)
    return sizes


def _structure(r, data, ratios):
    if not isinstance(r, list) or len(r) != len(ratios):
        return "result is not a list with one entry per fold: %s" % C.short(r, 120)
    for fold in r:
        if not isinstance(fold, list) or len(fold) != len(data):
            return "a fold is not a list with one entry per environment: %s" % C.short(fold, 120)
        for e, a in enumerate(fold):
            if not isinstance(a, np.ndarray) or a.ndim != data[e].ndim or a.shape[1:] != data[e].shape[1:] or a.dtype != data[e].dtype:
                return "fold entry for environment %d is not an array like the input: %s" % (e, C.short(a, 120))
    return None


def check_split_data(data, ratios, random_state=42, mode="partition"):
    data = [np.asarray(d) for d in data]
    data = [d.reshape(0, 3) if d.ndim == 1 and d.size == 0 else d for d in data]     # JSON replay loses the shape of empty arrays
    dev = exact_deviation(ratios)
    must_raise = dev > TOL_RAISE
    if not must_raise and dev > TOL_ACCEPT:
        return 0, []                      # neither clause of the property speaks about this vector
    snap = C.freeze(data)
    snap_r = C.freeze(ratios)
    st, r = C.call(U.split_data, data, ratios, random_state)
    viols = []
    calls = 1
    if C.freeze(data) != snap or C.freeze(ratios) != snap_r:
        viols.append(("split_data: input modified", "data or ratios changed during the call"))
    if must_raise:
        v = C.expect_value_error(st, r, "split_data with ratios whose exact sum differs from 1 by more than 1e-6")
        return calls, viols + [(c, "exact sum - 1 = %.3g; %s" % (float(sum(Fraction(float(x)) for x in ratios) - 1), o)) for c, o in v]
    if st == "exc":
        v = C.unexpected_exception(r, "split_data with ratios summing to 1 up to floating-point rounding")
        return calls, viols + [(c, "exact sum of the floats - 1 = %.3g; %s" % (float(sum(Fraction(float(x)) for x in ratios) - 1), o)) for c, o in v]
    bad = _structure(r, data, ratios)
    if bad:
        return calls, viols + [("split_data: wrong result structure (list over folds of lists over environments)", bad)]
    if C.shares(r, data):
        viols.append(("split_data: a fold shares memory with the input", "np.shares_memory"))
    for e, sample in enumerate(data):
        n = len(sample)
        folds = [r[i][e] for i in range(len(ratios))]
        got = [len(f) for f in folds]
        want = expected_sizes(n, ratios)
        allrows = np.concatenate(folds, axis=0) if folds else sample[:0]
        ids_in = sorted(sample[:, 0].tolist())
        ids_out = sorted(allrows[:, 0].tolist())
        if ids_in != ids_out:
            lost = len(set(ids_in) - set(ids_out))
            foreign = [x for x in ids_out if not (1000 * e <= x < 1000 * (e + 1))]
            dup = len(ids_out) - len(set(ids_out))
            viols.append(("split_data: the folds of an environment are not a partition of its observations",
                          "environment %d: n=%d, fold sizes %s, %d lost, %d duplicated, %d from another environment"
                          % (e, n, got, lost, dup, len(foreign))))
        else:
            order = {v: k for k, v in enumerate(sample[:, 0].tolist())}
            orig = sample[[order[v] for v in allrows[:, 0].tolist()]] if n else sample
            if n and orig.tobytes() != np.ascontiguousarray(allrows).tobytes():
                viols.append(("split_data: a row was altered", "environment %d" % e))
        if got != want:
            viols.append(("split_data: wrong fold sizes (round(n*ratio_i) consecutive rows, last fold takes the rest)",
                          "environment %d: n=%d ratios=%s sizes %s expected %s" % (e, n, list(ratios), got, want)))
    # determinism in the seed
    st2, r2 = C.call(U.split_data, data, ratios, random_state)
    calls += 1
    if st2 == "exc" or C.freeze(r2) != C.freeze(r):
        viols.append(("split_data: not deterministic in random_state", "two calls with the same seed differ"))
    if mode == "seeds" and any(len(d) >= 10 for d in data):
        differs = False
        for s in OTHER_SEEDS:
            st3, r3 = C.call(U.split_data, data, ratios, s if s != random_state else s + 1)
            calls += 1
            if st3 == "exc" or _structure(r3, data, ratios):
                viols.append(("split_data: fails for another seed", C.short(r3, 200)))
                break
            for e, sample in enumerate(data):
                if len(sample) >= 10:
                    a = np.concatenate([r[i][e] for i in range(len(ratios))], axis=0)
                    b = np.concatenate([r3[i][e] for i in range(len(ratios))], axis=0)
                    if a.tobytes() != b.tobytes():
                        differs = True
        else:
            if not differs:
                viols.append(("split_data: the shuffle does not depend on random_state",
                              "seeds %s and %s give the same order for every environment with n>=10" % (random_state, list(OTHER_SEEDS))))
        # "changes with it": distinct seeds (0 and the default 42 included) give pairwise different assignments on an environment with
        # n >= 10 rows (10! orders: a coincidence between two honest seeds has probability < 3e-7)
        orders = {}
        for s in dict.fromkeys((random_state, 0, 42, 1) + OTHER_SEEDS):
            st4, r4 = C.call(U.split_data, data, ratios, s)
            calls += 1
            if st4 == "exc":
                continue
            key = b"".join(np.concatenate([r4[i][e] for i in range(len(ratios))], axis=0).tobytes() for e, sample in enumerate(data) if len(sample) >= 10)
            if key in orders:
                viols.append(("split_data: two different seeds give the same assignment", "random_state=%s and random_state=%s" % (orders[key], s)))
                break
            orders[key] = s
    return calls, viols


CHECKS = {F: check_split_data}

# ----------------------------------------------------------------------------
# domain


def ratio_vectors():
    S = sorted({Fraction(a, b) for b in range(1, 11) for a in range(1, b + 1)})
    Sset = set(S)
    out = []
    for k in range(1, 5):
        for t in itertools.product(S, repeat=k - 1):
            last = 1 - sum(t)
            if last in Sset:
                out.append(tuple(float(x) for x in t + (last,)))
    out.append((0.1,) * 10)
    out.append((0.2,) * 5)
    out.append((0.125,) * 8)
    return out


BAD_RATIOS = [(0.5, 0.500005), (0.7, 0.2, 0.099998), (0.999995,), (0.5, 0.3), (0.6, 0.6), (1.000002,), (0.25, 0.25, 0.25, 0.249998),
              (0.1,) * 9, (0.1,) * 11, (2.0,), (0.3333, 0.3333, 0.3333), (1.0, 0.001)]


def perturbed(v, rng):
    """An invalid vector next to a valid one."""
    v = list(v)
    i = rng.randrange(len(v))
    v[i] = v[i] + rng.choice((2e-6, -2e-6, 1e-5, -1e-4, 1e-3, 0.1, -0.05))
    return tuple(v)


def worker(task):
    t = C.Tally(HARNESS, CHECKS)
    vectors, seeds, thorough, hseed = task
    for v in vectors:
        rng = random.Random("c17-%r-%d" % (v, hseed))
        size_tuples = [(n,) for n in SIZES] + list(itertools.product(SIZES, repeat=2))
        size_tuples += [tuple(rng.choice(SIZES) for _ in range(3)) for _ in range(12)]
        if thorough:
            size_tuples += [(rng.randrange(0, 201),) for _ in range(40)]
            size_tuples += [tuple(rng.randrange(0, 201) for _ in range(rng.choice((2, 3)))) for _ in range(20)]
        for k, sizes in enumerate(size_tuples):
            data = make_data(sizes, "int64" if k % 5 == 4 else "float64")
            ratios = list(v) if k % 2 else tuple(v)
            for s in seeds:
                t.check(F, data=data, ratios=ratios, random_state=s, mode="seeds" if (k + s) % 7 == 0 else "partition")
            if any(n for n in sizes):
                t.mark(("ok", v, sizes))
        for _ in range(6 if thorough else 3):
            b = perturbed(v, rng)
            if exact_deviation(b) > TOL_RAISE:
                t.check(F, data=make_data((rng.choice(SIZES), rng.choice(SIZES))), ratios=b, random_state=seeds[0])
                t.mark(("bad", b))
    return t.export()


def bad_worker(task):
    t = C.Tally(HARNESS, CHECKS)
    for b in task:
        for sizes in ((10,), (0,), (7, 11), (99, 3, 5)):
            for s in (0, 42):
                t.check(F, data=make_data(sizes), ratios=b, random_state=s)
                t.check(F, data=make_data(sizes), ratios=list(b), random_state=s)
        t.mark(("bad", b))
    return t.export()


def samples():
    out = []
    for sizes, ratios, seed in (((5,), (0.5, 0.5), 0), ((11, 3), (0.7, 0.2, 0.1), 42), ((10,), (0.35, 0.35, 0.3), 1), ((7,), (0.5, 0.500005), 0)):
        data = make_data(sizes)
        out.append({"function": F, "inputs": {"sizes": list(sizes), "ratios": list(ratios), "random_state": seed},
                    "library": C.lib(U.split_data, data, ratios, seed, render=lambda r: [[a[:, 0].tolist() for a in fold] for fold in r]),
                    "oracle": ("ValueError" if exact_deviation(ratios) > TOL_RAISE else
                               {"fold sizes per environment": [expected_sizes(n, ratios) for n in sizes]})})
    return out


def run(tier, seed):
    thorough = tier == "thorough"
    vectors = ratio_vectors()
    seeds = (0, 1, 42)
    tally = C.Tally(HARNESS, CHECKS)
    tasks = [(ch, seeds, thorough, seed) for ch in C.chunked(vectors, 4)]
    C.run_pool(worker, tasks, tally)
    t2 = C.Tally(HARNESS, CHECKS)
    C.run_pool(bad_worker, C.chunked(BAD_RATIOS, 2), t2)
    tally.merge(t2.export())
    rule = ("every ratio vector of 1..4 fractions a/b (b<=10) with exact sum 1 given as floats (%d vectors, plus (0.1,)*10, (0.2,)*5, (0.125,)*8; tuple and list) "
            "x environment sizes: every single size and every pair from %s, 12 sampled triples%s x seeds {0,1,42}; int64 and float64 data with "
            "unique row ids. Checked: result = list over folds of lists over environments, per environment the multiset of rows equals the input's "
            "(nothing lost, duplicated, altered or moved), fold sizes = min(remaining, round(n*ratio_i)) with the rest in the last fold, inputs "
            "unchanged, no shared memory, same seed => identical, some other seed => different order when n>=10. ValueError demanded for %d listed "
            "vectors and perturbed neighbours whose exact rational sum is off by >1e-6; vectors within 1e-12 of 1 must be accepted (in between: skipped). "
            "non-trivial = (vector, sizes) with at least one observation, or an invalid vector" % (len(vectors) - 3, list(SIZES),
                                                                                                 ", 60 random sizes <=200" if thorough else "", len(BAD_RATIOS)))
    return C.report(tally, rule, exhaustive=True, bound="ratios: denominators<=10, <=4 folds; sizes %s%s; <=3 environments" % (list(SIZES), " + random<=200" if thorough else ""),
                    samples=C.safe_samples(samples))


if __name__ == "__main__":
    C.main(HARNESS, CHECKS, run)
