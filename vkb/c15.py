"""C15 - graph relations agree with their definitions on every PDAG.

    cd /repo && PYTHONPATH=/repo:/verif /venv/bin/python -m vkb.c15 quick|thorough <seed>
    cd /repo && PYTHONPATH=/repo:/verif /venv/bin/python -m vkb.c15 replay <file>
"""
import itertools

import numpy as np

from . import common as C
from . import oracles as O

HARNESS = "vkb.c15"
U = C.load_utils()
F = "sempler.utils."
K_PDAG, K_WDAG, K_TC = 2, 7, 8


def _graph(A):
    A = np.asarray(A)
    if A.ndim != 2 or A.shape[0] != A.shape[1]:
        return None
    p = len(A)
    code = O.encode(A)
    return (A, p, code) if O.is_pdag(p, code) else None


def _set_result(st, r, expected, what):
    if st == "exc":
        return C.unexpected_exception(r, what)
    if not isinstance(r, (set, frozenset)):
        return [(what + ": result is not a set", type(r).__name__)]
    got = {int(x) for x in r}
    if got != expected or len(got) != len(r):
        return [(what + ": wrong node set", "returned %s expected %s" % (sorted(got), sorted(expected)))]
    return []


def _node_check(fn, what, oracle):
    def check(i, A):
        g = _graph(A)
        if g is None or not 0 <= int(i) < len(A):
            return 0, []
        A_, p, code = g
        snap = C.snapshot(A_)
        st, r = C.call(fn, i, A_)
        viols = _set_result(st, r, oracle(p, code, int(i)), what)
        if not C.unchanged(snap, A_):
            viols.append((what + ": input modified", "A changed"))
        return 1, viols
    return check


check_pa = _node_check(U.pa, "pa", O.pa_set)
check_ch = _node_check(U.ch, "ch", O.ch_set)
check_neighbors = _node_check(U.neighbors, "neighbors", O.nb_set)
check_adj = _node_check(U.adj, "adj", O.adj_set)
check_ancestors = _node_check(U.ancestors, "ancestors", lambda p, c, i: O.reach_directed(p, c, i, False))
check_an = _node_check(U.an, "an", lambda p, c, i: O.reach_directed(p, c, i, False))
check_descendants = _node_check(U.descendants, "descendants", lambda p, c, i: O.reach_directed(p, c, i, True) | {i})
check_desc = _node_check(U.desc, "desc", lambda p, c, i: O.reach_directed(p, c, i, True) | {i})


def check_chain_component(i, G):
    return _node_check(U.chain_component, "chain_component", O.chain_component)(i, G)


def check_na(y, x, A):
    g = _graph(A)
    if g is None:
        return 0, []
    A_, p, code = g
    st, r = C.call(U.na, y, x, A_)
    return 1, _set_result(st, r, O.nb_set(p, code, int(y)) & O.adj_set(p, code, int(x)), "na")


def check_semi_directed_paths(fro, to, A):
    g = _graph(A)
    if g is None:
        return 0, []
    A_, p, code = g
    snap = C.snapshot(A_)
    st, r = C.call(U.semi_directed_paths, fro, to, A_)
    what = "semi_directed_paths"
    if st == "exc":
        return 1, C.unexpected_exception(r, what)
    if not isinstance(r, list):
        return 1, [(what + ": result is not a list", type(r).__name__)]
    got = [tuple(int(v) for v in path) for path in r]
    expected = O.semi_directed_paths(p, code, int(fro), int(to))
    viols = []
    if len(got) != len(set(got)):
        viols.append((what + ": a path is returned more than once", "%d paths, %d distinct" % (len(got), len(set(got)))))
    if set(got) - set(expected):
        viols.append((what + ": returns something that is not a simple semi-directed path fro..to",
                      "e.g. %s" % (sorted(set(got) - set(expected))[0],)))
    if set(expected) - set(got):
        viols.append((what + ": a path is missing", "e.g. %s; %d returned, %d expected" % (sorted(set(expected) - set(got))[0], len(got), len(expected))))
    if not C.unchanged(snap, A_):
        viols.append((what + ": input modified", "A changed"))
    return 1, viols


def check_separates(S, A, B, G):
    g = _graph(G)
    if g is None:
        return 0, []
    G_, p, code = g
    S, A, B = ({int(v) for v in X} for X in (S, A, B))
    st, r = C.call(U.separates, set(S), set(A), set(B), G_)
    if (A & B) or (A & S) or (B & S):
        return 1, C.expect_value_error(st, r, "separates with overlapping sets")
    if st == "exc":
        return 1, C.unexpected_exception(r, "separates")
    expected = O.separated(p, code, S, A, B)
    if bool(r) != expected:
        return 1, [("separates: wrong answer", "returned %s, oracle (reachability avoiding S) says %s" % (r, expected))]
    return 1, []


def check_transitive_closure(A):
    A = np.asarray(A)
    p = len(A)
    code = O.encode(A)
    snap = C.snapshot(A)
    st, r = C.call(U.transitive_closure, A)
    if not O.is_dag_code(p, code):
        viols = C.expect_value_error(st, r, "transitive_closure on a non-DAG")
    elif st == "exc":
        viols = C.unexpected_exception(r, "transitive_closure")
    else:
        viols = C.graph_violations(r, p, O.closure_code(p, code), "transitive_closure")
    if not C.unchanged(snap, A):
        viols.append(("transitive_closure: input modified", "A changed"))
    return 1, viols


CHECKS = {F + "pa": check_pa, F + "ch": check_ch, F + "neighbors": check_neighbors, F + "adj": check_adj, F + "na": check_na,
          F + "ancestors": check_ancestors, F + "descendants": check_descendants, F + "an": check_an, F + "desc": check_desc,
          F + "chain_component": check_chain_component, F + "semi_directed_paths": check_semi_directed_paths,
          F + "separates": check_separates, F + "transitive_closure": check_transitive_closure}

NODE_FUNCS = ("pa", "ch", "neighbors", "adj", "ancestors", "descendants", "an", "desc")


def subsets(items):
    items = list(items)
    return itertools.chain.from_iterable(itertools.combinations(items, r) for r in range(len(items) + 1))


def do_graph(t, p, A, all_triples):
    for i in range(p):
        for f in NODE_FUNCS:
            t.check(F + f, i=i, A=A)
        t.check(F + "chain_component", i=i, G=A)
    for a in range(p):
        for b in range(p):
            t.check(F + "na", y=a, x=b, A=A)
            t.check(F + "semi_directed_paths", fro=a, to=b, A=A)
            if a != b and not all_triples:
                for S in subsets(x for x in range(p) if x not in (a, b)):
                    t.check(F + "separates", S=set(S), A={a}, B={b}, G=A)
    if all_triples:
        # every assignment of the nodes to A / B / S / none with A and B non-empty
        for assign in itertools.product(range(4), repeat=p):
            sets = [{i for i in range(p) if assign[i] == k} for k in range(3)]
            if sets[0] and sets[1]:
                t.check(F + "separates", S=sets[2], A=sets[0], B=sets[1], G=A)
    if p >= 2:
        t.check(F + "separates", S={0}, A={0}, B={1}, G=A)
        t.check(F + "separates", S=set(), A={0, 1}, B={1}, G=A)
        t.check(F + "separates", S={1}, A={0}, B={1}, G=A)


def worker(task):
    t = C.Tally(HARNESS, CHECKS)
    kind = task[0]
    if kind == "pdag_range":
        _, p, lo, hi, all_triples = task
        for idx in range(lo, hi):
            pc = O.pdag_from_index(p, idx)
            if O.is_pdag(p, pc):
                if pc:
                    t.mark(C.key(K_PDAG, p, pc))
                do_graph(t, p, O.decode(p, pc), all_triples)
    elif kind == "pdag_list":
        _, p, codes = task
        for pc in codes:
            t.mark(C.key(K_PDAG, p, pc))
            do_graph(t, p, O.decode(p, pc), False)
    elif kind == "wdag":
        _, p, codes, seed = task
        for code in codes:
            if code:
                t.mark(C.key(K_WDAG, p, code))
            do_graph(t, p, O.weighted(p, code, seed), False)
    elif kind == "tc_dag":
        _, p, codes, seed = task
        for code in codes:
            if code:
                t.mark(C.key(K_TC, p, code))
            t.check(F + "transitive_closure", A=O.decode(p, code))
            t.check(F + "transitive_closure", A=O.decode(p, code, np.float64))
            t.check(F + "transitive_closure", A=O.weighted(p, code, seed))
            t.check(F + "transitive_closure", A=O.weighted(p, code, seed, np.int64))
    elif kind == "tc_nondag":
        _, p, lo, hi = task
        for idx in range(lo, hi):
            c = O.pdag_from_index(p, idx)
            if not O.is_dag_code(p, c):
                t.check(F + "transitive_closure", A=O.decode(p, c))
                t.check(F + "transitive_closure", A=O.decode(p, c, np.float64))
    return t.export()


def samples():
    out = []
    P = np.array([[0, 1, 1, 0], [1, 0, 0, 1], [0, 0, 0, 1], [0, 0, 0, 0]])
    c = O.encode(P)
    out.append({"function": F + "semi_directed_paths", "inputs": {"fro": 1, "to": 3, "A": C.jsonable(P)},
                "library": C.lib(U.semi_directed_paths, 1, 3, P), "oracle": [list(x) for x in O.semi_directed_paths(4, c, 1, 3)]})
    out.append({"function": F + "separates", "inputs": {"S": C.jsonable({2}), "A": C.jsonable({0}), "B": C.jsonable({3}), "G": C.jsonable(P)},
                "library": C.lib(U.separates, {2}, {0}, {3}, P, render=bool), "oracle": O.separated(4, c, {2}, {0}, {3})})
    out.append({"function": F + "chain_component", "inputs": {"i": 0, "G": C.jsonable(P)},
                "library": C.lib(U.chain_component, 0, P), "oracle": sorted(O.chain_component(4, c, 0))})
    W = np.array([[0, -2., 0.5, 0], [0, 0, 0, 1.5], [0, 0, 0, -1], [0, 0, 0, 0]])
    out.append({"function": F + "transitive_closure", "inputs": {"A": C.jsonable(W)}, "library": C.lib(U.transitive_closure, W, render=lambda r: r.tolist()),
                "oracle": C.mat(4, O.closure_code(4, O.encode(W)))})
    out.append({"function": F + "ancestors", "inputs": {"i": 3, "A": C.jsonable(P)}, "library": C.lib(U.ancestors, 3, P),
                "oracle": sorted(O.reach_directed(4, c, 3, False))})
    return out


def run(tier, seed):
    thorough = tier == "thorough"
    tasks = []
    for p in range(1, 5):
        for (lo, hi) in C.ranges(0, O.n_matrices(p), 32 if thorough else 64):
            tasks.append(("pdag_range", p, lo, hi, thorough))
        for (lo, hi) in C.ranges(0, O.n_matrices(p), 512):
            tasks.append(("tc_nondag", p, lo, hi))
        for ch in C.chunked(O.all_dags(p), 40):
            tasks.append(("wdag", p, ch, seed))
    for p in range(1, 6):
        for ch in C.chunked(O.all_dags(p), 400):
            tasks.append(("tc_dag", p, ch, seed))
    ns = {}
    if thorough:
        for p, n in ((5, 6000), (6, 3000)):
            s = O.sample_pdags(p, n, seed)
            ns[p] = len(s)
            for ch in C.chunked(s, 50 if p == 5 else 20):
                tasks.append(("pdag_list", p, ch))
    order = {"pdag_list": 0, "pdag_range": 1, "tc_dag": 2, "wdag": 3, "tc_nondag": 4}
    tasks.sort(key=lambda t: (order[t[0]], -t[1]))
    tally = C.Tally(HARNESS, CHECKS)
    C.run_pool(worker, tasks, tally)
    rule = ("every 0/1 zero-diagonal matrix with acyclic directed part on p<=4 labelled nodes%s, and every DAG p<=4 with signed float "
            "weights: pa/ch/neighbors/adj/ancestors/descendants/an/desc/chain_component at every node, na and semi_directed_paths at "
            "every ordered node pair (fro == to gives the one trivial path), separates for %s plus three overlapping triples "
            "(ValueError). Oracles: entry-wise definitions, directed reachability, recursive simple-path DFS, reachability avoiding S, "
            "union-find. transitive_closure: every zero-diagonal 0/1 matrix p<=4 that is not a DAG (int and float; ValueError) and every "
            "DAG p<=5 as int 0/1, float 0/1, signed float and signed int weights. non-trivial = graph with >=1 edge; distinct = exact "
            "integer key (kind, p, matrix bits) in a set"
            % (" plus seeded samples of %d (p=5) and %d (p=6) PDAGs" % (ns[5], ns[6]) if thorough else "",
               "every assignment of the nodes to A/B/S/none with A, B non-empty (p<=4) and all |A|=|B|=1, any S (p=5,6)" if thorough
               else "all ordered pairs |A|=|B|=1 with every S in the remaining nodes"))
    return C.report(tally, rule, exhaustive=True, bound="p<=4 (PDAGs), p<=5 (transitive_closure)%s" % (", sampled p=5,6" if thorough else ""),
                    samples=C.safe_samples(samples))


if __name__ == "__main__":
    C.main(HARNESS, CHECKS, run)
