"""Shared plumbing of the bounded stand-in harnesses: JSON witness format,
tallying, chunked multiprocessing, result printing, replay."""
import json
import multiprocessing as mp
import os
import signal
import sys
import threading
import time

import numpy as np

NPROC = 16
MAX_WITNESSES = 5

# ----------------------------------------------------------------------------
# JSON format (same as vk/concrete._jsonable / _unjson)


def jsonable(v):
    if isinstance(v, np.ndarray):
        return {"ndarray": v.tolist(), "dtype": str(v.dtype)}
    if isinstance(v, (set, frozenset)):
        return {"set": sorted(jsonable(x) for x in v)}
    if isinstance(v, tuple):
        return {"tuple": [jsonable(x) for x in v]}
    if isinstance(v, (np.bool_,)):
        return bool(v)
    if isinstance(v, (np.integer,)):
        return int(v)
    if isinstance(v, (np.floating,)):
        return float(v)
    if isinstance(v, dict):
        return {"dict": [[jsonable(k), jsonable(x)] for k, x in v.items()]}
    if isinstance(v, list):
        return [jsonable(x) for x in v]
    return v


def unjson(v):
    if isinstance(v, dict):
        if "ndarray" in v:
            return np.array(v["ndarray"], dtype=v.get("dtype", "float64"))
        if "set" in v:
            return set(v["set"])
        if "tuple" in v:
            return tuple(unjson(x) for x in v["tuple"])
        if "dict" in v:
            return {(tuple(k) if isinstance(k, list) else k): unjson(x) for k, x in ((unjson(a), b) for a, b in v["dict"])}
    if isinstance(v, list):
        return [unjson(x) for x in v]
    return v


def short(v, n=300):
    s = v if isinstance(v, str) else repr(v)
    s = " ".join(s.split())
    return s if len(s) <= n else s[:n] + "..."


# ----------------------------------------------------------------------------
# calling the library


def load_utils():
    """Import the library under test.  If the environment variable VKB_PATCH
    names a python file it is exec'd with `utils` bound to sempler.utils (used
    only to sanity-check that the harnesses notice a planted bug)."""
    global _PATCHED
    import sempler.utils as utils
    patch = os.environ.get("VKB_PATCH")
    if patch and not _PATCHED:          # once per process, also when several harness modules are imported
        _PATCHED = True
        exec(compile(open(patch).read(), patch, "exec"), {"utils": utils, "np": np})
    return utils


_PATCHED = False
CALL_TIMEOUT_S = 30.0
_ALARM_READY = None


class LibraryCallTimeout(Exception):
    """A single library call ran longer than CALL_TIMEOUT_S (reported as a finding, never as a hang)."""


def _on_alarm(signum, frame):
    raise LibraryCallTimeout("library call exceeded %.0f s" % CALL_TIMEOUT_S)


def call(f, *args, **kw):
    """('ok', value) or ('exc', exception).  A call that does not return
    within CALL_TIMEOUT_S is cut off and counted as an exception."""
    global _ALARM_READY
    use_alarm = _ALARM_READY
    if use_alarm is None:
        use_alarm = _ALARM_READY = threading.current_thread() is threading.main_thread()
        if use_alarm:
            signal.signal(signal.SIGALRM, _on_alarm)
    if use_alarm:
        signal.setitimer(signal.ITIMER_REAL, CALL_TIMEOUT_S)
    try:
        return "ok", f(*args, **kw)
    except Exception as e:      # noqa: BLE001 - AssertionError, RecursionError, ... are all findings
        return "exc", e
    finally:
        if use_alarm:
            signal.setitimer(signal.ITIMER_REAL, 0)


def snapshot(*arrays):
    return [(a.copy(), a.dtype, a.shape) if isinstance(a, np.ndarray) else a for a in arrays]


def unchanged(snap, *arrays):
    for s, a in zip(snap, arrays):
        if isinstance(a, np.ndarray):
            c, dt, sh = s
            if a.dtype != dt or a.shape != sh or c.tobytes() != a.tobytes():
                return False
    return True


def is01(M):
    M = np.asarray(M)
    return bool(np.logical_or(M == 0, M == 1).all())


def key(kind, p, code, extra=0):
    """Exact integer key of an input (kind tag, size, matrix pattern, extra
    discrete argument): bijective with the matrix bytes for a fixed dtype."""
    return ((((extra << (p * p)) | code) << 8 | p) << 8) | kind


# ----------------------------------------------------------------------------
# tally


class Tally:
    """Per-process accumulator.  `checks` maps 'sempler.utils.<fn>' to a
    function(**inputs) -> (number of library calls, [(clause, observed), ...])."""

    def __init__(self, harness, checks):
        self.harness = harness
        self.checks = checks
        self.evals = 0
        self.wit = {}
        self.nontrivial = set()
        self.counts = {}

    def check(self, function, **inputs):
        try:
            n, viols = self.checks[function](**inputs)
        except Exception as e:      # noqa: BLE001 - the library returned something the check could not even inspect
            n, viols = 1, [("result could not be inspected by the harness", "%s: %s" % (type(e).__name__, short(str(e), 200)))]
        self.evals += n
        self.counts[function] = self.counts.get(function, 0) + n
        for clause, observed in viols:
            k = (function, clause)
            if k not in self.wit:
                self.wit[k] = make_witness(function, inputs, clause, observed, self.harness)
        return viols

    def mark(self, k):
        self.nontrivial.add(k)

    def export(self):
        return {"evals": self.evals, "wit": self.wit, "nontrivial": self.nontrivial, "counts": self.counts}

    def merge(self, d):
        self.evals += d["evals"]
        for k, w in d["wit"].items():
            self.wit.setdefault(k, w)
        self.nontrivial |= d["nontrivial"]
        for f, n in d["counts"].items():
            self.counts[f] = self.counts.get(f, 0) + n


def make_witness(function, inputs, clause, observed, harness):
    return {"function": function, "inputs": {k: jsonable(v) for k, v in inputs.items()},
            "clause": clause, "observed": short(observed, 600), "harness": harness}


def chunked(seq, n):
    seq = list(seq)
    return [seq[i:i + n] for i in range(0, len(seq), n)]


def ranges(lo, hi, step):
    return [(a, min(a + step, hi)) for a in range(lo, hi, step)]


def run_pool(worker, chunks, tally, nproc=NPROC):
    """Run worker(chunk) -> Tally.export() for every chunk in a fork pool and
    merge the results in chunk order (deterministic witness selection)."""
    chunks = list(chunks)
    if not chunks:
        return
    if nproc <= 1:
        for c in chunks:
            tally.merge(worker(c))
        return
    ctx = mp.get_context("fork")
    with ctx.Pool(nproc) as pool:
        for d in pool.imap(worker, chunks):
            tally.merge(d)


# ----------------------------------------------------------------------------
# entry point shared by the harnesses


def report(tally, rule, exhaustive, bound, samples, extra=None):
    wits = list(tally.wit.values())[:MAX_WITNESSES]
    out = {"evaluations": tally.evals, "distinct_nontrivial": len(tally.nontrivial), "rule": rule,
           "exhaustive": bool(exhaustive), "bound": bound, "samples": samples[:5], "witnesses": wits,
           "witness_kinds_total": len(tally.wit), "per_function": dict(sorted(tally.counts.items())),
           "harness": tally.harness}
    if extra:
        out.update(extra)
    return out


def replay(harness, checks, path):
    d = json.load(open(path))
    w = d["witness"] if "witness" in d else d
    fn = w["function"]
    if fn not in checks:
        print(json.dumps({"status": "unsupported", "function": fn, "harness": harness}))
        return 2
    inputs = {k: unjson(v) for k, v in w["inputs"].items()}
    n, viols = checks[fn](**inputs)
    want = w.get("clause")
    same_clause = [v for v in viols if v[0] == want]
    out = {"harness": harness, "function": fn, "library_calls": n,
           "status": "violated" if viols else "ok",
           "clause_reproduced": bool(same_clause) if want else None,
           "violations": [{"clause": c, "observed": short(o, 600)} for c, o in viols]}
    print(json.dumps(out))
    return 1 if viols else 0


def main(harness, checks, run):
    """run(tier, seed) -> dict to print as the last stdout line."""
    argv = sys.argv[1:]
    if len(argv) >= 2 and argv[0] == "replay":
        sys.exit(replay(harness, checks, argv[1]))
    tier = argv[0] if argv else "quick"
    seed = int(argv[1]) if len(argv) > 1 else 0
    if tier not in ("quick", "thorough"):
        raise SystemExit("usage: python -m %s quick|thorough <seed>   |   replay <file>" % harness)
    t0 = time.time()
    out = run(tier, seed)
    out["tier"], out["seed"], out["wall_s"] = tier, seed, round(time.time() - t0, 1)
    sys.stdout.flush()
    print(json.dumps(out))
    sys.exit(0)


# ----------------------------------------------------------------------------
# comparison helpers shared by several harnesses


def graph_set_violations(r, p, expected, what):
    """`r` is a library result that should be a stack of p x p 0/1 matrices
    containing every code of the set `expected` exactly once (an empty array
    when `expected` is empty)."""
    from .oracles import encode
    expected = set(expected)
    if not isinstance(r, np.ndarray):
        return [(what + ": result is not an ndarray", type(r).__name__)]
    if not expected:
        if r.size != 0:
            return [(what + ": non-empty result although the exact set is empty", "returned %d graphs" % len(r))]
        return []
    if r.ndim != 3 or r.shape[1:] != (p, p):
        return [(what + ": result has the wrong shape",
                 "shape %s, expected (%d, %d, %d)" % (r.shape, len(expected), p, p))]
    viols = []
    if not is01(r):
        viols.append((what + ": entries are not 0/1", "values %s" % np.unique(r).tolist()[:8]))
    codes = [encode(M) for M in r]
    got = set(codes)
    if len(codes) != len(got):
        viols.append((what + ": a member is returned more than once", "%d graphs, %d distinct" % (len(codes), len(got))))
    if got - expected:
        viols.append((what + ": a non-member is returned",
                      "%d returned, %d expected, e.g. extra %s" % (len(got), len(expected), mat(p, min(got - expected)))))
    if expected - got:
        viols.append((what + ": a member is missing",
                      "%d returned, %d expected, e.g. missing %s" % (len(got), len(expected), mat(p, min(expected - got)))))
    return viols


def mat(p, code):
    from .oracles import decode
    return decode(p, code).tolist()


def graph_violations(r, p, expected_code, what, need01=True):
    """`r` should be one p x p matrix with pattern `expected_code`."""
    from .oracles import encode
    if not isinstance(r, np.ndarray) or r.shape != (p, p):
        return [(what + ": result is not a p x p array", short(r))]
    viols = []
    if need01 and not is01(r):
        viols.append((what + ": entries are not 0/1", "values %s" % np.unique(r).tolist()[:8]))
    if encode(r) != expected_code:
        viols.append((what + ": wrong graph", "got %s expected %s" % ((r != 0).astype(int).tolist(), mat(p, expected_code))))
    return viols


def expect_value_error(st, r, what):
    """The call should have raised ValueError."""
    if st == "ok":
        return [(what + ": no exception, ValueError expected", "returned %s" % short(r, 200))]
    if not isinstance(r, ValueError):
        return [(what + ": wrong exception type, ValueError expected", "%s: %s" % (type(r).__name__, short(str(r), 200)))]
    return []


def unexpected_exception(r, what):
    return [(what + ": raised although the request is valid", "%s: %s" % (type(r).__name__, short(str(r), 200)))]


def lib(f, *args, render=None):
    """Call the library for a written-out sample; never lets an exception of
    the library escape (a mutated library must not crash the harness)."""
    st, r = call(f, *args)
    if st == "exc":
        return "raised %s: %s" % (type(r).__name__, short(str(r), 120))
    try:
        return render(r) if render else jsonable(r)
    except Exception as e:      # noqa: BLE001
        return "unrenderable result (%s): %s" % (type(e).__name__, short(r, 120))


def safe_samples(fn):
    try:
        return fn()
    except Exception as e:      # noqa: BLE001
        return [{"error": "sample generation failed: %s: %s" % (type(e).__name__, short(str(e), 200))}]


# ----------------------------------------------------------------------------
# helpers of the model / sampling harnesses (C01, C02, C13, C14, C17, C19)


def load_sempler():
    """Import the whole library (stand-in R backend on sys.path first, so that
    sempler.semi loads) and apply VKB_PATCH exactly as load_utils does."""
    fake = os.path.join(os.path.dirname(os.path.dirname(os.path.abspath(__file__))), "fake_rpy2")
    if fake not in sys.path:
        sys.path.insert(0, fake)
    import sempler
    import sempler.generators  # noqa: F401
    import sempler.noise  # noqa: F401
    import sempler.functions  # noqa: F401
    load_utils()
    return sempler


def freeze(v):
    """Hashable, exactly comparable image of a value (arrays by dtype, shape and bytes)."""
    if isinstance(v, np.ndarray):
        if v.dtype == object:
            return ("objarray", v.shape, tuple(freeze(x) for x in v.reshape(-1)))
        return ("ndarray", str(v.dtype), v.shape, np.ascontiguousarray(v).tobytes())
    if isinstance(v, (set, frozenset)):
        return ("set", tuple(sorted((freeze(x) for x in v), key=repr)))
    if isinstance(v, dict):
        return ("dict", tuple(sorted(((freeze(k), freeze(x)) for k, x in v.items()), key=repr)))
    if isinstance(v, (list, tuple)):
        return (type(v).__name__, tuple(freeze(x) for x in v))
    if isinstance(v, np.generic):
        return ("npscalar", str(v.dtype), v.tobytes())
    if isinstance(v, float):
        return ("float", v.hex())
    if v is None or isinstance(v, (bool, int, str)):
        return (type(v).__name__, v)
    return ("object", id(v))


def arrays_in(v, out=None):
    """All ndarrays reachable through lists / tuples / dicts / object arrays / attributes mean, covariance."""
    if out is None:
        out = []
    if isinstance(v, np.ndarray):
        if v.dtype == object:
            for x in v.reshape(-1):
                arrays_in(x, out)
        else:
            out.append(v)
    elif isinstance(v, (list, tuple, set, frozenset)):
        for x in v:
            arrays_in(x, out)
    elif isinstance(v, dict):
        for k, x in v.items():
            arrays_in(k, out)
            arrays_in(x, out)
    elif hasattr(v, "mean") and hasattr(v, "covariance") and not isinstance(v, np.generic):
        arrays_in(v.mean, out)
        arrays_in(v.covariance, out)
    return out


def scribble(v):
    """Overwrite a returned object in place (12345 everywhere)."""
    if isinstance(v, np.ndarray):
        if v.dtype == object:
            for x in v.reshape(-1):
                scribble(x)
        elif v.flags.writeable and v.size:
            if v.dtype == bool:
                v[...] = ~v
            else:
                with np.errstate(all="ignore"):
                    v[...] = np.full(v.shape, 12345).astype(v.dtype, casting="unsafe")
    elif isinstance(v, list):
        for x in v:
            scribble(x)
        v.append(12345)
    elif isinstance(v, tuple):
        for x in v:
            scribble(x)
    elif isinstance(v, set):
        v.add(12345)
    elif isinstance(v, dict):
        for x in v.values():
            scribble(x)
        v[12345] = 12345
    elif hasattr(v, "mean") and hasattr(v, "covariance") and not isinstance(v, np.generic):
        scribble(v.mean)
        scribble(v.covariance)


def shares(result, others):
    """True iff an array inside `result` overlaps an array inside `others`."""
    rs, os_ = arrays_in(result), arrays_in(others)
    return any(np.shares_memory(a, b) for a in rs for b in os_)


def same_array(a, b):
    return (isinstance(a, np.ndarray) and isinstance(b, np.ndarray) and a.dtype == b.dtype and a.shape == b.shape
            and np.ascontiguousarray(a).tobytes() == np.ascontiguousarray(b).tobytes())


def perturb_global_rng(k=0):
    """Unrelated random activity between two calls (C13 / C19 histories)."""
    np.random.seed(123 + k)
    np.random.normal(size=7 + k)
    np.random.default_rng().uniform()
    np.random.default_rng(5 + k).permutation(4)
    np.random.uniform(size=k % 3)
