"""C20 - noise factories draw from numpy's global generator: call histories on one sampler object.

    cd /repo && PYTHONPATH=/repo:/verif /venv/bin/python -m vkb.c20 quick|thorough <seed>
    cd /repo && PYTHONPATH=/repo:/verif /venv/bin/python -m vkb.c20 replay <file>

The deductive contracts of C20 say that the callable returned by a factory maps n to exactly numpy's global draw with the
documented parameters.  A sampler that keeps private state between calls (a buffer, a memo table, its own generator) is outside
what the VC generator interprets (it degrades), so this bounded harness re-uses ONE sampler object over a sequence of
(seed, n) requests and compares every answer with numpy's own global draw recomputed after the same seed.
"""
import itertools

import numpy as np

from . import common as C

HARNESS = "vkb.c20"
S = C.load_sempler() if hasattr(C, "load_sempler") else __import__("sempler")
import sempler.noise as NZ          # noqa: E402
import sempler.functions as FN      # noqa: E402

F = "sempler.noise."
SEQ = [(0, 7), (0, 7), (1, 5), (12345, 11), (0, 7), (3, 0), (0, 1), (0, 7), (7, 4097), (0, 7)]


def _expect(kind, params, n):
    if kind == "normal":
        return np.random.normal(params[0], params[1] ** 0.5, n)
    if kind == "uniform":
        return np.random.uniform(params[0], params[1], n)
    if kind == "laplace":
        return np.random.laplace(params[0], params[1], n)
    return np.zeros(n)


def check_factory(kind, params, scribble=False):
    fac = getattr(NZ, kind)
    st, smp = C.call(fac, *params)
    if st == "exc":
        return 1, C.unexpected_exception(smp, "noise.%s%s" % (kind, tuple(params)))
    viols, calls = [], 1
    keep = []
    first = {}
    degenerate = kind == "zero" or (kind == "normal" and params[1] == 0) or (kind == "uniform" and params[0] == params[1]) or (kind == "laplace" and params[1] == 0)
    for step, (seed, n) in enumerate(SEQ):
        np.random.seed(seed)
        st, got = C.call(smp, n)
        calls += 1
        if st == "exc":
            return calls, viols + C.unexpected_exception(got, "sampler of noise.%s on n=%d" % (kind, n))
        st2, nxt = C.call(smp, n)          # a second draw without reseeding: the stream must have moved on
        calls += 1
        np.random.seed(seed)
        want = _expect(kind, params, n)
        if not (isinstance(got, np.ndarray) and got.shape == (n,)):
            viols.append(("noise.%s: the sampler does not return a 1-d array of length n" % kind, "step %d n=%d: %s" % (step, n, C.short(got))))
            break
        # (a) reproducible after seeding, whatever was asked before (bit-identical to the first answer to the same request)
        if (seed, n) in first and not np.array_equal(first[(seed, n)], got):
            viols.append(("noise.%s: not reproducible after seeding numpy's global generator (call history on one sampler)" % kind,
                          "step %d of %s (seed %d, n %d) params %s: got %s, the same request earlier gave %s" % (step, SEQ, seed, n, list(params), got[:4].tolist(), first[(seed, n)][:4].tolist())))
            break
        first.setdefault((seed, n), got.copy())
        # (b) numpy's global draw with the documented parameters (tolerant to the rounding of an equivalent formula)
        scale = abs(params[1] - params[0]) if kind == "uniform" else (params[1] ** 0.5 if kind == "normal" else (params[1] if kind == "laplace" else 0.0))
        if not np.allclose(got, want, rtol=1e-9, atol=1e-9 * scale):
            viols.append(("noise.%s: draws are not numpy's global draws with the documented parameters after seeding" % kind,
                          "step %d (seed %d, n %d) params %s: got %s expected %s" % (step, seed, n, list(params), got[:4].tolist(), want[:4].tolist())))
            break
        # (c) the global stream advances: an immediate second draw differs
        if n >= 3 and not degenerate and st2 != "exc" and isinstance(nxt, np.ndarray) and np.array_equal(nxt, got):
            viols.append(("noise.%s: two consecutive draws without reseeding are identical" % kind, "step %d" % step))
            break
        for prev in keep:
            if got.size and np.shares_memory(prev, got):
                viols.append(("noise.%s: two calls return arrays sharing memory" % kind, "step %d" % step))
        keep.append(got)
        if scribble and got.size:
            got += 17.0          # the caller owns what it was given
    return calls, viols


def check_null(args):
    st, r = C.call(FN.null, *args)
    if st == "exc":
        return 1, C.unexpected_exception(r, "functions.null")
    return 1, ([] if (np.ndim(r) == 0 and r == 0) else [("functions.null does not contribute exactly 0", C.short(r))])


CHECKS = {F + "factory": check_factory, "sempler.functions.null": check_null}


def run(tier, seed):
    t = C.Tally(HARNESS, CHECKS)
    rng = np.random.default_rng(seed)
    means = [0.0, -2.0, 3.5, 1e-3, -1e6]
    vars_ = [1.0, 0.25, 4.0, 0.0, 1e-12, 9e6]
    cases = [("normal", (m, v)) for m in means for v in vars_]
    cases += [("uniform", (lo, hi)) for lo, hi in ((0, 1), (-3, -1), (2.5, 2.5000001), (-1e6, 1e6), (0, 1e-15), (0, 1e-16), (-3e-17, 2e-17), (5, 5))]
    cases += [("laplace", (m, s)) for m in means for s in (1.0, 0.5, 3.0, 0.0, 1e-9)]
    cases += [("zero", ())]
    if tier == "thorough":
        cases += [("normal", (float(rng.normal()), float(rng.uniform(0, 5)))) for _ in range(40)]
        cases += [("uniform", tuple(sorted(rng.normal(size=2).tolist()))) for _ in range(40)]
    for kind, params in cases:
        for scr in (False, True):
            t.check(F + "factory", kind=kind, params=list(params), scribble=scr)
        t.mark((kind, params))
    for args in ((), (np.zeros((3, 2)),), (1, 2, 3)):
        t.check("sempler.functions.null", args=list(args))
    rule = ("one sampler object per factory and parameter set (%d parameter sets: means of either sign and magnitude, var in {1, .25, 4, 0, 1e-12, 9e6}, "
            "uniform intervals incl. negative, degenerate and sub-epsilon widths, laplace scales incl. 0), re-used over the request sequence (seed, n) = %s, "
            "once leaving the returned arrays alone and once adding a constant to each in place; every answer must be bit-identical to the first answer to the same (seed, n), equal (rtol 1e-9) to numpy's "
            "global draw (normal(mean, sqrt(var)) / uniform(lo, hi) / laplace(mean, scale) / zeros) recomputed after the same np.random.seed, an immediate "
            "second draw must differ, and results may not share memory; functions.null() == 0. non-trivial = (factory, parameters)" % (len(cases), SEQ))
    return C.report(t, rule, exhaustive=False, bound="fixed parameter grid x 10-step call history", samples=[])


if __name__ == "__main__":
    C.main(HARNESS, CHECKS, run)
