"""Check that every harness notices planted bugs / deliberately wrong oracles.

    cd /repo && PYTHONPATH=/repo:/verif/fake_rpy2:/verif /venv/bin/python -m vkb.sanity_check [module ...]

Each (harness, patch) pair runs the quick tier with VKB_PATCH=vkb/sanity/<patch>.py
and must report >= 1 witness.  Pairs listed in EQUIVALENT are expected to report
none: disabling Meek rule 3 or rule 4 does not change any C10 function.  Rule 3
needs an unshielded collider b -> d <- c; inside dag_to_icpdag every directed
edge agrees with the DAG G, so that collider is a v-structure of G and the CPDAG
the procedure starts from already contains the rule-3 conclusion.  For rule 4 no
effect was observed on all (A, I) with p <= 4 nor on 100,000 sampled pairs at
p = 5 (thorough tier), in line with the Hauser-Buehlmann characterisation of
interventional essential graphs, which needs no rule-4 configuration.  Both
mutants ARE caught by vkb.c09, where maximally_orient is checked on arbitrary
PDAGs."""
import json
import os
import subprocess
import sys

HERE = os.path.dirname(os.path.abspath(__file__))

MATRIX = [
    ("c07", "ignore_vstructures"), ("c07", "wrong_oracle_vstructs"),
    ("c08", "label_edges_z"), ("c08", "chickering_condition"), ("c08", "wrong_oracle_essential"),
    ("c09", "rule1_false"), ("c09", "rule2_false"), ("c09", "rule3_false"), ("c09", "rule4_false"), ("c09", "chickering_condition"),
    ("c10", "rule1_false"), ("c10", "rule2_false"), ("c10", "label_edges_z"), ("c10", "imec_ignores_targets"),
    ("c15", "desc_excludes_self"), ("c15", "paths_drop_last"),
    ("c18", "remove_edges_offbyone"), ("c18", "add_edges_noguard"),
    # model / sampling harnesses (patches touch sempler.lganm, .anm, .normal_distribution, .generators, .semi, .utils)
    ("c01", "lganm_noise_after_do"), ("c01", "lganm_int_truncation"),
    ("c02", "anm_shift_hides_do"), ("c02", "anm_parent_order"), ("c02", "topo_sum_shortcut"), ("c02", "anm_init_no_copy"),
    ("c13", "seed_guard_truthy"), ("c13", "anm_seed_guard_truthy"), ("c13", "targets_global_stream"), ("c13", "lganm_init_unseeded"),
    ("c14", "lganm_init_no_copy"), ("c14", "anm_init_no_copy"), ("c14", "nd_init_no_copy"), ("c14", "lganm_sample_no_copy"),
    ("c14", "maximally_orient_inplace"), ("c14", "only_directed_alias"), ("c14", "separates_consumes_set"), ("c14", "split_data_shuffles_input"),
    ("c17", "split_drops_remainder"), ("c17", "split_exact_sum"), ("c17", "split_loose_sum"), ("c17", "split_data_shuffles_input"),
    ("c19", "drf_unsorted_parents"), ("c19", "drf_same_bootstrap_seed"), ("c19", "drf_forest_unseeded"), ("c19", "drf_n_length_unchecked"),
]
EQUIVALENT = [("c10", "rule3_false"), ("c10", "rule4_false")]


def run(mod, patch):
    env = dict(os.environ)
    if patch:
        env["VKB_PATCH"] = os.path.join(HERE, "sanity", patch + ".py")
    else:
        env.pop("VKB_PATCH", None)
    r = subprocess.run([sys.executable, "-m", "vkb." + mod, "quick", "0"], env=env, capture_output=True, text=True)
    if r.returncode != 0:
        return None, "exit %d: %s" % (r.returncode, r.stderr[-300:])
    d = json.loads(r.stdout.strip().splitlines()[-1])
    return d["witness_kinds_total"], "; ".join(sorted({w["function"].split(".")[-1] for w in d["witnesses"]}))


def main():
    bad = 0
    only = set(sys.argv[1:])
    matrix = [(m, p) for m, p in MATRIX + EQUIVALENT if not only or m in only]
    for mod in sorted({m for m, _ in matrix}):
        n, info = run(mod, None)
        ok = n == 0
        bad += not ok
        print("%-4s %-26s witnesses=%s %s %s" % (mod, "(pinned library)", n, "ok" if ok else "UNEXPECTED", info))
    for mod, patch in matrix:
        n, info = run(mod, patch)
        want_some = (mod, patch) not in EQUIVALENT
        ok = n is not None and ((n > 0) == want_some)
        bad += not ok
        print("%-4s %-26s witnesses=%s %s %s" % (mod, patch, n, "ok" if ok else "UNEXPECTED", info))
    print("sanity: %s" % ("all as expected" if not bad else "%d unexpected" % bad))
    return 1 if bad else 0


if __name__ == "__main__":
    sys.exit(main())
