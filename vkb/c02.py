"""C02 - ANM samples satisfy the structural assignments row by row.

    cd /repo && PYTHONPATH=/repo:/verif/fake_rpy2:/verif /venv/bin/python -m vkb.c02 quick|thorough <seed>
    cd /repo && PYTHONPATH=/repo:/verif/fake_rpy2:/verif /venv/bin/python -m vkb.c02 replay <file>

The noise / intervention callables handed to the library record every array
they return; the assignment callables record the argument they receive.  The
oracle recomputes every column from those logs by recursion over its own parent
sets (non-zero pattern of the column, increasing index) - no topological
ordering, nothing of sempler.
"""
import itertools
import random

import numpy as np

from . import common as C
from . import oracles as O

HARNESS = "vkb.c02"
S = C.load_sempler()
F_SAMPLE = "sempler.ANM.sample"
F_INIT = "sempler.ANM.__init__"
KINDS = ("none", "do", "shift", "noise", "do+shift", "do+noise")
NS = (0, 1, 5)
N_FSETS = 4

# ----------------------------------------------------------------------------
# test inputs: recording callables


def recorder(log, ident):
    def draw(n):
        a = np.random.default_rng(list(ident) + [len(log)]).uniform(-1, 1, size=n)
        log.append(a.copy())
        return a
    return draw


def assignment(i, k, fset):
    """Non-linear assignment of node i with k parents, NOT symmetric in its arguments; returns shape (n,), (n,1) or a scalar."""
    v = (3 * fset + i) % 4
    if k == 0:
        return None if (fset + i) % 2 == 0 else S.functions.null
    if k == 1:
        return [lambda x: np.sin(x[:, 0]) + 0.5 * x[:, 0],                     # (n,)
                lambda x: 2 * x - 0.1 * x ** 2,                                 # (n,1)
                lambda x: 1.5,                                                  # scalar
                lambda x: np.abs(x) ** 1.5 - x][v]                              # (n,1)
    coef = np.array([(-1.0) ** j * (j + 1) for j in range(k)])                  # 1, -2, 3, -4
    power = np.array([1 + j % 2 for j in range(k)])                             # 1, 2, 1, 2
    return [lambda x: (coef * x ** power).sum(axis=1),                          # (n,)   x0 - 2 x1^2 + 3 x2 ...
            lambda x: (coef * x ** power).sum(axis=1, keepdims=True),           # (n,1)
            lambda x: 0.5 + 0.01 * float((x * np.arange(1, k + 1)).sum()),      # scalar (depends on every row)
            lambda x: np.tanh(x[:, 0]) * np.exp(0.1 * x[:, 1]) + x[:, -1] * (k - 2)][v]


def logged(f, log):
    def g(x):
        log.append(np.array(x, copy=True))
        return f(x)
    return g


def flat(v, n):
    v = np.asarray(v, dtype=float)
    if v.size == n:
        return v.reshape(n)
    if v.size == 1:
        return np.full(n, float(v.reshape(-1)[0]))
    raise AssertionError("assignment returned %d values for n=%d" % (v.size, n))


def close(a, b):
    return a.shape == b.shape and np.allclose(a, b, rtol=1e-10, atol=1e-10)


def _boom(*a):
    raise RuntimeError("callable replaced by the caller after construction was used")


def check_sample(A, kinds, n, fset=0, seed=0, mutate_after=False, rev=False):
    A = np.asarray(A)
    p = len(A)
    n = int(n)
    if not O.acyclic(p, O.encode(A)) or len(kinds) != p:
        return 0, []
    parents = [[j for j in range(p) if A[j, i] != 0] for i in range(p)]
    raw = [assignment(i, len(parents[i]), fset) for i in range(p)]
    arglog = [[] for _ in range(p)]
    assignments = [f if (f is None or f is S.functions.null) else logged(f, arglog[i]) for i, f in enumerate(raw)]
    logs = {(kind, i): [] for kind in ("orig", "do", "shift", "noise") for i in range(p)}
    noise_dists = [recorder(logs[("orig", i)], (seed, 0, i)) for i in range(p)]
    do = {i: recorder(logs[("do", i)], (seed, 1, i)) for i in range(p) if "do" in kinds[i].split("+")}
    shift = {i: recorder(logs[("shift", i)], (seed, 2, i)) for i in range(p) if "shift" in kinds[i].split("+")}
    noise = {i: recorder(logs[("noise", i)], (seed, 3, i)) for i in range(p) if "noise" in kinds[i].split("+")}
    if rev:      # the same interventions listed in descending key order (a dict need not be sorted by target)
        do, shift, noise = (dict(reversed(list(d.items()))) for d in (do, shift, noise))
    A_arg = A.copy()
    a_list, n_list = list(assignments), list(noise_dists)
    st, anm = C.call(S.ANM, A_arg, a_list, n_list)
    if st == "exc":
        return 1, C.unexpected_exception(anm, "ANM constructor on a DAG")
    viols = []
    if not C.same_array(A_arg, A) or any(x is not y for x, y in zip(a_list, assignments)) or any(x is not y for x, y in zip(n_list, noise_dists)):
        viols.append(("ANM constructor modified its arguments", "A / assignments / noise_distributions changed"))
    if mutate_after:
        A_arg[...] = 1          # cyclic now
        for i in range(p):
            a_list[i] = _boom
            n_list[i] = _boom
        a_list.append(_boom)
    keys = (set(do), set(shift), set(noise))
    st, X = C.call(anm.sample, n, do_interventions=do, shift_interventions=shift, noise_interventions=noise)
    if st == "exc":
        what = "ANM.sample after the caller changed the constructor arguments" if mutate_after else "ANM.sample"
        return 2, viols + C.unexpected_exception(X, what)
    if (set(do), set(shift), set(noise)) != keys:
        viols.append(("ANM.sample modified an intervention dict", "keys changed"))
    if not isinstance(X, np.ndarray) or X.shape != (n, p):
        return 2, viols + [("ANM.sample: result is not an (n, p) array", C.short(X))]

    # independent recomputation (memoised recursion over parents)
    memo = {}

    def candidates(i):
        """All values column i may take given the logged draws (normally exactly one)."""
        if i in memo:
            return memo[i]
        if i in do:
            out = [d for d in logs[("do", i)]] or None
            memo[i] = (out, "do-intervention distribution never sampled")
            return memo[i]
        f = raw[i]
        if f is None or f is S.functions.null:
            base = [np.zeros(n)]
        else:
            par = [candidates(j) for j in parents[i]]
            if any(c[0] is None for c in par):
                memo[i] = (None, "a parent could not be recomputed")
                return memo[i]
            base = [flat(f(np.column_stack(cols).reshape(n, len(cols))), n) for cols in itertools.product(*[c[0][:3] for c in par])][:9]
        if i in shift:
            extra = [a + b for a in logs[("orig", i)] for b in logs[("shift", i)]]
            why = "original noise or shift distribution never sampled"
        elif i in noise:
            extra = list(logs[("noise", i)])
            why = "noise-intervention distribution never sampled"
        else:
            extra = list(logs[("orig", i)])
            why = "noise distribution never sampled"
        out = [b + e for b in base for e in extra] or None
        memo[i] = (out, why)
        return memo[i]

    for i in range(p):
        cand, why = candidates(i)
        kind = kinds[i]
        if cand is None:
            if why.startswith("a parent"):
                continue                    # consequence of a violation already reported for the parent
            if "do" in kind.split("+"):
                viols.append(("ANM.sample: a do-intervened variable is not the intervention draw alone", "node %d kind %s: %s" % (i, kind, why)))
            else:
                viols.append(("ANM.sample: a required distribution was never sampled", "node %d kind %s: %s" % (i, kind, why)))
            continue
        if not any(close(X[:, i], c) for c in cand):
            if "do" in kind.split("+"):
                clause = "ANM.sample: a do-intervened variable is not the intervention draw alone"
            elif not parents[i]:
                clause = "ANM.sample: a variable without parents is not its noise alone (with shift / new noise as requested)"
            else:
                clause = "ANM.sample: a variable is not assignment(parents in increasing index order) + noise (original+shift | new | original)"
            viols.append((clause, "node %d kind %s parents %s: column %s expected %s" % (i, kind, parents[i], X[:, i].tolist(), cand[0].tolist())))
        # what the library handed to the assignment
        for arg in arglog[i]:
            want = X[:, parents[i]]
            if arg.shape != (n, len(parents[i])) or not close(np.asarray(arg, dtype=float), want):
                viols.append(("ANM.sample: the assignment did not receive exactly the sampled parent columns in increasing index order",
                              "node %d parents %s: received shape %s %s, sample has %s" % (i, parents[i], arg.shape, arg.tolist(), want.tolist())))
                break
    return 2, viols


def check_init(A):
    A = np.asarray(A)
    p = len(A)
    snap = C.freeze(A)
    st, r = C.call(S.ANM, A, [None] * p, [S.noise.zero()] * p)
    viols = []
    if C.freeze(A) != snap:
        viols.append(("ANM constructor modified A", "A changed"))
    if not O.acyclic(p, O.encode(A)):
        return 1, viols + C.expect_value_error(st, r, "ANM constructor with a cyclic adjacency")
    if st == "exc":
        return 1, viols + C.unexpected_exception(r, "ANM constructor with an acyclic adjacency")
    if r.p != p or not (isinstance(r.A, np.ndarray) and (r.A == A).all()) or np.shares_memory(r.A, A):
        viols.append(("ANM.A / p are not a copy of the given adjacency", C.short(r.A)))
    return 1, viols


def check_history(A, n=4, seed=0):
    """call history on models that use the library's own factories: zero-noise variables stay exact functions of their parents
    (and parentless ones exactly 0) after earlier calls that shifted / replaced noise -- on the same model and on a model built later"""
    A = np.asarray(A)
    p = len(A)
    if not O.acyclic(p, O.encode(A)):
        return 0, []
    parents = [[j for j in range(p) if A[j, i] != 0] for i in range(p)]

    def lin(i):
        k = len(parents[i])
        w = np.arange(1, k + 1, dtype=float) * (1 if i % 2 else -1)
        return (lambda X, w=w: X @ w) if k else None
    calls = 0
    viols = []

    def build():
        return S.ANM(A, [lin(i) for i in range(p)], [S.noise.zero() for _ in range(p)])

    def exact(X, what):
        for i in range(p):
            want = X[:, parents[i]] @ (np.arange(1, len(parents[i]) + 1, dtype=float) * (1 if i % 2 else -1)) if parents[i] else np.zeros(len(X))
            if not close(X[:, i], want):
                viols.append(("ANM.sample: a zero-noise variable is not its assignment applied to its parents (call history)",
                              "%s: node %d parents %s column %s expected %s" % (what, i, parents[i], X[:, i].tolist(), want.tolist())))
                return
    anm = build()
    rng = np.random.default_rng(seed)
    for step in range(3):
        st, X = C.call(anm.sample, n); calls += 1
        if st == "exc":
            return calls, C.unexpected_exception(X, "ANM.sample (zero noise)")
        exact(X, "observational call %d" % step)
        t = int(rng.integers(p))
        draws = rng.normal(size=n) + 3.0
        st, Y = C.call(anm.sample, n, shift_interventions={t: (lambda m, d=draws: d.copy())}); calls += 1
        if st == "exc":
            return calls, C.unexpected_exception(Y, "ANM.sample with a shift on a zero-noise variable")
        if viols:
            break
        anm2 = build()
        st, Z = C.call(anm2.sample, n); calls += 1
        if st != "exc":
            exact(Z, "model built after a shifted call")
    return calls, viols


F_HIST = F_SAMPLE + "#history"
CHECKS = {F_SAMPLE: check_sample, F_INIT: check_init, F_HIST: check_history}

# ----------------------------------------------------------------------------
# domain


def matrices(p, code, rng):
    """0/1 int matrix and a signed float weight matrix whose columns with >=2 parents sum to zero."""
    pat = O.decode(p, code)
    W = np.zeros((p, p))
    for j in range(p):
        par = [i for i in range(p) if pat[i, j]]
        ws = [rng.choice((-2.0, -0.5, 0.75, 1.0, 3.0)) for _ in par]
        if len(par) >= 2:
            if sum(ws[:-1]) == 0:
                ws[:-1] = [1.0] * (len(par) - 1)
            ws[-1] = -sum(ws[:-1])
            assert sum(ws) == 0 and all(ws)
        for i, x in zip(par, ws):
            W[i, j] = x
    return [pat, W]


def worker(task):
    t = C.Tally(HARNESS, CHECKS)
    p, codes, n_assign, fsets, hseed = task
    allassign = list(itertools.product(KINDS, repeat=p))
    for code in codes:
        rng = random.Random("c02-%d-%d-%d" % (p, code, hseed))
        assigns = allassign if n_assign is None else [allassign[0]] + rng.sample(allassign, n_assign - 1)
        mats = matrices(p, code, rng)
        if fsets == "rotate":       # p = 4, thorough: every assignment once, matrix kind and callable family rotate with the assignment
            for k, a in enumerate(assigns):
                mi, fset = k % 2, (k // 2) % N_FSETS
                for n in NS:
                    t.check(F_SAMPLE, A=mats[mi], kinds=list(a), n=n, fset=fset, seed=hseed, mutate_after=rng.random() < 0.3, rev=rng.random() < 0.5)
                t.mark((p, code, mi, fset, a))
            continue
        for mi, M in enumerate(mats):
            for fset in fsets:
                for a in assigns:
                    for n in NS:
                        t.check(F_SAMPLE, A=M, kinds=list(a), n=n, fset=fset, seed=hseed, mutate_after=rng.random() < 0.3, rev=rng.random() < 0.5)
                    t.mark((p, code, mi, fset, a))
    return t.export()


def big_worker(task):
    """larger label ranges: parent sets mixing indices below and above 8 (python's small-int set order is not sorted there)"""
    t = C.Tally(HARNESS, CHECKS)
    which, hseed = task
    rng = random.Random("c02big-%d-%d" % (which, hseed))
    p = 10
    parent_sets = [{9: [3, 8], 8: [1], 3: [0]}, {9: [1, 8], 5: [0, 8], 8: [2]}, {9: [0, 3, 8], 7: [1, 8], 8: [3]}, {6: [1, 9], 9: [0, 8], 8: [0]}][which % 4]
    A = np.zeros((p, p))
    for ch, pars in parent_sets.items():
        for q in pars:
            A[q, ch] = rng.choice((1.0, -2.0, 0.5))
    for rep in range(6):
        kinds = [rng.choice(KINDS) for _ in range(p)]
        for fset in range(min(N_FSETS, 3)):
            t.check(F_SAMPLE, A=A if rep % 2 else (A != 0).astype(int), kinds=kinds, n=5, fset=fset, seed=hseed, rev=bool(rep % 3 == 1))
        t.mark((p, which, rep))
    return t.export()


def init_worker(task):
    t = C.Tally(HARNESS, CHECKS)
    p, lo, hi, hseed = task
    for idx in range(lo, hi):
        rng = random.Random("c02i-%d-%d-%d" % (p, idx, hseed))
        pat = np.array([(idx >> k) & 1 for k in range(p * p)]).reshape(p, p)
        anti = pat.astype(float)
        for i in range(p):
            for j in range(p):
                if pat[i, j] and (i > j or (i == j and rng.random() < 0.5)):
                    anti[i, j] = -1.0
        signed = pat * np.array([[rng.choice((-2.0, -0.5, 0.5, 1.5)) for _ in range(p)] for _ in range(p)])
        for M in (pat, anti, signed):
            t.check(F_INIT, A=M)
            t.mark((p, M.tobytes()))
    return t.export()


def samples():
    out = []
    A = np.array([[0, 1, 1], [0, 0, 1], [0, 0, 0]])
    for kinds in (["none", "none", "none"], ["shift", "do+shift", "noise"]):
        def lib(kinds=kinds):
            n, v = check_sample(A, kinds, 2, fset=0, seed=0)
            return {"violations": [c for c, _ in v]}
        out.append({"function": F_SAMPLE, "inputs": {"A": A.tolist(), "kinds": kinds, "n": 2, "fset": 0, "seed": 0},
                    "library_vs_oracle": C.lib(lib), "oracle": "columns recomputed from the logged draws"})
    W = np.array([[0., 1.], [-1., 0.]])
    out.append({"function": F_INIT, "inputs": {"A": W.tolist()}, "library": C.lib(lambda: S.ANM(W, [None, None], [S.noise.zero()] * 2), render=lambda r: "constructed"),
                "oracle": "ValueError (2-cycle with cancelling weights)"})
    return out


def run(tier, seed):
    thorough = tier == "thorough"
    fsets = list(range(N_FSETS)) if thorough else [0, 1]
    tasks = []
    for p in (1, 2, 3):
        for ch in C.chunked(O.all_dags(p), 1 if p == 3 else 3):
            tasks.append((p, ch, None, fsets if p == 3 else list(range(N_FSETS)), seed))
    for ch in C.chunked(O.all_dags(4), 2 if thorough else 12):
        tasks.append((4, ch, None if thorough else 12, "rotate" if thorough else [seed % 2, 2 + seed % 2], seed))
    tasks.sort(key=lambda x: -x[0])
    tally = C.Tally(HARNESS, CHECKS)
    C.run_pool(worker, tasks, tally)
    t2 = C.Tally(HARNESS, CHECKS)
    itasks = [(p, lo, hi, seed) for p in (1, 2, 3) for (lo, hi) in C.ranges(0, 1 << (p * p), 32)]
    if thorough:
        r = random.Random(seed)
        itasks += [(4, i, i + 1, seed) for i in sorted(r.sample(range(1 << 16), 4000))]
    C.run_pool(init_worker, itasks, t2)
    tally.merge(t2.export())
    t3 = C.Tally(HARNESS, CHECKS)
    C.run_pool(big_worker, [(w, seed) for w in range(8 if thorough else 4)], t3)
    tally.merge(t3.export())
    t4 = C.Tally(HARNESS, CHECKS)
    for pp in (1, 2, 3):
        for code in O.all_dags(pp):
            t4.check(F_HIST, A=O.decode(pp, code), n=4, seed=seed)
            t4.mark(("hist", pp, code))
    tally.merge(t4.export())
    rule = ("every DAG on p<=%s as 0/1 int matrix and as signed float weights whose multi-parent columns sum to zero x every assignment of "
            "%s to the nodes (%s) x n in %s x %d families of non-linear assignment callables that are not symmetric in their arguments "
            "(returning (n,), (n,1) or a scalar; None / functions.null for parentless nodes), recording noise callables; in ~30%% of the cases "
            "the caller's A, assignment list and noise list are overwritten after construction. Each column is recomputed from the logged draws "
            "by recursion over the oracle's own parent sets (rtol=atol=1e-10) and the arguments received by the assignment callables are "
            "compared with the returned parent columns; result shape (n,p); plus fixed 10-node graphs whose parent sets mix indices below and above 8; intervention dicts in ascending and in descending key order; call histories on models using sempler.noise.zero() (observational, shift on a zero-noise variable, observational again, a model built afterwards). constructor: every 0/1 matrix with diagonal on p<=3%s x "
            "{0/1, antisymmetric +-1, signed}: ValueError iff the oracle finds a cycle, A copied. non-trivial = (p, DAG, matrix kind, family, assignment)"
            % ("4", list(KINDS), "all 6^p for p<=4; at p=4 matrix kind and callable family rotate with the assignment" if thorough else "all 6^p for p<=3 with both matrix kinds and every listed family, 12 sampled per DAG for p=4", list(NS), len(fsets),
               " and 4000 sampled p=4" if thorough else ""))
    return C.report(tally, rule, exhaustive=thorough, bound="p<=4 (p=4 sampled in quick)", samples=C.safe_samples(samples))


if __name__ == "__main__":
    C.main(HARNESS, CHECKS, run)
